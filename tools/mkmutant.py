#!/usr/bin/env python3
"""mkmutant.py <id> <property> <expected-rule> <file> <<< JSON {"edits":[[old,new],...], "note": "..."}
Creates mutants/<id>.patch (unified diff against /repo's working tree) and
mutants/<id>.json. The edit is made on a scratch copy, never in /repo."""
import json, os, subprocess, sys, tempfile, shutil
HERE = os.path.dirname(os.path.dirname(os.path.abspath(__file__)))
mid, prop, rule, path = sys.argv[1:5]
spec = json.load(sys.stdin)
src = open(os.path.join('/repo', path)).read()
new = src
for old, rep in spec['edits']:
    if new.count(old) != 1:
        sys.exit('edit anchor occurs %d times: %r' % (new.count(old), old[:60]))
    new = new.replace(old, rep)
tmp = tempfile.mkdtemp()
try:
    a = os.path.join(tmp, 'a', path); b = os.path.join(tmp, 'b', path)
    os.makedirs(os.path.dirname(a)); os.makedirs(os.path.dirname(b))
    open(a, 'w').write(src); open(b, 'w').write(new)
    r = subprocess.run(['diff', '-u', os.path.join('a', path), os.path.join('b', path)],
                       cwd=tmp, stdout=subprocess.PIPE, text=True)
    open(os.path.join(HERE, 'mutants', mid + '.patch'), 'w').write(r.stdout)
finally:
    shutil.rmtree(tmp)
json.dump({'id': mid, 'property': prop, 'expect_rule': rule, 'file': path,
           'expect_key': spec.get('expect_key', ''), 'kind': spec.get('kind', 'breaking'),
           'note': spec.get('note', '')},
          open(os.path.join(HERE, 'mutants', mid + '.json'), 'w'), indent=1)
print('mutant', mid, 'written')

#!/usr/bin/env python3
"""mkseedprompts.py <round-number> <breaking-ids> <preserving-ids>
e.g. mkseedprompts.py 5 C11,C12 C01,C02 — create /tmp/seed/<Cxx>-r<N> (breaking) and
/tmp/seed/<Cxx>-p<N> (behaviour-preserving) with a scratch worktree of /repo (wt/),
an empty out/ and prompt.txt.  The prompt holds only the text of the property, the
build recipe and one-line summaries of what earlier rounds did (so that a new agent
chooses something else); nothing from /verif's machinery.  The sub-agent is then
started with: "Read /tmp/seed/<id>/prompt.txt and carry out exactly the task it
describes. Work only inside /tmp/seed/<id>/. Do not read /repo or /verif."
Import with tools/importseed.py <id>, which also removes the worktree."""
import json, os, subprocess, sys, glob
HERE = os.path.dirname(os.path.dirname(os.path.abspath(__file__)))
rnd = sys.argv[1]
brk_ids = [x for x in sys.argv[2].split(',') if x]
pre_ids = [x for x in sys.argv[3].split(',') if x]
props = {}
for l in open(os.path.join(HERE, 'properties.jsonl')):
    d = json.loads(l)
    props[d['id']] = d
common = '''You are working alone in a scratch git worktree of the YARA repository (VirusTotal/yara: a C library + CLI, autotools build) at /tmp/seed/{sid}/wt . There is no network. Work ONLY inside /tmp/seed/{sid}/ — do not read, list or touch /repo, /verif or any other directory outside /tmp/seed/{sid}/ (system headers/tools are of course fine). Do NOT use `git stash` (the stash is shared between worktrees).

Build and test (already verified to work here, about 20 s + 15 s):
  cd /tmp/seed/{sid}/wt && ./bootstrap.sh >/dev/null 2>&1 && ./configure CFLAGS=-Wno-error >/dev/null && make -j6 >/dev/null && make -j6 check 2>&1 | grep -E "^# (PASS|FAIL|TOTAL)"
All 16 tests pass on the unchanged tree. After editing a .y/.l file just run make again (bison/flex are installed; the generated .c files are tracked and will be regenerated; if the build regenerates hex_grammar.c/.h although you did not touch hex_grammar.y, restore them with `git checkout libyara/hex_grammar.c libyara/hex_grammar.h`). Only the default modules are compiled (pe, elf, dotnet, math, hash, string, time, console, tests).

Here is a semantic property that YARA satisfies and must keep satisfying:

---
{prop}---

'''
pres = common + '''YOUR TASK: act as a maintainer doing a clean-up. Make ONE realistic, BEHAVIOUR-PRESERVING refactoring of 30–120 changed lines in the source code that implements the mechanism this property talks about. Earlier clean-ups already did the following — choose OTHER functions and another style: {prev}. Mix several of these in one change, as real clean-up commits do: rename locals/parameters/static functions; extract static helpers or inline them; move a group of related locals into a small struct; replace a `switch` by `if` chains or the reverse; turn loops around (`for`/`while`/`do`, counting down instead of up); invert conditions and swap branches; replace nested ifs by early `return`/`continue`/`goto`; introduce or remove named locals for sub-expressions; replace a macro use by its expansion; write comparisons the other way round; use compound assignment; hoist invariant code out of loops; reorder independent statements and declarations. The observable behaviour for EVERY input, error path, allocation failure and thread schedule must stay exactly the same. Do not edit tests, build files, documentation or the public API.

Then verify: the project compiles, `make check` reports 16 PASS, 0 FAIL, and explain why behaviour is preserved on all paths (including error paths).

DELIVERABLES in /tmp/seed/{sid}/out/ :
  patch.diff   — `git diff` of the worktree (must apply with `git apply` at the repository root; include regenerated parser .c files if you touched a .y/.l)
  meta.json    — {{"property": "{id}", "kind": "preserving", "summary": "...one sentence: what was refactored...", "files_changed": [...], "functions": [...], "why_behaviour_is_preserved": "..."}}
Leave the worktree with your change applied and built. When finished, reply with a short summary.'''
brk = common + '''YOUR TASK: play the role of a developer who makes a REALISTIC change to the source code (an optimisation, a clean-up, a small feature, a "simplification", a mistaken bug fix — the kind of thing that gets through code review) that BREAKS this property for some inputs, while the project still compiles and the existing test suite (`make check`, unedited) still reports 16 PASS, 0 FAIL. Earlier changes of this kind already did the following, so pick a DIFFERENT function and a different kind of mistake: {prev}. Prefer a change that needs something specific to manifest — a particular interleaving, a fault or failure at a particular point, a multi-step sequence of API calls, an unusual input, or two cooperating sites that each look fine alone — not one that ordinary use would expose at once. Keep the change small (1–25 changed lines) and plausible; no deliberately obfuscated sabotage, no dead code, no special-casing of magic inputs. Do not edit tests, build files or documentation.

Then DEMONSTRATE the breakage concretely with the yara/yarac command-line tools built in the worktree (or a tiny C program linked against libyara/.libs/libyara.a): a small script that shows, for specific rule files and input files you create, the behaviour of the unchanged code and the different (wrong) behaviour with your change.

DELIVERABLES in /tmp/seed/{sid}/out/ :
  patch.diff   — `git diff` of the worktree (must apply with `git apply` at the repository root; include regenerated parser .c files if you touched a .y/.l)
  demo/        — run.sh (runs against /tmp/seed/{sid}/wt as built, prints the wrong behaviour), the rule/input files it needs, before.txt (output on the unchanged tree) and after.txt (output with your change)
  meta.json    — {{"property": "{id}", "summary": "...what was changed and how it breaks the property...", "files_changed": [...], "function": "...", "why_tests_pass": "...", "what_triggers_it": "..."}}
Leave the worktree with your change applied and built. When finished, reply with a short summary.'''
os.makedirs('/tmp/seed', exist_ok=True)
made = []
for kind, tmpl, ids in (('p', pres, pre_ids), ('r', brk, brk_ids)):
    for pid in ids:
        p = props[pid]
        prop = "%s\n\n%s\n\nQuantified over: %s\n\nWhere the mechanism lives: %s\n" % (
            p['title'], p['statement'], p['quantifier']['text'], ', '.join(p['anchors']['files']))
        sid = '%s-%s%s' % (pid, kind, rnd)
        prevs = []
        for mp in sorted(glob.glob(os.path.join(HERE, 'seeded', pid + '-*', 'meta.json'))):
            m = json.load(open(mp))
            is_pres = m.get('kind') == 'preserving'
            if is_pres != (kind == 'p'):
                continue
            prevs.append('(%s) %s' % (m.get('function', m.get('functions', '?')),
                                      m.get('summary', '').replace('\n', ' ')[:200]))
        d = '/tmp/seed/' + sid
        os.makedirs(d + '/out/demo' if kind == 'r' else d + '/out', exist_ok=True)
        subprocess.run(['git', '-C', '/repo', 'worktree', 'add', '--detach', d + '/wt', 'HEAD'],
                       stdout=subprocess.PIPE, stderr=subprocess.PIPE)
        open(d + '/prompt.txt', 'w').write(tmpl.format(
            sid=sid, id=pid, prop=prop,
            prev=(' ; '.join(prevs) or 'nothing yet').replace('{', '(').replace('}', ')')))
        made.append(sid)
print(' '.join(made))

#!/usr/bin/env python3
"""Apply each mutants/*.patch to a scratch copy of /repo and run the owning
check against it (YARA_REPO=<scratch>); a breaking mutant must be reported
(exit 1, expected rule named), a behaviour-preserving one must stay exit 0.
usage: runmutants.py [ids or property ids...]"""
import glob, json, os, shutil, subprocess, sys, tempfile
from concurrent.futures import ThreadPoolExecutor
HERE = os.path.dirname(os.path.dirname(os.path.abspath(__file__)))

def run_one(meta):
    tmp = tempfile.mkdtemp(prefix='yrsa-mut-')
    try:
        scratch = os.path.join(tmp, 'repo')
        subprocess.run(['rsync', '-a', '--exclude', '.git', '--exclude', '*.o', '--exclude', '*.lo',
                        '--exclude', '.libs', '--exclude', '*.a', '--exclude', '/test-*',
                        '/repo/', scratch + '/'], check=True)
        patch = os.path.join(HERE, 'mutants', meta['id'] + '.patch')
        r = subprocess.run(['patch', '-p1', '-s', '-i', patch], cwd=scratch,
                           stdout=subprocess.PIPE, stderr=subprocess.STDOUT, text=True)
        if r.returncode != 0:
            return meta, 'PATCH-FAILED', r.stdout[-300:]
        env = dict(os.environ, YARA_REPO=scratch, YRSA_CACHE=os.path.join(tmp, 'cache'),
                   YRSA_NO_EVIDENCE='1')
        r = subprocess.run([os.path.join(HERE, 'check'), meta['property'], '--tier',
                            os.environ.get('MUT_TIER', 'quick')], env=env,
                           stdout=subprocess.PIPE, stderr=subprocess.STDOUT, text=True)
        out = r.stdout
        if meta.get('kind') == 'preserving':
            ok = r.returncode == 0
            return meta, 'SILENT-OK' if ok else 'FALSE-ALARM', out[-600:] if not ok else ''
        hit = [l for l in out.splitlines() if (': %s: ' % meta['expect_rule']) in l or
               ('[' in l and meta['expect_rule'] in l and 'VIOLATION' not in l and l.strip().endswith(']'))]
        hit = [l for l in hit if meta.get('expect_key', '') in l]
        if r.returncode == 1 and hit:
            return meta, 'KILLED', hit[0][:300]
        return meta, 'SURVIVED(exit %d)' % r.returncode, out[-800:]
    finally:
        shutil.rmtree(tmp, ignore_errors=True)

def main():
    sel = sys.argv[1:]
    metas = [json.load(open(f)) for f in sorted(glob.glob(os.path.join(HERE, 'mutants', '*.json'))) if not f.endswith('RESULTS.json') and not f.endswith('BUILD.json') and not f.endswith('RENAMED.json')]
    if sel:
        metas = [m for m in metas if m['id'] in sel or m['property'] in sel]
    bad = 0
    results = {}
    with ThreadPoolExecutor(max_workers=int(os.environ.get('MUT_JOBS', '6'))) as ex:
        for meta, verdict, detail in ex.map(run_one, metas):
            print('MUTANT %-28s %-4s %-8s %s' % (meta['id'], meta['property'], meta['expect_rule'], verdict))
            results[meta['id']] = {'property': meta['property'], 'rule': meta['expect_rule'],
                                   'kind': meta.get('kind', 'breaking'), 'verdict': verdict.split('(')[0],
                                   'note': meta.get('note', '')}
            if not verdict.startswith(('KILLED', 'SILENT-OK')):
                bad += 1
                print('   ' + detail.replace('\n', '\n   '))
            elif os.environ.get('MUT_VERBOSE'):
                print('   ' + detail)
    print('%d mutants, %d not as expected' % (len(metas), bad))
    if not sel:
        json.dump(results, open(os.path.join(HERE, 'mutants', 'RESULTS.json'), 'w'), indent=1, sort_keys=True)
    return 1 if bad else 0

if __name__ == '__main__':
    sys.exit(main())

#!/usr/bin/env python3
"""mkcomposed.py <id> <property> <expected-rule> <seeded-id> <file> <<< JSON {"edits":[[old,new],...], "note": "..."}
A composed mutant: a behaviour-preserving refactoring from seeded/<seeded-id>
with one breaking edit made on top of it (in <file>).  Shows that a rule which
was generalised to stay silent on the refactoring still reports the breakage
in the refactored shape.  Writes mutants/<id>.patch (diff against /repo's
working tree, both changes) and mutants/<id>.json; works on a scratch copy."""
import json, os, re, subprocess, sys, tempfile, shutil
HERE = os.path.dirname(os.path.dirname(os.path.abspath(__file__)))
mid, prop, rule, sid, path = sys.argv[1:6]
spec = json.load(sys.stdin)
patch = os.path.join(HERE, 'seeded', sid, 'patch.diff')
files = sorted(set(re.findall(r'^\+\+\+ b/(\S+)', open(patch).read(), re.M)) | {path})
tmp = tempfile.mkdtemp()
try:
    for side in ('a', 'b'):
        for f in files:
            d = os.path.join(tmp, side, f)
            os.makedirs(os.path.dirname(d), exist_ok=True)
            shutil.copy(os.path.join('/repo', f), d)
    r = subprocess.run(['patch', '-s', '-p1', '-i', patch], cwd=os.path.join(tmp, 'b'))
    if r.returncode != 0:
        sys.exit('seeded patch does not apply')
    bp = os.path.join(tmp, 'b', path)
    new = open(bp).read()
    for old, rep in spec['edits']:
        if new.count(old) != 1:
            sys.exit('edit anchor occurs %d times: %r' % (new.count(old), old[:60]))
        new = new.replace(old, rep)
    open(bp, 'w').write(new)
    out = ''
    for f in files:
        r = subprocess.run(['diff', '-u', os.path.join('a', f), os.path.join('b', f)],
                           cwd=tmp, stdout=subprocess.PIPE, text=True)
        out += r.stdout
    open(os.path.join(HERE, 'mutants', mid + '.patch'), 'w').write(out)
finally:
    shutil.rmtree(tmp)
json.dump({'id': mid, 'property': prop, 'expect_rule': rule, 'file': path,
           'expect_key': spec.get('expect_key', ''), 'kind': spec.get('kind', 'breaking'),
           'on_top_of': sid, 'note': spec.get('note', '')},
          open(os.path.join(HERE, 'mutants', mid + '.json'), 'w'), indent=1)
print('composed mutant', mid, 'written')

// yrx — fact extractor for the yara static checks (clang-14 libTooling).
//
// One JSON document per translation unit on stdout (or -o file):
//   records, enum constants, globals (with function-pointer initialisers),
//   object-like macro definitions (token text), and per function defined in a
//   repository file: the full statement/expression tree as a flat node table
//   (parents, resolved callees, record+field of every member access, constant
//   values as clang evaluates them, macro-expansion stacks, presumed
//   file:line honouring #line) and the clang::CFG (all sub-expressions as
//   elements, in evaluation order; terminators; labelled successors).
//
// The extractor produces facts only; every verdict is computed by the python
// rules in /verif/yrsa.
//
// build: see /verif/tools/build.sh

#include "clang/AST/ASTConsumer.h"
#include "clang/AST/ASTContext.h"
#include "clang/AST/Decl.h"
#include "clang/AST/Expr.h"
#include "clang/AST/RecordLayout.h"
#include "clang/AST/RecursiveASTVisitor.h"
#include "clang/AST/Stmt.h"
#include "clang/Analysis/CFG.h"
#include "clang/Frontend/CompilerInstance.h"
#include "clang/Frontend/FrontendAction.h"
#include "clang/Lex/Lexer.h"
#include "clang/Lex/MacroInfo.h"
#include "clang/Lex/PPCallbacks.h"
#include "clang/Lex/Preprocessor.h"
#include "clang/Tooling/CommonOptionsParser.h"
#include "clang/Tooling/Tooling.h"
#include "llvm/Support/CommandLine.h"
#include "llvm/Support/JSON.h"
#include "llvm/Support/raw_ostream.h"

#include <map>
#include <set>
#include <string>
#include <vector>

using namespace clang;
using namespace clang::tooling;

static llvm::cl::OptionCategory Cat("yrx options");
static llvm::cl::opt<std::string> OutFile(
    "o", llvm::cl::desc("output file"), llvm::cl::init("-"), llvm::cl::cat(Cat));
static llvm::cl::opt<std::string> RepoRoot(
    "root",
    llvm::cl::desc("only functions defined in files under this directory"),
    llvm::cl::init(""),
    llvm::cl::cat(Cat));

namespace
{

struct MacroDef
{
  std::string name, text, file;
  unsigned line;
  bool function_like;
};

static std::vector<MacroDef> g_macros;

class MacroCollector : public PPCallbacks
{
  Preprocessor& PP;

 public:
  explicit MacroCollector(Preprocessor& pp) : PP(pp) {}

  void MacroDefined(const Token& Name, const MacroDirective* MD) override
  {
    const MacroInfo* MI = MD->getMacroInfo();
    SourceManager& SM = PP.getSourceManager();
    SourceLocation L = MI->getDefinitionLoc();
    if (L.isInvalid() || SM.isInSystemHeader(L))
      return;
    PresumedLoc P = SM.getPresumedLoc(L);
    if (P.isInvalid())
      return;
    std::string fn = P.getFilename();
    if (fn.empty() || fn[0] == '<')
      return;
    MacroDef d;
    d.name = Name.getIdentifierInfo()->getName().str();
    d.file = fn;
    d.line = P.getLine();
    d.function_like = MI->isFunctionLike();
    std::string txt;
    unsigned n = 0;
    for (const Token& T : MI->tokens())
    {
      if (n++ > 64)
        break;
      if (!txt.empty() && T.hasLeadingSpace())
        txt += ' ';
      txt += PP.getSpelling(T);
    }
    d.text = txt;
    g_macros.push_back(d);
  }
};

class Extractor
{
 public:
  ASTContext& Ctx;
  SourceManager& SM;
  const LangOptions& LO;
  llvm::json::OStream& J;
  std::string root;

  std::vector<std::string> files;
  std::map<std::string, int> fileIdx;

  Extractor(ASTContext& c, llvm::json::OStream& j, std::string r)
      : Ctx(c), SM(c.getSourceManager()), LO(c.getLangOpts()), J(j), root(r)
  {
  }

  std::string relPath(std::string f)
  {
    if (!root.empty() && f.rfind(root, 0) == 0)
    {
      f = f.substr(root.size());
      while (!f.empty() && f[0] == '/') f = f.substr(1);
    }
    while (f.rfind("./", 0) == 0) f = f.substr(2);
    return f;
  }

  int internFile(const std::string& f0)
  {
    std::string f = relPath(f0);
    auto it = fileIdx.find(f);
    if (it != fileIdx.end())
      return it->second;
    int i = files.size();
    files.push_back(f);
    fileIdx[f] = i;
    return i;
  }

  bool inRepo(SourceLocation L)
  {
    if (L.isInvalid())
      return false;
    SourceLocation E = SM.getExpansionLoc(L);
    if (SM.isInSystemHeader(E))
      return false;
    PresumedLoc P = SM.getPresumedLoc(E);
    if (P.isInvalid())
      return false;
    std::string fn = P.getFilename();
    if (fn.empty() || fn[0] == '<')
      return false;
    if (fn.rfind("/usr/", 0) == 0)
      return false;
    return true;
  }

  std::string typeStr(QualType T) { return T.getAsString(); }

  // shape of a scalar type: "iw" = bit width of an integer type (negative when
  // signed), "ps" = size in bytes of the pointee of a pointer to a complete
  // object type.  Rules use these instead of tables of typedef names.
  template <class FS> void typeShape(FS&, QualType T)
  {
    if (T.isNull())
      return;
    QualType C = T.getCanonicalType();
    if (C->isDependentType() || C->isIncompleteType())
      return;
    if (C->isIntegralOrEnumerationType())
    {
      int64_t w = (int64_t) Ctx.getTypeSize(C);
      J.attribute("iw", C->isSignedIntegerOrEnumerationType() ? -w : w);
    }
    else if (C->isPointerType())
    {
      QualType P = C->getPointeeType();
      if (!P->isIncompleteType() && !P->isFunctionType() && !P->isDependentType())
        J.attribute("ps", (int64_t) Ctx.getTypeSizeInChars(P).getQuantity());
      else if (P->isVoidType())
        J.attribute("ps", (int64_t) 1);
    }
  }

  std::string canonStr(QualType T)
  {
    return T.getCanonicalType().getUnqualifiedType().getAsString();
  }

  // name of the record a type denotes (through typedefs), or "" if none
  std::string recordOf(QualType T)
  {
    T = T.getCanonicalType();
    if (const RecordType* RT = T->getAs<RecordType>())
      return recordName(RT->getDecl());
    return "";
  }

  std::string recordName(const RecordDecl* RD)
  {
    if (!RD)
      return "";
    if (RD->getIdentifier())
      return RD->getName().str();
    if (const TypedefNameDecl* TD = RD->getTypedefNameForAnonDecl())
      return TD->getName().str();
    // anonymous: name by location
    PresumedLoc P = SM.getPresumedLoc(SM.getExpansionLoc(RD->getLocation()));
    if (P.isInvalid())
      return "<anon>";
    std::string fn = P.getFilename();
    size_t s = fn.rfind('/');
    if (s != std::string::npos)
      fn = fn.substr(s + 1);
    return "<anon@" + fn + ":" + std::to_string(P.getLine()) + ">";
  }

  std::string pointeeRecord(QualType T)
  {
    T = T.getCanonicalType();
    if (T->isPointerType())
      return recordOf(T->getPointeeType());
    if (T->isArrayType())
      return recordOf(QualType(T->getBaseElementTypeUnsafe(), 0));
    return "";
  }

  // ---------------------------------------------------------------- records
  std::set<const RecordDecl*> seenRecords;

  void emitFields(
      const RecordDecl* RD,
      uint64_t baseBits,
      int anonId,
      int& anonCounter,
      const std::string& anonKind)
  {
    if (RD->isInvalidDecl() || !RD->isCompleteDefinition())
      return;
    const ASTRecordLayout& L = Ctx.getASTRecordLayout(RD);
    unsigned i = 0;
    for (const FieldDecl* F : RD->fields())
    {
      uint64_t off = baseBits + L.getFieldOffset(i++);
      QualType FT = F->getType();
      if (F->isAnonymousStructOrUnion())
      {
        const RecordDecl* Inner = FT->getAs<RecordType>()->getDecl();
        int id = ++anonCounter;
        emitFields(
            Inner, off, id, anonCounter, Inner->isUnion() ? "union" : "struct");
        continue;
      }
      J.object([&] {
        J.attribute("name", F->getName());
        J.attribute("type", typeStr(FT));
        J.attribute("offset", (int64_t) (off / 8));
        if (!FT->isIncompleteType() && !FT->isDependentType())
          J.attribute("size", (int64_t) Ctx.getTypeSizeInChars(FT).getQuantity());
        QualType C = FT.getCanonicalType();
        if (C->isPointerType())
        {
          J.attribute("ptr", true);
          if (C->getPointeeType()->isFunctionType())
            J.attribute("fnptr", true);
        }
        if (C->isArrayType())
        {
          if (const ConstantArrayType* CAT = Ctx.getAsConstantArrayType(FT))
            J.attribute("extent", (int64_t) CAT->getSize().getZExtValue());
        }
        std::string pr = pointeeRecord(FT);
        if (!pr.empty())
          J.attribute("prec", pr);
        std::string rr = recordOf(FT);
        if (!rr.empty())
          J.attribute("rec", rr);
        if (anonId)
        {
          J.attribute("anon", anonId);
          J.attribute("anon_kind", anonKind);
        }
        if (F->isBitField())
          J.attribute("bitfield", true);
      });
    }
  }

  void emitRecord(const RecordDecl* RD)
  {
    RD = RD->getDefinition();
    if (!RD || !seenRecords.insert(RD).second)
      return;
    if (RD->isInvalidDecl())
      return;
    if (!inRepo(RD->getLocation()))
      return;
    // anonymous members are flattened into their parent
    if (RD->isAnonymousStructOrUnion())
      return;
    J.object([&] {
      J.attribute("name", recordName(RD));
      J.attribute("union", RD->isUnion());
      const ASTRecordLayout& L = Ctx.getASTRecordLayout(RD);
      J.attribute("size", (int64_t) L.getSize().getQuantity());
      J.attribute("align", (int64_t) L.getAlignment().getQuantity());
      PresumedLoc P = SM.getPresumedLoc(SM.getExpansionLoc(RD->getLocation()));
      if (P.isValid())
      {
        J.attribute("file", internFile(P.getFilename()));
        J.attribute("line", P.getLine());
      }
      J.attributeArray("fields", [&] {
        int anonCounter = 0;
        emitFields(RD, 0, 0, anonCounter, "");
      });
    });
  }

  // ---------------------------------------------------------------- globals
  void collectInitFns(
      const Expr* E,
      std::vector<std::string>& fns,
      std::vector<std::tuple<std::string, std::string, std::string>>& byField)
  {
    if (!E)
      return;
    E = E->IgnoreParenImpCasts();
    if (const InitListExpr* IL = dyn_cast<InitListExpr>(E))
    {
      if (IL->isSyntacticForm() && IL->getSemanticForm())
        IL = IL->getSemanticForm();
      QualType T = IL->getType();
      const RecordType* RT = T->getAs<RecordType>();
      if (RT)
      {
        const RecordDecl* RD = RT->getDecl();
        unsigned i = 0;
        for (const FieldDecl* F : RD->fields())
        {
          if (i >= IL->getNumInits())
            break;
          const Expr* I = IL->getInit(i++);
          if (!I)
            continue;
          const Expr* S = I->IgnoreParenImpCasts();
          if (const UnaryOperator* UO = dyn_cast<UnaryOperator>(S))
            if (UO->getOpcode() == UO_AddrOf)
              S = UO->getSubExpr()->IgnoreParenImpCasts();
          if (const DeclRefExpr* DR = dyn_cast<DeclRefExpr>(S))
            if (const FunctionDecl* FD = dyn_cast<FunctionDecl>(DR->getDecl()))
            {
              fns.push_back(FD->getName().str());
              byField.emplace_back(
                  recordName(RD), F->getName().str(), FD->getName().str());
              continue;
            }
          collectInitFns(I, fns, byField);
        }
        return;
      }
      for (unsigned i = 0; i < IL->getNumInits(); i++)
        collectInitFns(IL->getInit(i), fns, byField);
      return;
    }
    if (const UnaryOperator* UO = dyn_cast<UnaryOperator>(E))
      if (UO->getOpcode() == UO_AddrOf)
        E = UO->getSubExpr()->IgnoreParenImpCasts();
    if (const DeclRefExpr* DR = dyn_cast<DeclRefExpr>(E))
      if (const FunctionDecl* FD = dyn_cast<FunctionDecl>(DR->getDecl()))
        fns.push_back(FD->getName().str());
  }

  void emitGlobal(const VarDecl* VD, const std::string& inFunction)
  {
    if (!inRepo(VD->getLocation()))
      return;
    J.object([&] {
      J.attribute("name", VD->getName());
      PresumedLoc P = SM.getPresumedLoc(SM.getExpansionLoc(VD->getLocation()));
      if (P.isValid())
      {
        J.attribute("file", internFile(P.getFilename()));
        J.attribute("line", P.getLine());
      }
      QualType T = VD->getType();
      J.attribute("type", typeStr(T));
      bool isConst = T.isConstQualified();
      if (const ArrayType* AT = T->getAsArrayTypeUnsafe())
        isConst = isConst || AT->getElementType().isConstQualified();
      J.attribute("const", isConst);
      J.attribute("tls", VD->getTLSKind() != VarDecl::TLS_None);
      J.attribute("static", VD->getStorageClass() == SC_Static);
      J.attribute("extern_decl", !VD->isThisDeclarationADefinition());
      J.attribute("has_init", VD->hasInit());
      if (!inFunction.empty())
        J.attribute("in_function", inFunction);
      std::string rr = recordOf(T);
      if (!rr.empty())
        J.attribute("rec", rr);
      std::string pr = pointeeRecord(T);
      if (!pr.empty())
        J.attribute("prec", pr);
      if (VD->hasInit())
      {
        std::vector<std::string> fns;
        std::vector<std::tuple<std::string, std::string, std::string>> bf;
        collectInitFns(VD->getInit(), fns, bf);
        if (!fns.empty())
        {
          J.attributeArray("init_fns", [&] {
            for (auto& f : fns) J.value(f);
          });
          J.attributeArray("init_fields", [&] {
            for (auto& t : bf)
              J.array([&] {
                J.value(std::get<0>(t));
                J.value(std::get<1>(t));
                J.value(std::get<2>(t));
              });
          });
        }
      }
    });
  }

  // -------------------------------------------------------------- functions
  struct FnState
  {
    std::map<const Stmt*, int> id;
    std::map<const VarDecl*, int> declNode;
    std::vector<std::vector<std::string>> mstacks;
    std::map<std::string, int> mstackIdx;
    int next = 0;
    int fileOfFn = -1;
    std::vector<const VarDecl*> staticLocals;
    std::vector<const VarDecl*> locals;
  };

  int macroStack(FnState& S, SourceLocation L)
  {
    if (!L.isMacroID())
      return -1;
    std::vector<std::string> names;
    int guard = 0;
    while (L.isMacroID() && guard++ < 64)
    {
      std::string n = Lexer::getImmediateMacroName(L, SM, LO).str();
      if (!n.empty() && (names.empty() || names.back() != n))
        names.push_back(n);
      L = SM.getImmediateMacroCallerLoc(L);
    }
    // outermost first
    std::reverse(names.begin(), names.end());
    std::string key;
    for (auto& n : names) key += n + "|";
    auto it = S.mstackIdx.find(key);
    if (it != S.mstackIdx.end())
      return it->second;
    int i = S.mstacks.size();
    S.mstacks.push_back(names);
    S.mstackIdx[key] = i;
    return i;
  }

  const Stmt* strip(const Stmt* S)
  {
    while (S)
    {
      if (const ParenExpr* P = dyn_cast<ParenExpr>(S))
        S = P->getSubExpr();
      else if (const ImplicitCastExpr* I = dyn_cast<ImplicitCastExpr>(S))
        S = I->getSubExpr();
      else if (const FullExpr* F = dyn_cast<FullExpr>(S))
        S = F->getSubExpr();
      else if (isAnonMember(S))
        S = cast<MemberExpr>(S)->getBase();
      else
        break;
    }
    return S;
  }

  // access to the unnamed union/struct member that C inserts for fields of
  // anonymous records (DECLARE_REFERENCE): folded into the outer access
  static bool isAnonMember(const Stmt* S)
  {
    if (const MemberExpr* M = dyn_cast<MemberExpr>(S))
      if (const FieldDecl* F = dyn_cast<FieldDecl>(M->getMemberDecl()))
        return F->isAnonymousStructOrUnion();
    return false;
  }

  bool tryConst(const Expr* E, llvm::APSInt& out)
  {
    if (E->isValueDependent() || E->isTypeDependent())
      return false;
    if (!E->getType()->isIntegralOrEnumerationType())
      return false;
    Expr::EvalResult R;
    if (E->EvaluateAsInt(R, Ctx, Expr::SE_NoSideEffects))
    {
      out = R.Val.getInt();
      return true;
    }
    return false;
  }

  void commonAttrs(FnState& S, const Stmt* St, int parent)
  {
    J.attribute("i", S.id[St]);
    J.attribute("p", parent);
    SourceLocation B = St->getBeginLoc();
    if (B.isValid())
    {
      PresumedLoc P = SM.getPresumedLoc(SM.getExpansionLoc(B));
      if (P.isValid())
      {
        J.attribute("l", P.getLine());
        int f = internFile(P.getFilename());
        if (f != S.fileOfFn)
          J.attribute("f", f);
      }
      int m = macroStack(S, B);
      if (m >= 0)
        J.attribute("m", m);
      if (B.isMacroID() && SM.isMacroArgExpansion(B))
        J.attribute("ma", true);
    }
  }

  void kidsAttr(FnState& S, const std::vector<int>& kids)
  {
    if (kids.empty())
      return;
    J.attributeArray("c", [&] {
      for (int k : kids) J.value(k);
    });
  }

  int assignId(FnState& S, const Stmt* St)
  {
    auto it = S.id.find(St);
    if (it != S.id.end())
      return it->second;
    int i = S.next++;
    S.id[St] = i;
    return i;
  }

  // Emit node for St (already stripped) and its subtree; returns node id.
  // Nodes are emitted children-first is not required; parents reference kids.
  int walk(FnState& S, const Stmt* Raw, int parent)
  {
    const Stmt* St = strip(Raw);
    if (!St)
      return -1;
    int me = assignId(S, St);
    // map wrappers to the same id
    {
      const Stmt* W = Raw;
      while (W && W != St)
      {
        S.id[W] = me;
        if (const ParenExpr* P = dyn_cast<ParenExpr>(W))
          W = P->getSubExpr();
        else if (const ImplicitCastExpr* I = dyn_cast<ImplicitCastExpr>(W))
          W = I->getSubExpr();
        else if (const FullExpr* F = dyn_cast<FullExpr>(W))
          W = F->getSubExpr();
        else if (isAnonMember(W))
          W = cast<MemberExpr>(W)->getBase();
        else
          break;
      }
    }

    // DeclStmt: one "decl" node per variable
    if (const DeclStmt* DS = dyn_cast<DeclStmt>(St))
    {
      std::vector<int> kids;
      std::vector<std::pair<const VarDecl*, int>> todo;
      for (const Decl* D : DS->decls())
      {
        if (const VarDecl* VD = dyn_cast<VarDecl>(D))
        {
          int id = S.next++;
          S.declNode[VD] = id;
          kids.push_back(id);
          todo.push_back({VD, id});
          if (VD->isStaticLocal())
            S.staticLocals.push_back(VD);
          else
            S.locals.push_back(VD);
        }
      }
      J.object([&] {
        J.attribute("k", "declstmt");
        commonAttrs(S, St, parent);
        kidsAttr(S, kids);
      });
      for (auto& pr : todo)
      {
        const VarDecl* VD = pr.first;
        int initId = -1;
        // emit children after the node itself (order is irrelevant)
        std::vector<int> k2;
        // reserve: we need init id before emitting; walk after
        J.object([&] {
          J.attribute("k", "decl");
          J.attribute("i", pr.second);
          J.attribute("p", me);
          PresumedLoc P =
              SM.getPresumedLoc(SM.getExpansionLoc(VD->getLocation()));
          if (P.isValid())
          {
            J.attribute("l", P.getLine());
            int f = internFile(P.getFilename());
            if (f != S.fileOfFn)
              J.attribute("f", f);
          }
          int m = macroStack(S, VD->getLocation());
          if (m >= 0)
            J.attribute("m", m);
          J.attribute("name", VD->getName());
          J.attribute("t", typeStr(VD->getType()));
          typeShape(S, VD->getType());
          std::string pr2 = pointeeRecord(VD->getType());
          if (!pr2.empty())
            J.attribute("prec", pr2);
          std::string rr = recordOf(VD->getType());
          if (!rr.empty())
            J.attribute("rec", rr);
          if (VD->isStaticLocal())
            J.attribute("static", true);
          if (VD->hasInit())
          {
            const Stmt* I = strip(VD->getInit());
            initId = assignId(S, I);
            J.attributeArray("c", [&] { J.value(initId); });
          }
        });
        if (VD->hasInit())
          walk(S, VD->getInit(), pr.second);
      }
      return me;
    }

    std::vector<const Stmt*> childStmts;
    for (const Stmt* C : St->children())
      if (C)
        childStmts.push_back(C);

    // OffsetOfExpr / sizeof: children are not evaluated; keep them out
    bool leafify = false;
    if (isa<OffsetOfExpr>(St))
      leafify = true;
    if (const UnaryExprOrTypeTraitExpr* U =
            dyn_cast<UnaryExprOrTypeTraitExpr>(St))
      if (!(U->getKind() == UETT_SizeOf && !U->isArgumentType() &&
            U->getArgumentExpr()->getType()->isVariableArrayType()))
        leafify = true;
    if (leafify)
      childStmts.clear();

    std::vector<int> kids;
    for (const Stmt* C : childStmts) kids.push_back(assignId(S, strip(C)));

    J.object([&] {
      const Expr* E = dyn_cast<Expr>(St);
      if (E)
      {
        // kind-specific
        if (const CallExpr* CE = dyn_cast<CallExpr>(E))
        {
          J.attribute("k", "call");
          if (const FunctionDecl* FD = CE->getDirectCallee())
          {
            J.attribute("callee", FD->getName());
          }
          else
          {
            QualType CT = CE->getCallee()->getType().getCanonicalType();
            if (CT->isPointerType())
              CT = CT->getPointeeType();
            J.attribute("fntype", canonStr(CT));
          }
        }
        else if (const MemberExpr* ME = dyn_cast<MemberExpr>(E))
        {
          J.attribute("k", "member");
          const ValueDecl* MD = ME->getMemberDecl();
          J.attribute("fld", MD->getName());
          {
            bool arrow = ME->isArrow();
            const Expr* B = ME->getBase()->IgnoreParenImpCasts();
            while (isAnonMember(B))
            {
              arrow = cast<MemberExpr>(B)->isArrow();
              B = cast<MemberExpr>(B)->getBase()->IgnoreParenImpCasts();
            }
            J.attribute("arrow", arrow);
          }
          if (const FieldDecl* FD = dyn_cast<FieldDecl>(MD))
          {
            // enclosing named record (skip anonymous structs/unions)
            const RecordDecl* RD = FD->getParent();
            while (RD && RD->isAnonymousStructOrUnion())
            {
              const DeclContext* DC = RD->getParent();
              const RecordDecl* Up = dyn_cast<RecordDecl>(DC);
              if (!Up)
                break;
              RD = Up;
            }
            J.attribute("rec", recordName(RD));
          }
        }
        else if (const DeclRefExpr* DR = dyn_cast<DeclRefExpr>(E))
        {
          J.attribute("k", "ref");
          const ValueDecl* D = DR->getDecl();
          J.attribute("name", D->getName());
          if (isa<FunctionDecl>(D))
            J.attribute("dk", "func");
          else if (isa<EnumConstantDecl>(D))
            J.attribute("dk", "enum");
          else if (isa<ParmVarDecl>(D))
            J.attribute("dk", "param");
          else if (const VarDecl* VD = dyn_cast<VarDecl>(D))
          {
            if (VD->isStaticLocal())
              J.attribute("dk", "slocal");
            else if (VD->hasGlobalStorage())
              J.attribute("dk", "global");
            else
              J.attribute("dk", "local");
          }
        }
        else if (const IntegerLiteral* IL = dyn_cast<IntegerLiteral>(E))
        {
          J.attribute("k", "int");
          (void) IL;
        }
        else if (const FloatingLiteral* FL = dyn_cast<FloatingLiteral>(E))
        {
          J.attribute("k", "float");
          J.attribute("fval", FL->getValueAsApproximateDouble());
        }
        else if (const clang::StringLiteral* SL =
                     dyn_cast<clang::StringLiteral>(E))
        {
          J.attribute("k", "str");
          if (SL->getCharByteWidth() == 1)
          {
            std::string s = SL->getBytes().str();
            // JSON-safe: replace non-printables
            std::string o;
            for (unsigned char c : s)
            {
              if (c >= 32 && c < 127)
                o += (char) c;
              else
              {
                char b[8];
                snprintf(b, sizeof b, "\\x%02x", c);
                o += b;
              }
            }
            J.attribute("str", o);
          }
        }
        else if (isa<CharacterLiteral>(E))
        {
          J.attribute("k", "char");
        }
        else if (const BinaryOperator* BO = dyn_cast<BinaryOperator>(E))
        {
          J.attribute("k", "bin");
          J.attribute("op", BO->getOpcodeStr());
        }
        else if (const UnaryOperator* UO = dyn_cast<UnaryOperator>(E))
        {
          J.attribute("k", "un");
          std::string op = UnaryOperator::getOpcodeStr(UO->getOpcode()).str();
          if (UO->isPostfix())
            op = "post" + op;
          J.attribute("op", op);
        }
        else if (isa<ConditionalOperator>(E) ||
                 isa<BinaryConditionalOperator>(E))
        {
          J.attribute("k", "cond");
        }
        else if (const ExplicitCastExpr* CE2 = dyn_cast<ExplicitCastExpr>(E))
        {
          J.attribute("k", "cast");
          J.attribute("from", typeStr(CE2->getSubExpr()->getType()));
          bool fromPtr = CE2->getSubExpr()->getType()->isPointerType();
          bool toPtr = CE2->getType()->isPointerType();
          if (fromPtr != toPtr)
            J.attribute("ptrint", true);
        }
        else if (isa<ArraySubscriptExpr>(E))
        {
          J.attribute("k", "sub");
          const ArraySubscriptExpr* AS = cast<ArraySubscriptExpr>(E);
          QualType BT = AS->getBase()->IgnoreParenImpCasts()->getType();
          if (const ConstantArrayType* CAT = Ctx.getAsConstantArrayType(BT))
            J.attribute("extent", (int64_t) CAT->getSize().getZExtValue());
        }
        else if (const UnaryExprOrTypeTraitExpr* U =
                     dyn_cast<UnaryExprOrTypeTraitExpr>(E))
        {
          J.attribute("k", U->getKind() == UETT_SizeOf ? "sizeof" : "trait");
          QualType AT = U->getTypeOfArgument();
          J.attribute("of", typeStr(AT));
          std::string rr = recordOf(AT);
          if (!rr.empty())
            J.attribute("ofrec", rr);
        }
        else if (const OffsetOfExpr* OO = dyn_cast<OffsetOfExpr>(E))
        {
          J.attribute("k", "offsetof");
          J.attribute("ofrec", recordOf(OO->getTypeSourceInfo()->getType()));
          J.attributeArray("path", [&] {
            for (unsigned i = 0; i < OO->getNumComponents(); i++)
            {
              const OffsetOfNode& N = OO->getComponent(i);
              if (N.getKind() == OffsetOfNode::Field)
                J.value(N.getField()->getName());
              else if (N.getKind() == OffsetOfNode::Identifier)
                J.value(N.getFieldName()->getName());
              else
                J.value("[]");
            }
          });
        }
        else if (isa<InitListExpr>(E))
        {
          J.attribute("k", "init");
        }
        else if (isa<CompoundLiteralExpr>(E))
        {
          J.attribute("k", "cliteral");
        }
        else if (isa<StmtExpr>(E))
        {
          J.attribute("k", "stmtexpr");
        }
        else if (isa<PredefinedExpr>(E))
        {
          J.attribute("k", "predef");
        }
        else if (isa<VAArgExpr>(E))
        {
          J.attribute("k", "vaarg");
        }
        else if (isa<ImplicitValueInitExpr>(E))
        {
          J.attribute("k", "zeroinit");
        }
        else if (isa<OpaqueValueExpr>(E))
        {
          J.attribute("k", "opaque");
        }
        else
        {
          J.attribute("k", std::string("x:") + E->getStmtClassName());
        }
        commonAttrs(S, St, parent);
        J.attribute("t", typeStr(E->getType()));
        typeShape(S, E->getType());
        std::string pr = pointeeRecord(E->getType());
        if (!pr.empty())
          J.attribute("prec", pr);
        else
        {
          std::string rr = recordOf(E->getType());
          if (!rr.empty())
            J.attribute("trec", rr);
        }
        llvm::APSInt V;
        if (!isa<InitListExpr>(E) && tryConst(E, V))
        {
          if (V.isSigned() || V.getActiveBits() < 64)
            J.attribute("v", V.getExtValue());
          else
            J.attribute("vs", llvm::toString(V, 10));
        }
        // token-level macro name of the expression itself, when the whole
        // expression is the expansion of one object-like macro use
        SourceLocation B = E->getBeginLoc();
        // a token typed as a macro ARGUMENT is spelled where the argument
        // was written: look through argument expansions first
        {
          int guard = 0;
          while (B.isMacroID() && SM.isMacroArgExpansion(B) && guard++ < 16)
            B = SM.getImmediateSpellingLoc(B);
        }
        if (B.isMacroID())
        {
          // innermost macro name spelled at this position
          J.attribute("mn", Lexer::getImmediateMacroName(B, SM, LO));
        }
      }
      else
      {
        // statements
        if (isa<CompoundStmt>(St))
          J.attribute("k", "compound");
        else if (isa<IfStmt>(St))
          J.attribute("k", "if");
        else if (isa<WhileStmt>(St))
          J.attribute("k", "while");
        else if (isa<ForStmt>(St))
        {
          J.attribute("k", "for");
          const ForStmt* F = cast<ForStmt>(St);
          J.attributeArray("parts", [&] {
            J.value(F->getInit() ? assignId(S, strip(F->getInit())) : -1);
            J.value(F->getCond() ? assignId(S, strip(F->getCond())) : -1);
            J.value(F->getInc() ? assignId(S, strip(F->getInc())) : -1);
            J.value(F->getBody() ? assignId(S, strip(F->getBody())) : -1);
          });
        }
        else if (isa<DoStmt>(St))
          J.attribute("k", "do");
        else if (isa<SwitchStmt>(St))
          J.attribute("k", "switch");
        else if (const CaseStmt* CS = dyn_cast<CaseStmt>(St))
        {
          J.attribute("k", "case");
          llvm::APSInt V;
          if (tryConst(CS->getLHS(), V))
            J.attribute("v", V.getExtValue());
          if (CS->getRHS())
          {
            llvm::APSInt V2;
            if (tryConst(CS->getRHS(), V2))
              J.attribute("v2", V2.getExtValue());
          }
          SourceLocation B = CS->getLHS()->getBeginLoc();
          {
            int guard = 0;
            while (B.isMacroID() && SM.isMacroArgExpansion(B) && guard++ < 16)
              B = SM.getImmediateSpellingLoc(B);
          }
          if (B.isMacroID())
            J.attribute("mn", Lexer::getImmediateMacroName(B, SM, LO));
        }
        else if (isa<DefaultStmt>(St))
          J.attribute("k", "default");
        else if (const GotoStmt* G = dyn_cast<GotoStmt>(St))
        {
          J.attribute("k", "goto");
          J.attribute("name", G->getLabel()->getName());
        }
        else if (const LabelStmt* L = dyn_cast<LabelStmt>(St))
        {
          J.attribute("k", "label");
          J.attribute("name", L->getName());
        }
        else if (isa<ReturnStmt>(St))
          J.attribute("k", "ret");
        else if (isa<BreakStmt>(St))
          J.attribute("k", "break");
        else if (isa<ContinueStmt>(St))
          J.attribute("k", "continue");
        else if (isa<NullStmt>(St))
          J.attribute("k", "null");
        else if (isa<IndirectGotoStmt>(St))
          J.attribute("k", "igoto");
        else if (isa<AttributedStmt>(St))
          J.attribute("k", "attributed");
        else if (isa<GCCAsmStmt>(St))
          J.attribute("k", "asm");
        else
          J.attribute("k", std::string("s:") + St->getStmtClassName());
        commonAttrs(S, St, parent);
      }
      kidsAttr(S, kids);
    });

    for (const Stmt* C : childStmts) walk(S, C, me);
    return me;
  }

  int idOf(FnState& S, const Stmt* St)
  {
    if (!St)
      return -1;
    auto it = S.id.find(St);
    if (it != S.id.end())
      return it->second;
    const Stmt* T = strip(St);
    it = S.id.find(T);
    if (it != S.id.end())
      return it->second;
    return -1;
  }

  void emitFunction(const FunctionDecl* FD)
  {
    if (!FD->doesThisDeclarationHaveABody())
      return;
    if (!inRepo(FD->getLocation()))
      return;
    FnState S;
    J.object([&] {
      J.attribute("name", FD->getName());
      PresumedLoc P = SM.getPresumedLoc(SM.getExpansionLoc(FD->getLocation()));
      S.fileOfFn = internFile(P.getFilename());
      J.attribute("file", S.fileOfFn);
      J.attribute("line", P.getLine());
      PresumedLoc PE =
          SM.getPresumedLoc(SM.getExpansionLoc(FD->getBody()->getEndLoc()));
      if (PE.isValid())
        J.attribute("end_line", PE.getLine());
      J.attribute("static", FD->getStorageClass() == SC_Static);
      J.attribute("inline", FD->isInlineSpecified());
      J.attribute("ret", typeStr(FD->getReturnType()));
      J.attribute("fntype", canonStr(FD->getType()));
      {
        int m = -1;
        SourceLocation L = FD->getLocation();
        if (L.isMacroID())
        {
          m = macroStack(S, L);
          J.attribute("m", m);
        }
      }
      J.attributeArray("params", [&] {
        for (const ParmVarDecl* PV : FD->parameters())
          J.object([&] {
            J.attribute("name", PV->getName());
            J.attribute("type", typeStr(PV->getType()));
            typeShape(S, PV->getType());
            std::string pr = pointeeRecord(PV->getType());
            if (!pr.empty())
              J.attribute("prec", pr);
          });
      });
      J.attributeArray("nodes", [&] { walk(S, FD->getBody(), -1); });

      // CFG
      CFG::BuildOptions BO;
      BO.setAllAlwaysAdd();
      BO.AddEHEdges = false;
      BO.AddImplicitDtors = false;
      BO.AddInitializers = false;
      BO.PruneTriviallyFalseEdges = true;
      std::unique_ptr<CFG> G =
          CFG::buildCFG(FD, FD->getBody(), &Ctx, BO);
      if (G)
      {
        J.attribute("entry", (int64_t) G->getEntry().getBlockID());
        J.attribute("exit", (int64_t) G->getExit().getBlockID());
        // synthetic DeclStmts → their VarDecl's node
        J.attributeArray("blocks", [&] {
          for (const CFGBlock* B : *G)
          {
            J.object([&] {
              J.attribute("id", (int64_t) B->getBlockID());
              J.attributeArray("e", [&] {
                int last = -2;
                for (const CFGElement& El : *B)
                {
                  if (auto CS = El.getAs<CFGStmt>())
                  {
                    const Stmt* St = CS->getStmt();
                    if (const DeclStmt* DS = dyn_cast<DeclStmt>(St))
                    {
                      for (const Decl* D : DS->decls())
                        if (const VarDecl* VD = dyn_cast<VarDecl>(D))
                        {
                          auto it = S.declNode.find(VD);
                          if (it != S.declNode.end())
                            J.value(it->second);
                        }
                      last = -2;
                      continue;
                    }
                    int id = idOf(S, St);
                    if (id >= 0 && id != last)
                      J.value(id);
                    last = id;
                  }
                }
              });
              if (const Stmt* L = B->getLabel())
              {
                J.attribute("label", idOf(S, L));
              }
              if (const Stmt* T = B->getTerminatorStmt())
              {
                J.attribute("term", idOf(S, T));
                if (const Stmt* C = B->getTerminatorCondition())
                  J.attribute("cond", idOf(S, C));
              }
              if (B->hasNoReturnElement())
                J.attribute("noreturn", true);
              J.attributeArray("s", [&] {
                for (auto I = B->succ_begin(); I != B->succ_end(); ++I)
                {
                  const CFGBlock* R = I->getReachableBlock();
                  if (R)
                    J.value((int64_t) R->getBlockID());
                  else
                    J.value(nullptr);
                }
              });
              // pruned edges (possibly unreachable) kept separately
              bool anyPruned = false;
              for (auto I = B->succ_begin(); I != B->succ_end(); ++I)
                if (!I->getReachableBlock() && I->getPossiblyUnreachableBlock())
                  anyPruned = true;
              if (anyPruned)
                J.attributeArray("su", [&] {
                  for (auto I = B->succ_begin(); I != B->succ_end(); ++I)
                  {
                    const CFGBlock* R = I->getPossiblyUnreachableBlock();
                    if (R)
                      J.value((int64_t) R->getBlockID());
                    else
                      J.value(nullptr);
                  }
                });
            });
          }
        });
      }
      else
      {
        J.attribute("cfg_failed", true);
      }
      J.attributeArray("mstacks", [&] {
        for (auto& st : S.mstacks)
          J.array([&] {
            for (auto& n : st) J.value(n);
          });
      });
      J.attributeArray("locals", [&] {
        for (const VarDecl* VD : S.locals)
          J.object([&] {
            J.attribute("name", VD->getName());
            J.attribute("type", typeStr(VD->getType()));
            typeShape(S, VD->getType());
            std::string pr = pointeeRecord(VD->getType());
            if (!pr.empty())
              J.attribute("prec", pr);
            if (const ConstantArrayType* CAT =
                    Ctx.getAsConstantArrayType(VD->getType()))
              J.attribute("extent", (int64_t) CAT->getSize().getZExtValue());
          });
      });
    });
    for (const VarDecl* VD : S.staticLocals)
      pendingStaticLocals.push_back({VD, FD->getName().str()});
  }

  std::vector<std::pair<const VarDecl*, std::string>> pendingStaticLocals;

  void run(TranslationUnitDecl* TU)
  {
    std::vector<const FunctionDecl*> fns;
    std::vector<const VarDecl*> globals;
    std::vector<const RecordDecl*> records;
    std::vector<const EnumDecl*> enums;

    struct V : RecursiveASTVisitor<V>
    {
      std::vector<const RecordDecl*>& recs;
      std::vector<const EnumDecl*>& ens;
      V(std::vector<const RecordDecl*>& r, std::vector<const EnumDecl*>& e)
          : recs(r), ens(e)
      {
      }
      bool VisitRecordDecl(RecordDecl* RD)
      {
        if (RD->isCompleteDefinition())
          recs.push_back(RD);
        return true;
      }
      bool VisitEnumDecl(EnumDecl* ED)
      {
        if (ED->isCompleteDefinition())
          ens.push_back(ED);
        return true;
      }
    } v(records, enums);
    v.TraverseDecl(TU);

    for (Decl* D : TU->decls())
    {
      if (FunctionDecl* FD = dyn_cast<FunctionDecl>(D))
      {
        if (FD->doesThisDeclarationHaveABody())
          fns.push_back(FD);
      }
      else if (VarDecl* VD = dyn_cast<VarDecl>(D))
      {
        globals.push_back(VD);
      }
    }

    J.attributeArray("functions", [&] {
      for (auto* FD : fns) emitFunction(FD);
    });
    J.attributeArray("globals", [&] {
      for (auto* VD : globals) emitGlobal(VD, "");
      for (auto& p : pendingStaticLocals) emitGlobal(p.first, p.second);
    });
    J.attributeArray("records", [&] {
      for (auto* RD : records) emitRecord(RD);
    });
    J.attributeObject("enums", [&] {
      std::set<std::string> seen;
      for (auto* ED : enums)
      {
        if (!inRepo(ED->getLocation()))
          continue;
        for (auto* EC : ED->enumerators())
          if (seen.insert(EC->getName().str()).second)
            J.attribute(EC->getName(), EC->getInitVal().getExtValue());
      }
    });
    J.attributeArray("macros", [&] {
      for (auto& m : g_macros)
      {
        if (m.function_like)
          continue;
        J.array([&] {
          J.value(m.name);
          J.value(m.text);
          J.value(internFile(m.file));
          J.value((int64_t) m.line);
        });
      }
    });
    J.attributeArray("fmacros", [&] {
      for (auto& m : g_macros)
      {
        if (!m.function_like)
          continue;
        J.array([&] {
          J.value(m.name);
          J.value(internFile(m.file));
          J.value((int64_t) m.line);
        });
      }
    });
    J.attributeArray("files", [&] {
      for (auto& f : files) J.value(f);
    });
  }
};

class Consumer : public ASTConsumer
{
  std::string tu;

 public:
  explicit Consumer(std::string t) : tu(t) {}
  void HandleTranslationUnit(ASTContext& Ctx) override
  {
    std::error_code EC;
    std::unique_ptr<llvm::raw_fd_ostream> fos;
    llvm::raw_ostream* os = &llvm::outs();
    if (OutFile != "-")
    {
      fos.reset(new llvm::raw_fd_ostream(OutFile, EC));
      if (EC)
      {
        llvm::errs() << "yrx: cannot open " << OutFile << "\n";
        return;
      }
      os = fos.get();
    }
    llvm::json::OStream J(*os);
    J.object([&] {
      {
        std::string t = tu, r = RepoRoot;
        if (!r.empty() && t.rfind(r, 0) == 0)
        {
          t = t.substr(r.size());
          while (!t.empty() && t[0] == '/') t = t.substr(1);
        }
        J.attribute("tu", t);
      }
      J.attribute(
          "errors",
          (int64_t) Ctx.getDiagnostics().getClient()->getNumErrors());
      Extractor X(Ctx, J, RepoRoot);
      X.run(Ctx.getTranslationUnitDecl());
    });
    *os << "\n";
  }
};

class Action : public ASTFrontendAction
{
 public:
  std::unique_ptr<ASTConsumer> CreateASTConsumer(
      CompilerInstance& CI,
      StringRef InFile) override
  {
    g_macros.clear();
    CI.getPreprocessor().addPPCallbacks(
        std::make_unique<MacroCollector>(CI.getPreprocessor()));
    return std::make_unique<Consumer>(InFile.str());
  }
};

}  // namespace

int main(int argc, const char** argv)
{
  auto Exp = CommonOptionsParser::create(argc, argv, Cat);
  if (!Exp)
  {
    llvm::errs() << Exp.takeError();
    return 2;
  }
  CommonOptionsParser& OP = Exp.get();
  ClangTool Tool(OP.getCompilations(), OP.getSourcePathList());
  int r = Tool.run(newFrontendActionFactory<Action>().get());
  return r ? 2 : 0;
}

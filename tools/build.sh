#!/bin/sh
# Build the fact extractor (offline; clang-14 libTooling from the image).
set -e
cd "$(dirname "$0")"
mkdir -p ../.build
if [ ../.build/yrx -nt yrx.cc ] && [ ../.build/yrx -nt build.sh ]; then
  exit 0
fi
clang++ $(llvm-config-14 --cxxflags) -fno-rtti -O1 -w yrx.cc -o ../.build/yrx.tmp \
  /usr/lib/llvm-14/lib/libclang-cpp.so.14 /usr/lib/llvm-14/lib/libLLVM-14.so
mv ../.build/yrx.tmp ../.build/yrx

#!/usr/bin/env python3
"""renamefuzz.py [--keep] — mechanical behaviour-preserving refactoring: rename every
local variable and parameter of every function of libyara/ and cli/ (hand-written
.c files) to <name>_rn, inside that function only.

The renamed tree is built in a scratch copy (never in /repo); names that a macro
captures implicitly (`push(r1)` expanding to code that mentions `stack`) make the
build fail and are left alone, iterating until the copy builds; then `make check`
must still report 16/16.  One patch per source file is written to
seeded/rn-<file>/ (kind=preserving): every check must stay silent on each of
them (tools/runseeded.py).  A check that fires or loses its anchor depends on the
spelling of a local variable, which no property mentions.
"""
import json, os, re, shutil, subprocess, sys
HERE = os.path.dirname(os.path.dirname(os.path.abspath(__file__)))
sys.path.insert(0, HERE)
from yrsa import extract, facts

BASE = os.environ.get('YARA_REPO', '/repo')
SCR = '/tmp/rn'
OUT = '/tmp/rn-patches'
SUFFIX = '_rn'
GENERATED = ('grammar.c', 'lexer.c', 'hex_grammar.c', 'hex_lexer.c', 're_grammar.c', 're_lexer.c')
TOKEN = re.compile(r'''
    (?P<comment>//[^\n]*|/\*.*?\*/)
  | (?P<string>"(?:\\.|[^"\\])*")
  | (?P<char>'(?:\\.|[^'\\])*')
  | (?P<ident>[A-Za-z_][A-Za-z0-9_]*)
''', re.S | re.X)


def rename_in_range(text, start, end, names):
    """rename identifiers `names` in lines start..end (1-based, inclusive)"""
    lines = text.split('\n')
    head = '\n'.join(lines[:start - 1])
    body = '\n'.join(lines[start - 1:end])
    tail = '\n'.join(lines[end:])
    out = []
    pos = 0
    # the same text with comments and literals blanked: what precedes a token in the code
    code = list(body)
    for m in TOKEN.finditer(body):
        if m.lastgroup in ('comment', 'string', 'char'):
            for i in range(m.start(), m.end()):
                if code[i] != '\n':
                    code[i] = ' '
    code = ''.join(code)
    for m in TOKEN.finditer(body):
        if m.lastgroup != 'ident' or m.group('ident') not in names:
            continue
        s = m.start()
        # preprocessor line?
        ls = body.rfind('\n', 0, s) + 1
        if body[ls:s].lstrip().startswith('#'):
            continue
        before = code[max(0, s - 200):s].rstrip()
        if before.endswith('->') or (before.endswith('.') and not before.endswith('...')):
            continue
        out.append(body[pos:s])
        out.append(m.group('ident') + SUFFIX)
        pos = m.end()
    out.append(body[pos:])
    parts = [head] if start > 1 else []
    parts.append(''.join(out))
    if end < len(lines):
        parts.append(tail)
    return '\n'.join(parts)


def main():
    fdir, info = extract.prepare()
    prog = facts.Program(fdir)
    per_file = {}
    for f in prog.fns():
        if not (f.file.startswith('libyara/') or f.file.startswith('cli/')) or not f.file.endswith('.c'):
            continue
        if os.path.basename(f.file) in GENERATED or f.end_line is None:
            continue
        names = set(l['name'] for l in f.locals) | set(p['name'] for p in f.params if p.get('name'))
        names = set(n for n in names if n and not n.startswith('__') and not n.startswith('yy') and n != f.name)
        if names:
            per_file.setdefault(f.file, {})[f.name] = [f.line, f.end_line, names]
    if os.path.exists(SCR):
        shutil.rmtree(SCR)
    os.makedirs(SCR)
    subprocess.run(['rsync', '-a', '--exclude', '.git', BASE + '/', SCR + '/src/'], check=True)
    src = SCR + '/src'
    excluded = {}       # (file, fn) -> set(names)
    for rnd in range(40):
        for path, fns in per_file.items():
            text = open(os.path.join(BASE, path)).read()
            # bottom-up so that line numbers stay valid
            for fn, (a, b, names) in sorted(fns.items(), key=lambda kv: -kv[1][0]):
                ns = names - excluded.get((path, fn), set())
                if ns:
                    text = rename_in_range(text, a, b, ns)
            open(os.path.join(src, path), 'w').write(text)
        r = subprocess.run('make -j16 -k 2>&1 | grep -E "error:|in expansion of macro|in definition of macro" '
                           '| head -3000', shell=True, cwd=src, stdout=subprocess.PIPE, text=True)
        out_lines = r.stdout.splitlines()
        errs = [l for l in out_lines if 'error:' in l]
        if not errs:
            print('round %d: builds' % rnd)
            break
        new = 0
        # an error inside a macro body is located at the macro definition; the notes that
        # follow give the place of the expansion, which is what lies inside a function
        groups = []
        for l in out_lines:
            if 'error:' in l:
                groups.append([l])
            elif groups:
                groups[-1].append(l)
        for grp in groups:
            m = re.match(r'(?:\./)?([^:]+):(\d+):\d+: error: (.*)', grp[0])
            if not m:
                continue
            msg = m.group(3)
            ids = re.findall(r"[‘'`]([A-Za-z_][A-Za-z0-9_]*)[’']", msg)
            locs = []
            for l in grp:
                mm = re.match(r'(?:\./)?([^:]+):(\d+):\d+: ', l)
                if mm:
                    locs.append((os.path.normpath(mm.group(1)), int(mm.group(2))))
            for path, line in locs:
                cands = [p for p in per_file if p.endswith(path) or path.endswith(p)]
                for p in cands:
                    for fn, (a, b, names) in per_file[p].items():
                        if a <= line <= b:
                            for i in ids:
                                base = i[:-len(SUFFIX)] if i.endswith(SUFFIX) else i
                                hits = [base] if base in names else \
                                    [x for x in names if (x + SUFFIX) in i]      # token pasting
                                for base in hits:
                                    if base not in excluded.get((p, fn), set()):
                                        excluded.setdefault((p, fn), set()).add(base)
                                        new += 1
        print('round %d: %d error lines, %d names excluded' % (rnd, len(errs), new))
        if new == 0:
            print('\n'.join(errs[:20]))
            sys.exit('build errors that no exclusion explains')
    else:
        sys.exit('does not converge')
    r = subprocess.run('make -j16 check 2>&1 | grep -E "^# (PASS|FAIL|TOTAL)"', shell=True, cwd=src,
                       stdout=subprocess.PIPE, text=True)
    res = ' '.join(r.stdout.split())
    print('make check:', res)
    ok = '# PASS: 16' in res.replace('PASS:  ', 'PASS: ') and '# FAIL: 0' in res.replace('FAIL:  ', 'FAIL: ')
    if not ok:
        sys.exit('the renamed tree does not pass the test suite')
    n = 0
    total = 0
    allp = ''
    os.makedirs(OUT, exist_ok=True)
    for path, fns in sorted(per_file.items()):
        d = subprocess.run(['diff', '-u', '--label', 'a/' + path, '--label', 'b/' + path,
                            os.path.join(BASE, path), os.path.join(src, path)],
                           stdout=subprocess.PIPE, text=True).stdout
        if not d:
            continue
        open(os.path.join(OUT, path.replace('/', '_') + '.diff'), 'w').write(d)
        allp += d
        total += sum(len(v[2] - excluded.get((path, k), set())) for k, v in fns.items())
        n += 1
    open(os.path.join(OUT, 'all.diff'), 'w').write(allp)
    json.dump({'functions': {p_: {fn: [v[0], v[1], sorted(v[2] - excluded.get((p_, fn), set()))]
                                  for fn, v in fns.items()} for p_, fns in per_file.items()}},
              open(os.path.join(OUT, 'map.json'), 'w'))
    print('%d files, %d identifiers renamed; patches in %s (all.diff = everything)' % (n, total, OUT))
    if '--keep' not in sys.argv:
        shutil.rmtree(SCR)
    return n, total


def run_checks(props):
    """the checks against a scratch copy of the tree with the combined rename applied"""
    tree = '/tmp/rn-tree'
    if os.path.exists(tree):
        shutil.rmtree(tree)
    subprocess.run(['rsync', '-a', '--exclude', '.git', BASE + '/', tree + '/'], check=True)
    subprocess.run(['patch', '-s', '-p1', '-i', os.path.join(OUT, 'all.diff')], cwd=tree, check=True)
    res = {}
    env = dict(os.environ, YRSA_NO_EVIDENCE='1', YARA_REPO=tree, YRSA_CACHE='/tmp/rn-cache')
    for p in props:
        c = subprocess.run([os.path.join(HERE, 'check'), p, '--tier', 'quick'], env=env,
                           stdout=subprocess.PIPE, stderr=subprocess.STDOUT, text=True)
        lines = [l for l in c.stdout.splitlines() if re.search(r': R[0-9]+\.[0-9a-z]+:', l) and l.endswith(']')]
        last = c.stdout.strip().splitlines()[-1] if c.stdout.strip() else ''
        res[p] = {'exit': c.returncode, 'result': {0: 'silent', 1: 'false-alarm'}.get(c.returncode, 'analysis-broken'),
                  'last': last[:300], 'reports': [l[:300] for l in lines[:8]]}
        print('RENAME %s %s' % (p, res[p]['result']))
        for l in res[p]['reports'][:6]:
            print('    ' + l[:260])
        if c.returncode == 2:
            print('    ' + last[:260])
    if '--keep' not in sys.argv:
        shutil.rmtree(tree)
    return res


def _shift(ranges, diff_text):
    """function line ranges of the original file -> ranges in the patched file"""
    hunks = [(int(a), int(b or 1), int(c), int(d or 1)) for a, b, c, d in
             re.findall(r'^@@ -(\d+)(?:,(\d+))? \+(\d+)(?:,(\d+))? @@', diff_text, re.M)]
    out = {}
    for fn, (a, b, names) in ranges.items():
        da = db = 0
        for os_, ol, ns_, nl in hunks:
            delta = nl - ol
            if os_ + ol - 1 < a:
                da += delta
                db += delta
            elif os_ <= b:
                db += delta
        out[fn] = [a + da, b + db, names]
    return out


def run_mutants(ids):
    """each mutant of the corpus on top of the renamed tree: the mutated file is renamed
    with the same per-function map (line ranges shifted by the mutant's hunks), every
    other file comes from the renamed tree.  A breaking mutant must still be reported,
    a preserving one must stay silent."""
    fmap = json.load(open(os.path.join(OUT, 'map.json')))['functions']
    tree = '/tmp/rn-tree'
    if not os.path.exists(tree):
        subprocess.run(['rsync', '-a', '--exclude', '.git', BASE + '/', tree + '/'], check=True)
        subprocess.run(['patch', '-s', '-p1', '-i', os.path.join(OUT, 'all.diff')], cwd=tree, check=True)
    mdir = os.path.join(HERE, 'mutants')
    ids = ids or sorted(x[:-5] for x in os.listdir(mdir) if x.endswith('.json') and x not in ('RESULTS.json', 'BUILD.json', 'RENAMED.json'))
    results = {}
    bad = 0
    for mid in ids:
        meta = json.load(open(os.path.join(mdir, mid + '.json')))
        if meta.get('on_top_of'):
            # a composed mutant rewrites whole functions: the per-function rename map of
            # the unchanged tree does not fit the refactored file
            results[mid] = 'SKIPPED (composed with a refactoring)'
            continue
        patch = open(os.path.join(mdir, mid + '.patch')).read()
        files = re.findall(r'^\+\+\+ b/(\S+)', patch, re.M)
        mt = '/tmp/rn-mut'
        if os.path.exists(mt):
            shutil.rmtree(mt)
        subprocess.run(['cp', '-al', tree, mt], check=True)
        ok_apply = True
        tmp = '/tmp/rn-mut-src'
        if os.path.exists(tmp):
            shutil.rmtree(tmp)
        os.makedirs(tmp)
        for fp in files:
            os.makedirs(os.path.dirname(os.path.join(tmp, fp)), exist_ok=True)
            shutil.copy(os.path.join(BASE, fp), os.path.join(tmp, fp))
        r = subprocess.run(['patch', '-s', '-p1'], input=patch, text=True, cwd=tmp,
                           stdout=subprocess.PIPE, stderr=subprocess.STDOUT)
        if r.returncode != 0:
            results[mid] = 'PATCH-FAILED'
            print('RENAMED-MUTANT %-34s %s' % (mid, results[mid]))
            continue
        for fp in files:
            text = open(os.path.join(tmp, fp)).read()
            if fp in fmap:
                d = subprocess.run(['diff', '-u', os.path.join(BASE, fp), os.path.join(tmp, fp)],
                                   stdout=subprocess.PIPE, text=True).stdout
                ranges = _shift({k: (v[0], v[1], set(v[2])) for k, v in fmap[fp].items()}, d)
                for fn, (a, b, names) in sorted(ranges.items(), key=lambda kv: -kv[1][0]):
                    if names:
                        text = rename_in_range(text, a, b, names)
            dst = os.path.join(mt, fp)
            if os.path.exists(dst):
                os.unlink(dst)
            open(dst, 'w').write(text)
        env = dict(os.environ, YRSA_NO_EVIDENCE='1', YARA_REPO=mt, YRSA_CACHE='/tmp/rn-mut-cache')
        c = subprocess.run([os.path.join(HERE, 'check'), meta['property'], '--tier', 'quick'], env=env,
                           stdout=subprocess.PIPE, stderr=subprocess.STDOUT, text=True)
        want = 0 if meta.get('kind') == 'preserving' else 1
        verdict = ('KILLED' if c.returncode == 1 else 'SILENT-OK' if c.returncode == 0 else 'BROKEN(exit %d)' % c.returncode)
        okm = c.returncode == want and (want == 0 or meta.get('expect_rule', '') + ':' in c.stdout or
                                        meta.get('expect_rule', '') in c.stdout)
        results[mid] = verdict if okm else 'UNEXPECTED:' + verdict
        if not okm:
            bad += 1
        print('RENAMED-MUTANT %-34s %-4s %-7s %s' % (mid, meta['property'], meta.get('expect_rule', ''), results[mid]))
        if not okm:
            print('    ' + '\n    '.join(c.stdout.strip().splitlines()[-4:])[:900])
    shutil.rmtree('/tmp/rn-mut', ignore_errors=True)
    shutil.rmtree('/tmp/rn-mut-src', ignore_errors=True)
    shutil.rmtree('/tmp/rn-mut-cache', ignore_errors=True)
    print('%d mutants on the renamed tree, %d not as expected' % (len(ids), bad))
    return results


if __name__ == '__main__':
    if '--mutants' in sys.argv:
        args = [a for a in sys.argv[1:] if not a.startswith('--')]
        if not os.path.exists(os.path.join(OUT, 'map.json')):
            main()
        res = run_mutants(args)
        if not args:
            json.dump(res, open(os.path.join(HERE, 'mutants', 'RENAMED.json'), 'w'), indent=1, sort_keys=True)
    elif '--run' in sys.argv:
        args = [a for a in sys.argv[1:] if not a.startswith('--')]
        if not os.path.exists(os.path.join(OUT, 'all.diff')):
            main()
        m = json.load(open(os.path.join(HERE, 'MANIFEST.json')))
        props = args or sorted(c['property_id'] for c in m['checks'])
        res = run_checks(props)
        if not args:
            json.dump(res, open(os.path.join(HERE, 'seeded', 'RENAME.json'), 'w'), indent=1, sort_keys=True)
    else:
        main()

#!/usr/bin/env python3
"""renamefuzz.py [--keep] — mechanical behaviour-preserving refactoring: rename every
local variable and parameter of every function of libyara/ and cli/ (hand-written
.c files) to <name>_rn, inside that function only.

The renamed tree is built in a scratch copy (never in /repo); names that a macro
captures implicitly (`push(r1)` expanding to code that mentions `stack`) make the
build fail and are left alone, iterating until the copy builds; then `make check`
must still report 16/16.  One patch per source file is written to
seeded/rn-<file>/ (kind=preserving): every check must stay silent on each of
them (tools/runseeded.py).  A check that fires or loses its anchor depends on the
spelling of a local variable, which no property mentions.
"""
import json, os, re, shutil, subprocess, sys
HERE = os.path.dirname(os.path.dirname(os.path.abspath(__file__)))
sys.path.insert(0, HERE)
from yrsa import extract, facts

SCR = '/tmp/rn'
OUT = '/tmp/rn-patches'
SUFFIX = '_rn'
GENERATED = ('grammar.c', 'lexer.c', 'hex_grammar.c', 'hex_lexer.c', 're_grammar.c', 're_lexer.c')
TOKEN = re.compile(r'''
    (?P<comment>//[^\n]*|/\*.*?\*/)
  | (?P<string>"(?:\\.|[^"\\])*")
  | (?P<char>'(?:\\.|[^'\\])*')
  | (?P<ident>[A-Za-z_][A-Za-z0-9_]*)
''', re.S | re.X)


def rename_in_range(text, start, end, names):
    """rename identifiers `names` in lines start..end (1-based, inclusive)"""
    lines = text.split('\n')
    head = '\n'.join(lines[:start - 1])
    body = '\n'.join(lines[start - 1:end])
    tail = '\n'.join(lines[end:])
    out = []
    pos = 0
    # the same text with comments and literals blanked: what precedes a token in the code
    code = list(body)
    for m in TOKEN.finditer(body):
        if m.lastgroup in ('comment', 'string', 'char'):
            for i in range(m.start(), m.end()):
                if code[i] != '\n':
                    code[i] = ' '
    code = ''.join(code)
    for m in TOKEN.finditer(body):
        if m.lastgroup != 'ident' or m.group('ident') not in names:
            continue
        s = m.start()
        # preprocessor line?
        ls = body.rfind('\n', 0, s) + 1
        if body[ls:s].lstrip().startswith('#'):
            continue
        before = code[max(0, s - 200):s].rstrip()
        if before.endswith('->') or (before.endswith('.') and not before.endswith('...')):
            continue
        out.append(body[pos:s])
        out.append(m.group('ident') + SUFFIX)
        pos = m.end()
    out.append(body[pos:])
    parts = [head] if start > 1 else []
    parts.append(''.join(out))
    if end < len(lines):
        parts.append(tail)
    return '\n'.join(parts)


def main():
    fdir, info = extract.prepare()
    prog = facts.Program(fdir)
    per_file = {}
    for f in prog.fns():
        if not (f.file.startswith('libyara/') or f.file.startswith('cli/')) or not f.file.endswith('.c'):
            continue
        if os.path.basename(f.file) in GENERATED or f.end_line is None:
            continue
        names = set(l['name'] for l in f.locals) | set(p['name'] for p in f.params if p.get('name'))
        names = set(n for n in names if n and not n.startswith('__') and not n.startswith('yy') and n != f.name)
        if names:
            per_file.setdefault(f.file, {})[f.name] = [f.line, f.end_line, names]
    if os.path.exists(SCR):
        shutil.rmtree(SCR)
    os.makedirs(SCR)
    subprocess.run(['rsync', '-a', '--exclude', '.git', '/repo/', SCR + '/src/'], check=True)
    src = SCR + '/src'
    excluded = {}       # (file, fn) -> set(names)
    for rnd in range(40):
        for path, fns in per_file.items():
            text = open(os.path.join('/repo', path)).read()
            # bottom-up so that line numbers stay valid
            for fn, (a, b, names) in sorted(fns.items(), key=lambda kv: -kv[1][0]):
                ns = names - excluded.get((path, fn), set())
                if ns:
                    text = rename_in_range(text, a, b, ns)
            open(os.path.join(src, path), 'w').write(text)
        r = subprocess.run('make -j16 -k 2>&1 | grep -E "error:|in expansion of macro|in definition of macro" '
                           '| head -3000', shell=True, cwd=src, stdout=subprocess.PIPE, text=True)
        out_lines = r.stdout.splitlines()
        errs = [l for l in out_lines if 'error:' in l]
        if not errs:
            print('round %d: builds' % rnd)
            break
        new = 0
        # an error inside a macro body is located at the macro definition; the notes that
        # follow give the place of the expansion, which is what lies inside a function
        groups = []
        for l in out_lines:
            if 'error:' in l:
                groups.append([l])
            elif groups:
                groups[-1].append(l)
        for grp in groups:
            m = re.match(r'(?:\./)?([^:]+):(\d+):\d+: error: (.*)', grp[0])
            if not m:
                continue
            msg = m.group(3)
            ids = re.findall(r"[‘'`]([A-Za-z_][A-Za-z0-9_]*)[’']", msg)
            locs = []
            for l in grp:
                mm = re.match(r'(?:\./)?([^:]+):(\d+):\d+: ', l)
                if mm:
                    locs.append((os.path.normpath(mm.group(1)), int(mm.group(2))))
            for path, line in locs:
                cands = [p for p in per_file if p.endswith(path) or path.endswith(p)]
                for p in cands:
                    for fn, (a, b, names) in per_file[p].items():
                        if a <= line <= b:
                            for i in ids:
                                base = i[:-len(SUFFIX)] if i.endswith(SUFFIX) else i
                                hits = [base] if base in names else \
                                    [x for x in names if (x + SUFFIX) in i]      # token pasting
                                for base in hits:
                                    if base not in excluded.get((p, fn), set()):
                                        excluded.setdefault((p, fn), set()).add(base)
                                        new += 1
        print('round %d: %d error lines, %d names excluded' % (rnd, len(errs), new))
        if new == 0:
            print('\n'.join(errs[:20]))
            sys.exit('build errors that no exclusion explains')
    else:
        sys.exit('does not converge')
    r = subprocess.run('make -j16 check 2>&1 | grep -E "^# (PASS|FAIL|TOTAL)"', shell=True, cwd=src,
                       stdout=subprocess.PIPE, text=True)
    res = ' '.join(r.stdout.split())
    print('make check:', res)
    ok = '# PASS: 16' in res.replace('PASS:  ', 'PASS: ') and '# FAIL: 0' in res.replace('FAIL:  ', 'FAIL: ')
    if not ok:
        sys.exit('the renamed tree does not pass the test suite')
    n = 0
    total = 0
    allp = ''
    os.makedirs(OUT, exist_ok=True)
    for path, fns in sorted(per_file.items()):
        d = subprocess.run(['diff', '-u', '--label', 'a/' + path, '--label', 'b/' + path,
                            os.path.join('/repo', path), os.path.join(src, path)],
                           stdout=subprocess.PIPE, text=True).stdout
        if not d:
            continue
        open(os.path.join(OUT, path.replace('/', '_') + '.diff'), 'w').write(d)
        allp += d
        total += sum(len(v[2] - excluded.get((path, k), set())) for k, v in fns.items())
        n += 1
    open(os.path.join(OUT, 'all.diff'), 'w').write(allp)
    print('%d files, %d identifiers renamed; patches in %s (all.diff = everything)' % (n, total, OUT))
    if '--keep' not in sys.argv:
        shutil.rmtree(SCR)
    return n, total


def run_checks(props):
    """apply the combined rename to /repo, run the checks, undo"""
    st = subprocess.run(['git', '-C', '/repo', 'status', '--porcelain', '--untracked-files=no'],
                        stdout=subprocess.PIPE, text=True).stdout.strip()
    if st:
        sys.exit('/repo has local modifications')
    subprocess.run(['git', '-C', '/repo', 'apply', '--whitespace=nowarn', os.path.join(OUT, 'all.diff')], check=True)
    res = {}
    try:
        env = dict(os.environ, YRSA_NO_EVIDENCE='1')
        for p in props:
            c = subprocess.run([os.path.join(HERE, 'check'), p, '--tier', 'quick'], env=env,
                               stdout=subprocess.PIPE, stderr=subprocess.STDOUT, text=True)
            lines = [l for l in c.stdout.splitlines() if re.search(r': R[0-9]+\.[0-9a-z]+:', l) and l.endswith(']')]
            last = c.stdout.strip().splitlines()[-1] if c.stdout.strip() else ''
            res[p] = {'exit': c.returncode, 'result': {0: 'silent', 1: 'false-alarm'}.get(c.returncode, 'analysis-broken'),
                      'last': last[:300], 'reports': [l[:300] for l in lines[:8]]}
            print('RENAME %s %s' % (p, res[p]['result']))
            for l in res[p]['reports'][:4]:
                print('    ' + l[:240])
            if c.returncode == 2:
                print('    ' + last[:240])
    finally:
        subprocess.run(['git', '-C', '/repo', 'checkout', '--', '.'], check=True)
    return res


if __name__ == '__main__':
    if '--run' in sys.argv:
        args = [a for a in sys.argv[1:] if not a.startswith('--')]
        if not os.path.exists(os.path.join(OUT, 'all.diff')):
            main()
        m = json.load(open(os.path.join(HERE, 'MANIFEST.json')))
        props = args or sorted(c['property_id'] for c in m['checks'])
        res = run_checks(props)
        if not args:
            json.dump(res, open(os.path.join(HERE, 'seeded', 'RENAME.json'), 'w'), indent=1, sort_keys=True)
    else:
        main()

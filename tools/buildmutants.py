#!/usr/bin/env python3
"""buildmutants.py [ids...] — confirm that every mutant still compiles and
passes the repository's own test suite (the precondition for calling it
"a change the tests cannot see").  Uses N scratch copies of /repo outside
/repo and /verif, built once, then per mutant: apply, make, make check, revert.
Results -> mutants/BUILD.json"""
import glob, json, os, shutil, subprocess, sys, tempfile
from concurrent.futures import ThreadPoolExecutor
HERE = os.path.dirname(os.path.dirname(os.path.abspath(__file__)))
N = int(os.environ.get('MUT_JOBS', '3'))

def sh(cmd, cwd, timeout=3600):
    return subprocess.run(cmd, cwd=cwd, shell=True, stdout=subprocess.PIPE, stderr=subprocess.STDOUT, text=True, timeout=timeout)

def worker(args):
    idx, metas = args
    tmp = tempfile.mkdtemp(prefix='yrsa-build-')
    out = {}
    try:
        wt = os.path.join(tmp, 'wt')
        subprocess.run(['git', '-C', '/repo', 'worktree', 'add', '--detach', wt, 'HEAD'], stdout=subprocess.PIPE, stderr=subprocess.PIPE, check=True)
        r = sh('./bootstrap.sh >/dev/null 2>&1 && ./configure CFLAGS=-Wno-error >/dev/null 2>&1 && make -j5 >/dev/null 2>&1; echo rc=$?', wt)
        for m in metas:
            patch = os.path.join(HERE, 'mutants', m['id'] + '.patch')
            a = sh('patch -p1 -s -i %s' % patch, wt)
            if a.returncode != 0:
                out[m['id']] = 'PATCH-FAILED'
                sh('git checkout -- . ', wt)
                continue
            b = sh('make -j5 2>&1 | grep -E "error:|Error " | head -3', wt)
            if b.stdout.strip():
                out[m['id']] = 'BUILD-FAILED ' + b.stdout.strip()[:160]
            else:
                c = sh('make -j5 check 2>&1 | grep -E "^# (PASS|FAIL):"', wt)
                t = ' '.join(c.stdout.split())
                out[m['id']] = 'TESTS-PASS' if '# PASS: 16' in t and '# FAIL: 0' in t else 'TESTS-FAIL ' + t
            sh('git checkout -- . && make -j5 >/dev/null 2>&1', wt)
            print(m['id'], out[m['id']], flush=True)
    finally:
        subprocess.run(['git', '-C', '/repo', 'worktree', 'remove', '--force', os.path.join(tmp, 'wt')], stdout=subprocess.PIPE, stderr=subprocess.PIPE)
        shutil.rmtree(tmp, ignore_errors=True)
    return out

def main():
    sel = sys.argv[1:]
    metas = [json.load(open(f)) for f in sorted(glob.glob(os.path.join(HERE, 'mutants', '*.json')))
             if not f.endswith('RESULTS.json') and not f.endswith('BUILD.json') and not f.endswith('RENAMED.json')]
    if sel:
        metas = [m for m in metas if m['id'] in sel or m['property'] in sel]
    chunks = [(i, metas[i::N]) for i in range(N)]
    res = {}
    p = os.path.join(HERE, 'mutants', 'BUILD.json')
    if os.path.exists(p):
        res = json.load(open(p))
    with ThreadPoolExecutor(max_workers=N) as ex:
        for o in ex.map(worker, chunks):
            res.update(o)
    json.dump(res, open(p, 'w'), indent=1, sort_keys=True)
    bad = {k: v for k, v in res.items() if v != 'TESTS-PASS'}
    print('%d mutants built, %d not TESTS-PASS: %s' % (len(res), len(bad), bad))

if __name__ == '__main__':
    main()

#!/bin/sh
# withpatch.sh <seeded-id> <Cxx>... — run checks against /repo with a seeded
# patch applied (evidence writing disabled), then undo the patch.
sid=$1; shift
[ -z "$(git -C /repo status --porcelain --untracked-files=no)" ] || { echo "/repo dirty"; exit 3; }
git -C /repo apply --whitespace=nowarn /verif/seeded/$sid/patch.diff || exit 3
for c in "$@"; do
  YRSA_NO_EVIDENCE=1 /verif/check $c --tier quick > /tmp/withpatch.$$ 2>&1; rc=$?
  grep -v "fixture fired" /tmp/withpatch.$$ | tail -${TAILN:-10}
  echo "== $sid $c exit=$rc"
done
rm -f /tmp/withpatch.$$
git -C /repo checkout -- .

#!/usr/bin/env python3
"""runseeded.py [ids...] — run every claimed check against each seeded change.

A seeded change lives in seeded/<id>/ (patch.diff, demo/, meta.json): a
realistic breaking edit produced by an independent sub-agent that saw only the
text of one property.  For each one the patch is applied to /repo
(`git -C /repo apply`), all claimed checks are run on that tree (quick tier,
evidence writing disabled so that evidence always describes the unchanged
tree), and the patch is undone straight afterwards (`git -C /repo checkout --
.`).  With `--jobs N` every seed is instead applied to its own scratch copy of
/repo's tree under /tmp (removed afterwards) and N seeds run at once; /repo is not
touched.  The outcome is written to seeded/<id>/result.json and summarised in
seeded/RESULTS.json.  Nothing is ever committed to /repo."""
import json, os, re, subprocess, sys
HERE = os.path.dirname(os.path.dirname(os.path.abspath(__file__)))
REPO = '/repo'


def claimed():
    m = json.load(open(os.path.join(HERE, 'MANIFEST.json')))
    return sorted(c['property_id'] for c in m['checks'])


def clean():
    r = subprocess.run(['git', '-C', REPO, 'status', '--porcelain', '--untracked-files=no'],
                       stdout=subprocess.PIPE, text=True)
    return r.stdout.strip() == ''


def run_one_scratch(sid, props):
    """the same, against a private scratch copy of /repo's tree (parallel runs)"""
    import shutil
    d = os.path.join(HERE, 'seeded', sid)
    patch = os.path.join(d, 'patch.diff')
    tree = '/tmp/seedrun-%s' % sid
    cache = '/tmp/seedrun-cache-%s' % sid
    shutil.rmtree(tree, ignore_errors=True)
    subprocess.run(['rsync', '-a', '--exclude', '.git', SCRATCH_BASE + '/', tree + '/'], check=True)
    r = subprocess.run(['patch', '-s', '-p1', '-i', patch], cwd=tree, stdout=subprocess.PIPE,
                       stderr=subprocess.STDOUT, text=True)
    if r.returncode != 0:
        shutil.rmtree(tree, ignore_errors=True)
        return {'id': sid, 'applied': False, 'detail': r.stdout[-400:]}
    out = {'id': sid, 'applied': True, 'checks': {}, 'caught_by': []}
    env = dict(os.environ, YRSA_NO_EVIDENCE='1', YARA_REPO=tree, YRSA_CACHE=cache)
    for p in props:
        c = subprocess.run([os.path.join(CHECKER, 'check'), p, '--tier', 'quick'], env=env,
                           stdout=subprocess.PIPE, stderr=subprocess.STDOUT, text=True)
        lines = [l for l in c.stdout.splitlines()
                 if l.endswith(']') and ': R' in l and 'VIOLATION' not in l and not l.startswith('[')]
        m = re.search(r'obligations=(\d+) discharged=(\d+)', c.stdout)
        out['checks'][p] = {'exit': c.returncode, 'reports': lines[:6],
                            'obligations': int(m.group(1)) if m else None}
        if c.returncode == 1:
            out['caught_by'].append(p)
        elif c.returncode != 0:
            out.setdefault('broken', []).append(p)
            out['checks'][p]['tail'] = c.stdout[-300:]
    shutil.rmtree(tree, ignore_errors=True)
    shutil.rmtree(cache, ignore_errors=True)
    json.dump(out, open(os.path.join(d, 'result.json'), 'w'), indent=1)
    return out


SCRATCH_BASE = '/tmp/seedrun-base'
CHECKER = HERE        # --jobs mode runs a snapshot of the checker, so that /verif can be edited meanwhile


def run_one(sid, props):
    d = os.path.join(HERE, 'seeded', sid)
    patch = os.path.join(d, 'patch.diff')
    if not clean():
        sys.exit('/repo has local modifications; refusing to apply a seeded change')
    r = subprocess.run(['git', '-C', REPO, 'apply', '--whitespace=nowarn', patch],
                       stdout=subprocess.PIPE, stderr=subprocess.STDOUT, text=True)
    if r.returncode != 0:
        return {'id': sid, 'applied': False, 'detail': r.stdout[-400:]}
    out = {'id': sid, 'applied': True, 'checks': {}, 'caught_by': []}
    try:
        env = dict(os.environ, YRSA_NO_EVIDENCE='1')
        for p in props:
            c = subprocess.run([os.path.join(HERE, 'check'), p, '--tier', 'quick'], env=env,
                               stdout=subprocess.PIPE, stderr=subprocess.STDOUT, text=True)
            lines = [l for l in c.stdout.splitlines()
                     if l.endswith(']') and ': R' in l and 'VIOLATION' not in l and not l.startswith('[')]
            m = re.search(r'obligations=(\d+) discharged=(\d+)', c.stdout)
            out['checks'][p] = {'exit': c.returncode, 'reports': lines[:6],
                                'obligations': int(m.group(1)) if m else None}
            if c.returncode == 1:
                out['caught_by'].append(p)
            elif c.returncode != 0:
                out.setdefault('broken', []).append(p)
                out['checks'][p]['tail'] = c.stdout[-300:]
    finally:
        subprocess.run(['git', '-C', REPO, 'checkout', '--', '.'], check=True)
    assert clean()
    json.dump(out, open(os.path.join(d, 'result.json'), 'w'), indent=1)
    return out


def baseline(props):
    """obligation counts on the unchanged tree"""
    env = dict(os.environ, YRSA_NO_EVIDENCE='1')
    out = {}
    for p in props:
        c = subprocess.run([os.path.join(HERE, 'check'), p, '--tier', 'quick'], env=env,
                           stdout=subprocess.PIPE, stderr=subprocess.STDOUT, text=True)
        m = re.search(r'obligations=(\d+) discharged=(\d+)', c.stdout)
        out[p] = int(m.group(1)) if m else None
    return out


def main():
    ids = sys.argv[1:] or sorted(x for x in os.listdir(os.path.join(HERE, 'seeded'))
                                 if os.path.exists(os.path.join(HERE, 'seeded', x, 'patch.diff')))
    jobs = 0
    if '--jobs' in sys.argv:
        k = sys.argv.index('--jobs')
        jobs = int(sys.argv[k + 1])
        del sys.argv[k:k + 2]
        ids = [x for x in ids if x not in (str(jobs),)]
        ids = sys.argv[1:] or sorted(x for x in os.listdir(os.path.join(HERE, 'seeded'))
                                     if os.path.exists(os.path.join(HERE, 'seeded', x, 'patch.diff')))
    props = claimed()
    base = baseline(props)
    summary = {}
    results = {}
    if jobs:
        # parallel mode: every seed in its own scratch copy of /repo's committed tree
        import shutil
        from concurrent.futures import ThreadPoolExecutor
        if not clean():
            sys.exit('/repo has local modifications')
        shutil.rmtree(SCRATCH_BASE, ignore_errors=True)
        subprocess.run(['rsync', '-a', '--exclude', '.git', REPO + '/', SCRATCH_BASE + '/'], check=True)
        global CHECKER
        CHECKER = '/tmp/seedrun-verif-%d' % os.getpid()
        subprocess.run(['rsync', '-a', '--exclude', '.git', '--exclude', '.cache', '--exclude', 'seeded',
                        '--exclude', 'mutants', '--exclude', 'evidence', '--exclude', '__pycache__',
                        HERE + '/', CHECKER + '/'], check=True)
        with ThreadPoolExecutor(max_workers=jobs) as ex:
            for sid, o in zip(ids, ex.map(lambda s_: run_one_scratch(s_, props), ids)):
                results[sid] = o
        shutil.rmtree(SCRATCH_BASE, ignore_errors=True)
        shutil.rmtree(CHECKER, ignore_errors=True)
    p = os.path.join(HERE, 'seeded', 'RESULTS.json')
    if os.path.exists(p):
        summary = json.load(open(p))
    for sid in ids:
        o = results[sid] if sid in results else run_one(sid, props)
        meta = {}
        mp = os.path.join(HERE, 'seeded', sid, 'meta.json')
        if os.path.exists(mp):
            meta = json.load(open(mp))
        own = meta.get('property', sid.split('-')[0])
        summary[sid] = {'property': own, 'caught_by': o.get('caught_by', []),
                        'caught_by_own_check': own in o.get('caught_by', []),
                        'reports': {k: v['reports'][:2] for k, v in o.get('checks', {}).items() if v['exit'] == 1},
                        'broken': o.get('broken', []), 'applied': o['applied']}
        summary[sid]['kind'] = meta.get('kind', 'breaking')
        if meta.get('kind') == 'preserving':
            print('REFACTOR %-9s property=%s %s%s' % (
                sid, own, 'FALSE-ALARM by ' + ','.join(o['caught_by']) if o.get('caught_by') else 'silent',
                ' ANALYSIS-BROKEN=%s' % o['broken'] if o.get('broken') else ''))
            for k, v in o.get('checks', {}).items():
                if v['exit'] != 0:
                    for l in (v['reports'][:3] or [v.get('tail', '')[-200:]]):
                        print('    %s: %s' % (k, l[:260]))
            lost = ['%s %s->%s' % (k, base.get(k), v.get('obligations')) for k, v in o.get('checks', {}).items()
                    if v.get('obligations') is not None and base.get(k) is not None and
                    v['obligations'] < base[k]]
            if lost:
                print('    fewer obligations than on the unchanged tree: ' + ', '.join(lost))
            summary[sid]['fewer_obligations'] = lost
            continue
        print('SEEDED %-10s property=%s caught_by=%s%s' % (
            sid, own, ','.join(o.get('caught_by', [])) or '-',
            ' BROKEN=%s' % o['broken'] if o.get('broken') else ''))
        for k, v in o.get('checks', {}).items():
            if v['exit'] == 1:
                for l in v['reports'][:2]:
                    print('    %s: %s' % (k, l[:220]))
    json.dump(summary, open(p, 'w'), indent=1, sort_keys=True)


if __name__ == '__main__':
    main()

#!/bin/sh
# checkall.sh [quick|thorough] — run every claimed check on /repo and fail loudly if any
# does not exit 0.  Run before every commit of /verif (a rule module shared between
# properties can break a check that was not touched).
tier=${1:-quick}
bad=0
for i in 01 02 03 04 05 06 07 08 09 10 11 12 13 14 15 16 17 18 19 20; do
  /verif/check C$i --tier $tier > /tmp/checkall.$$ 2>&1; rc=$?
  tail -1 /tmp/checkall.$$
  if [ $rc -ne 0 ]; then bad=1; echo "!! C$i exit=$rc"; grep -E "VIOLATION|BROKEN" /tmp/checkall.$$ | head -5; fi
done
rm -f /tmp/checkall.$$
[ $bad -eq 0 ] && echo "ALL-OK" || { echo "SOME-CHECK-FAILED"; exit 1; }

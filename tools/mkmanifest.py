#!/usr/bin/env python3
"""Regenerate /verif/MANIFEST.json from the table below (keeps it valid)."""
import json, os, sys
HERE = os.path.dirname(os.path.dirname(os.path.abspath(__file__)))
sys.path.insert(0, HERE)
from yrsa.claims import CLAIMS, NOT_APPLICABLE

checks = []
for pid in sorted(CLAIMS):
    c = CLAIMS[pid]
    checks.append({
        'property_id': pid,
        'quick_cmd': './check %s --tier quick' % pid,
        'thorough_cmd': './check %s --tier thorough' % pid,
        'evidence_file': '/verif/evidence/%s.json' % pid,
        'replay_cmd_template': './check %s --replay {path}' % pid,
        'engine': 'yrsa',
        'level_claimed': {'category': c.get('level', 'other'), 'text': c['text'],
                          'design_ref': c['design_ref']},
        'level_note': c['note'],
        'technique': c['technique'],
    })
m = {
    'version': 1,
    'setup_cmd': 'sh tools/build.sh',
    'hooks': {
        'guard': 'YARA_VERIF',
        'enable': 'none needed: the checks read /repo source through clang-14 libTooling; no instrumented build exists',
        'baseline_off_cmd': 'cd /repo && make -j8 check',
        'source_commits': [],
        'add_only': True,
    },
    'engines': [{
        'name': 'yrsa',
        'path': '/verif/check',
        'serves_properties': sorted(CLAIMS),
        'kind_free_text': 'repository-specific static analysis: clang-14 libTooling fact extractor (tools/yrx.cc: AST node tables + clang::CFG per function, record layouts, macro tables) and python rules (yrsa/rules/Cxx.py: dataflow, typestate, lockset, effect, who-may-call, exhaustiveness and sibling-agreement rules with frozen tables); exit 0/1/2 (2 = analysis broken)',
    }],
    'checks': checks,
    'not_applicable': [{'property_id': k, 'reason': v} for k, v in sorted(NOT_APPLICABLE.items())],
    'notes': 'Static analysis only. Every check re-extracts facts from /repo\'s current working tree (content-keyed cache under /verif/.cache), runs its rules, runs each rule\'s positive fixture, and writes evidence/<id>.json. known_findings.json lists genuine defects (known/fixed). See DESIGN.md.',
}
json.dump(m, open(os.path.join(HERE, 'MANIFEST.json'), 'w'), indent=1)
print('MANIFEST.json: %d checks, %d not applicable' % (len(checks), len(m['not_applicable'])))

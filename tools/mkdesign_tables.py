#!/usr/bin/env python3
"""Regenerates the machine-written tables of DESIGN.md (between the markers
<!-- BEGIN GENERATED --> and <!-- END GENERATED -->) from known_findings.json,
the /repo history, mutants/RESULTS.json and seeded/RESULTS*.json."""
import json, os, re, subprocess, sys
HERE = os.path.dirname(os.path.dirname(os.path.abspath(__file__)))

def md(s):
    return str(s).replace('|', '\\|').replace('\n', ' ')

out = []
kf = json.load(open(os.path.join(HERE, 'known_findings.json')))['findings']
log = subprocess.run(['git', '-C', '/repo', 'log', '--reverse', '--format=%h %s'], stdout=subprocess.PIPE, text=True).stdout
fixes = [l.split(' ', 1) for l in log.splitlines() if l.split(' ', 1)[1].startswith('fix:')]
by_commit = {}
for f in kf:
    if f.get('status') == 'fixed':
        by_commit.setdefault(f['commit'][:7], []).append(f)
out.append('### 9.1 Defects repaired in /repo (`fix:` commits, oldest first)\n')
out.append('| commit | subject | property / rule that reports it | how it was confirmed |')
out.append('|---|---|---|---|')
for h, subj in fixes:
    fs = by_commit.get(h[:7], [])
    rules = ', '.join(sorted(set('%s/%s' % (f['property'], f['rule']) for f in fs))) or '(found by a replay sweep; see text)'
    how = fs[0].get('what_fails', '')[:170] if fs else ''
    out.append('| `%s` | %s | %s | %s |' % (h, md(subj[4:].strip()), rules, md(how)))
out.append('')
out.append('### 9.2 Known findings (genuine, recorded, not repaired)\n')
out.append('| property | rule | site (key) | what fails | why not repaired |')
out.append('|---|---|---|---|---|')
seen = set()
for f in kf:
    if f.get('status') != 'known':
        continue
    k = f['key']
    fam = re.sub(r'^[A-Za-z0-9_]+:', '<fn>:', k) if f['rule'] == 'R13.3' else k
    if (f['rule'], fam) in seen:
        continue
    seen.add((f['rule'], fam))
    n = sum(1 for g in kf if g.get('status') == 'known' and g['rule'] == f['rule'] and
            (re.sub(r'^[A-Za-z0-9_]+:', '<fn>:', g['key']) if g['rule'] == 'R13.3' else g['key']) == fam)
    out.append('| %s | %s | `%s`%s | %s | %s |' % (f['property'], f['rule'], md(fam), ' (%d sites)' % n if n > 1 else '',
                                                 md(f.get('what_fails', ''))[:260], md(f.get('why_not_fixed', ''))[:260]))
out.append('')
mr = os.path.join(HERE, 'mutants', 'RESULTS.json')
if os.path.exists(mr):
    R = json.load(open(mr))
    B = {}
    bp = os.path.join(HERE, 'mutants', 'BUILD.json')
    if os.path.exists(bp):
        B = json.load(open(bp))
    npass = sum(1 for i in R if B.get(i) == 'TESTS-PASS')
    out.append('### 9.3 Mutant corpus\n')
    out.append('Each mutant is applied to a scratch copy and the owning check is run on it '
               '(`tools/runmutants.py`); independently each one is built and `make check` is run '
               '(`tools/buildmutants.py`, results in `mutants/BUILD.json`): all %d compile, **%d pass the '
               '16 tests** (changes the suite cannot see) and %d are also caught by the suite (kept '
               'only as proof that the rule fires; marked "suite" below).\n' % (len(R), npass, len(R) - npass))
    props = sorted(set(v['property'] for v in R.values()))
    out.append('| property | breaking mutants killed (of which invisible to the test suite) | behaviour-preserving mutants silent | not as expected |')
    out.append('|---|---|---|---|')
    for p in props:
        vs = [v for v in R.values() if v['property'] == p]
        k = sum(1 for v in vs if v['kind'] != 'preserving' and v['verdict'] == 'KILLED')
        kb = sum(1 for v in vs if v['kind'] != 'preserving')
        s_ = sum(1 for v in vs if v['kind'] == 'preserving' and v['verdict'] == 'SILENT-OK')
        sb = sum(1 for v in vs if v['kind'] == 'preserving')
        bad = [i for i, v in R.items() if v['property'] == p and v['verdict'] not in ('KILLED', 'SILENT-OK')]
        inv = sum(1 for i, v in R.items() if v['property'] == p and v['kind'] != 'preserving' and
                  v['verdict'] == 'KILLED' and B.get(i) == 'TESTS-PASS')
        out.append('| %s | %d / %d (%d) | %d / %d | %s |' % (p, k, kb, inv, s_, sb, ', '.join(bad) or '-'))
    out.append('')
    out.append('<details><summary>all %d mutants</summary>\n' % len(R))
    out.append('| mutant | property | rule expected | kind | verdict | make check | what it does |')
    out.append('|---|---|---|---|---|---|---|')
    for i, v in sorted(R.items(), key=lambda kv: (kv[1]['property'], kv[0])):
        out.append('| %s | %s | %s | %s | %s | %s | %s |' % (i, v['property'], v['rule'], v['kind'], v['verdict'],
                                                         'pass' if B.get(i) == 'TESTS-PASS' else ('suite' if i in B else '?'),
                                                         md(v['note'])[:120]))
    out.append('\n</details>\n')
sr = os.path.join(HERE, 'seeded', 'RESULTS.json')
if os.path.exists(sr):
    R = json.load(open(sr))
    R1 = {}
    p1 = os.path.join(HERE, 'seeded', 'RESULTS.round1.json')
    if os.path.exists(p1):
        R1 = json.load(open(p1))
    out.append('### 9.4 Seeded changes (independent sub-agents; one property text each, nothing from /verif)\n')
    out.append('| seed | property | the change (one line) | caught when first run | caught now | report (first line) |')
    out.append('|---|---|---|---|---|---|')
    pres = [k for k in sorted(R) if R[k].get('kind') == 'preserving']
    for sid in sorted(R):
        if sid in pres:
            continue
        v = R[sid]
        meta = {}
        mp = os.path.join(HERE, 'seeded', sid, 'meta.json')
        if os.path.exists(mp):
            meta = json.load(open(mp))
        first = R1.get(sid, {}).get('caught_by') if sid in R1 else None
        first_s = (', '.join(first) or '**missed**') if first is not None else 'n/a (later round)'
        if sid not in R1:
            fr = os.path.join(HERE, 'seeded', sid, 'first_result.json')
            if os.path.exists(fr):
                first_s = ', '.join(json.load(open(fr)).get('caught_by', [])) or '**missed**'
        rep = ''
        for k, ls in v.get('reports', {}).items():
            if ls:
                rep = '%s: %s' % (k, ls[0])
                break
        out.append('| %s | %s | %s | %s | %s | %s |' % (sid, v['property'], md(meta.get('summary', ''))[:230], first_s,
                                                     ', '.join(v['caught_by']) or '**missed**', md(rep)[:200]))
    out.append('')
    if pres:
        out.append('### 9.4b Behaviour-preserving refactorings by independent sub-agents (must stay silent)\n')
        out.append('| refactoring | property | what was refactored (one line) | first run | now |')
        out.append('|---|---|---|---|---|')
        for sid in pres:
            v = R[sid]
            meta = {}
            mp = os.path.join(HERE, 'seeded', sid, 'meta.json')
            if os.path.exists(mp):
                meta = json.load(open(mp))
            def verdict(r):
                if r.get('caught_by'):
                    return '**false alarm** (%s)' % ', '.join(r['caught_by'])
                if r.get('broken'):
                    return '**anchor lost** (%s exits 2)' % ', '.join(r['broken'])
                return 'silent'
            first = '?'
            fr = os.path.join(HERE, 'seeded', sid, 'first_result.json')
            if os.path.exists(fr):
                first = verdict(json.load(open(fr)))
            out.append('| %s | %s | %s | %s | %s |' % (sid, v['property'], md(meta.get('summary', ''))[:220], first, verdict(v)))
        out.append('')
text = '\n'.join(out)
p = os.path.join(HERE, 'DESIGN.md')
s = open(p).read()
b, e = '<!-- BEGIN GENERATED -->', '<!-- END GENERATED -->'
if b in s and e in s:
    s = s[:s.index(b) + len(b)] + '\n' + text + '\n' + s[s.index(e):]
    open(p, 'w').write(s)
    print('DESIGN.md tables regenerated (%d lines)' % len(out))
else:
    print(text)

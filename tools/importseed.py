#!/usr/bin/env python3
"""importseed.py <id>... — take the deliverables of a seeding sub-agent from
/tmp/seed/<id>/out, confirm them independently in the agent's scratch worktree
(patch = worktree diff, `make check` still 16/16, the demonstration shows the
breakage), store them under seeded/<id>/ and remove the scratch worktree."""
import json, os, shutil, subprocess, sys
HERE = os.path.dirname(os.path.dirname(os.path.abspath(__file__)))

def sh(cmd, cwd, timeout=1800):
    r = subprocess.run(cmd, cwd=cwd, shell=True, stdout=subprocess.PIPE, stderr=subprocess.STDOUT,
                       text=True, timeout=timeout)
    return r.returncode, r.stdout

for sid in sys.argv[1:]:
    base = '/tmp/seed/%s' % sid
    wt, out = base + '/wt', base + '/out'
    dst = os.path.join(HERE, 'seeded', sid)
    if not os.path.exists(out + '/patch.diff'):
        print(sid, 'no patch.diff'); continue
    conf = {}
    # the patch is the worktree's diff
    rc, diff = sh('git diff', wt)
    conf['patch_equals_worktree_diff'] = diff.strip() == open(out + '/patch.diff').read().strip()
    if not conf['patch_equals_worktree_diff']:
        # regenerate from the worktree: that is what was built and tested
        open(out + '/patch.diff', 'w').write(diff)
        conf['patch_regenerated_from_worktree'] = True
    rc, o = sh('make -j8 2>&1 | tail -3; make -j8 check 2>&1 | grep -E "^# (PASS|FAIL|TOTAL)"', wt)
    conf['make_check'] = ' '.join(o.split())[-120:]
    conf['tests_pass'] = '# PASS: 16' in ' '.join(o.split()).replace('PASS:  ', 'PASS: ') and '# FAIL: 0' in ' '.join(o.split()).replace('FAIL:  ', 'FAIL: ')
    demo_out = ''
    if os.path.exists(out + '/demo/run.sh'):
        rc, demo_out = sh('sh ./run.sh 2>&1 | tail -60', out + '/demo', timeout=900)
    conf['demo_with_change'] = demo_out[-3000:]
    if os.path.exists(dst):
        shutil.rmtree(dst)
    shutil.copytree(out, dst, ignore=shutil.ignore_patterns('*.o', 'a.out', '*.yarc.tmp'))
    # drop compiled binaries of demos (rebuildable), keep sources and data
    for root, dirs, files in os.walk(dst):
        for fn in files:
            p = os.path.join(root, fn)
            try:
                if open(p, 'rb').read(4) == b'\x7fELF':
                    os.remove(p)
            except OSError:
                pass
    json.dump(conf, open(os.path.join(dst, 'confirm.json'), 'w'), indent=1)
    print(sid, 'tests_pass=%s patch_ok=%s' % (conf['tests_pass'], conf['patch_equals_worktree_diff']))
    print('   demo tail:', ' | '.join(demo_out.strip().splitlines()[-6:])[:600])
    subprocess.run(['git', '-C', '/repo', 'worktree', 'remove', '--force', wt])
    shutil.rmtree(base, ignore_errors=True)

rule opt_in_plus { strings: $a = /x(a?b)+y/ condition: $a }
rule opt_in_star { strings: $a = /x(a?b)*y/ condition: $a }
rule range01 { strings: $a = /x(a{0,1}b)+y/ condition: $a }
rule control_no_group_repeat { strings: $a = /x(a?b)(a?b)y/ condition: $a }

#!/bin/sh
# Replay for C03/R3.9. usage: run.sh [dir with built yara]   (default /repo)
# Before /repo 'fix: the code reference of e{0,m} is its split instruction' only
# control_no_group_repeat matched xbby.bin; /x(a?b)+y/ re-entered the group past the
# split of `a?` on every iteration after the first, so the second `b` needed an `a`.
Y=${1:-/repo}/yara
cd "$(dirname "$0")"
for f in xbby.bin xabbaby.bin; do echo "== $f"; $Y r.yar $f 2>/dev/null; done

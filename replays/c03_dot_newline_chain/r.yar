rule dot_gap_300 { strings: $a = /abc.{0,300}?def/ condition: $a }
rule dot_gap_30 { strings: $a = /abc.{0,30}?def/ condition: $a }
rule dot_gap_300_s { strings: $a = /abc.{0,300}?def/s condition: $a }
rule hex_jump_300 { strings: $a = { 61 62 63 [0-300] 64 65 66 } condition: $a }

#!/bin/sh
# Replay for C03/R3.10. usage: run.sh [dir with built yara]   (default /repo)
# `.` does not match a newline without /s.  Before /repo 'fix: only a .{n,m} that matches
# every byte is turned into a chain gap' dot_gap_300 matched nl.bin and far_nl.bin (the
# .{0,300}? had been cut out and replaced by a byte-count gap) while dot_gap_30 did not.
Y=${1:-/repo}/yara
cd "$(dirname "$0")"
for f in nl.bin nonl.bin far_nl.bin far_nonl.bin; do echo "== $f: $($Y r.yar $f 2>/dev/null | cut -d' ' -f1 | tr '\n' ' ')"; done

/* Replay for C06/R6.1: fits_in_dex() did not parenthesise its size argument.
 * With a compound size (dex.c: sizeof(uint32_t) + n * sizeof(map_item_t)) the
 * upper bound became data + data_size - 4 + n*12 instead of data + data_size -
 * (4 + n*12).  A 16-byte object at offset 90 of a 100-byte buffer "fits".
 * build: gcc -I/repo/libyara/include -I/repo/libyara c06_fits_in_dex.c && ./a.out
 * expected after the fix: fits = 0 */
#include <stdio.h>
#include <stdint.h>
#include <yara/modules.h>
#include <yara/dex.h>
int main()
{
  static uint8_t buf[100];
  DEX d; DEX* dex = &d;
  uint32_t n = 1;
  d.data = buf; d.data_size = sizeof buf;
  printf("fits = %d\n", (int) fits_in_dex(dex, buf + 90, sizeof(uint32_t) + n * sizeof(map_item_t)));
  return 0;
}

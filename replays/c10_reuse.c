/* Replay for C10/R10.1: entry_point and last_error_string survive a scan.
 * build: gcc -I/repo/libyara/include c10_reuse.c /repo/.libs/libyara.a -lcrypto -lm -lpthread
 * expected (correct): "reused" and "fresh" lines agree. */
#include <stdio.h>
#include <stdlib.h>
#include <string.h>
#include <yara.h>
static int mode = 0;
static int cb(YR_SCAN_CONTEXT* c, int msg, void* d, void* u)
{
  if (msg == CALLBACK_MSG_RULE_MATCHING) printf("    match %s\n", ((YR_RULE*) d)->identifier);
  if (msg == CALLBACK_MSG_TOO_MANY_MATCHES) return CALLBACK_ERROR;
  if (mode == 1 && msg == CALLBACK_MSG_RULE_NOT_MATCHING) return CALLBACK_ERROR;
  return CALLBACK_CONTINUE;
}
static void show_err(const char* who, YR_SCANNER* s, int r)
{
  YR_STRING* str = yr_scanner_last_error_string(s);
  printf("  %s: result %d, last_error_string %s\n", who, r, str ? str->identifier : "(none)");
}
int main()
{
  YR_COMPILER* comp; YR_RULES* rules; YR_SCANNER *sc, *fresh;
  yr_initialize();
  yr_compiler_create(&comp);
  if (yr_compiler_add_string(comp,
      "rule ep { condition: entrypoint >= 0 }\n"
      "rule many { strings: $a = \"a\" condition: #a > 5 }\n", NULL)) return 2;
  yr_compiler_get_rules(comp, &rules);
  yr_scanner_create(rules, &sc); yr_scanner_set_callback(sc, cb, NULL);
  yr_scanner_create(rules, &fresh); yr_scanner_set_callback(fresh, cb, NULL);

  printf("1) scan a PE (tests/data/tiny), then a text buffer, rule `entrypoint >= 0`:\n");
  yr_scanner_scan_file(sc, "/repo/tests/data/tiny");
  printf("  reused scanner on text:\n"); yr_scanner_scan_mem(sc, (const uint8_t*) "just text", 9);
  printf("  fresh scanner on text:\n");  yr_scanner_scan_mem(fresh, (const uint8_t*) "just text", 9);

  printf("2) a scan that fails on string $a (too many matches), then an unrelated failing scan:\n");
  size_t n = 1100000; char* big = malloc(n); memset(big, 'a', n);
  int r = yr_scanner_scan_mem(sc, (const uint8_t*) big, n);
  show_err("after too-many-matches scan", sc, r);
  mode = 1;
  r = yr_scanner_scan_mem(sc, (const uint8_t*) "zzz", 3);
  show_err("reused: unrelated callback error", sc, r);
  r = yr_scanner_scan_mem(fresh, (const uint8_t*) "zzz", 3);
  show_err("fresh : unrelated callback error", fresh, r);
  return 0;
}

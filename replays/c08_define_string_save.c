/* Replay for C08/R8.3 known finding: yr_rules_define_string_variable stores a
 * heap pointer in a relocatable slot; yr_rules_save then aborts
 * (arena.c: Assertion `found' failed) or, with NDEBUG, writes a wild reference.
 * build: gcc -I/repo/libyara/include c08_define_string_save.c /repo/.libs/libyara.a -lcrypto -lm -lpthread */
#include <stdio.h>
#include <yara.h>
int main()
{
  YR_COMPILER* comp; YR_RULES* rules;
  yr_initialize();
  yr_compiler_create(&comp);
  yr_compiler_define_string_variable(comp, "ext", "abc");
  if (yr_compiler_add_string(comp, "rule r { condition: ext == \"xyz\" }", NULL)) return 2;
  yr_compiler_get_rules(comp, &rules);
  printf("define=%d\n", yr_rules_define_string_variable(rules, "ext", "xyz"));
  fflush(stdout);
  printf("save=%d\n", yr_rules_save(rules, "/tmp/c08_define_string_save.yarc"));
  yr_rules_destroy(rules); yr_compiler_destroy(comp); yr_finalize();
  return 0;
}

rule a1 { condition: false }

#!/bin/sh
# Rule r of namespace nsB references only rules of its own file. Before the fix
# (parser.c, yr_parser_emit_pushes_for_rules) it matched only when the unrelated
# namespace nsA, which has a rule with the same name a1, was compiled first.
cd "$(dirname "$0")"
echo "--- b.yar alone:";                 ${YARA:-/repo/yara} b.yar f.txt 2>/dev/null
echo "--- nsA:a.yar then nsB:b.yar:";    ${YARA:-/repo/yara} nsA:a.yar nsB:b.yar f.txt 2>/dev/null

rule a1 { condition: true }
rule r { condition: 2 of (a*) }

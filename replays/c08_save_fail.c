/* Replay for C08/R8.4: a failing stream write during yr_rules_save_stream
 * leaves the live arena holding references instead of pointers.
 * build: gcc -I/repo/libyara/include c08_save_fail.c /repo/.libs/libyara.a -lcrypto -lm -lpthread
 * run:   ./a.out <n>   (the n-th write call fails)
 * expected (correct): save=<error>, then the scan of the ORIGINAL rules still
 * reports "match r". Before the fix: SIGSEGV in the scan for n>=15 or so. */
#include <stdio.h>
#include <stdlib.h>
#include <string.h>
#include <yara.h>
static int calls = 0, fail_at = 0;
static size_t wr(const void* p, size_t sz, size_t n, void* ud)
{ calls++; if (calls == fail_at) return 0; return n; }
static int cb(YR_SCAN_CONTEXT* c, int msg, void* d, void* u)
{ if (msg == CALLBACK_MSG_RULE_MATCHING) printf("match %s\n", ((YR_RULE*) d)->identifier); return CALLBACK_CONTINUE; }
int main(int argc, char** argv)
{
  fail_at = argc > 1 ? atoi(argv[1]) : 0;
  YR_COMPILER* comp; YR_RULES* rules; YR_STREAM s;
  yr_initialize();
  yr_compiler_create(&comp);
  if (yr_compiler_add_string(comp, "rule r { strings: $a = \"YARA\" condition: $a }", NULL)) return 2;
  yr_compiler_get_rules(comp, &rules);
  s.user_data = NULL; s.write = wr;
  printf("save=%d (write calls: %d)\n", yr_rules_save_stream(rules, &s), calls);
  fflush(stdout);
  int r = yr_rules_scan_mem(rules, (const uint8_t*) "xxxxxYARA", 9, 0, cb, NULL, 0);
  printf("scan=%d\n", r);
  yr_rules_destroy(rules); yr_compiler_destroy(comp); yr_finalize();
  return 0;
}

/* Replay for C16/R16.1 known finding: yr_re_match() drops yr_re_exec()'s error.
 * build: gcc -I/repo/libyara/include -I/repo/libyara c16_re_match.c /repo/.libs/libyara.a \
 *        -Wl,--wrap=yr_malloc -lcrypto -lm -lpthread
 * expected output today: "normal: 3" then "alloc failure: -1" — the failure is
 * indistinguishable from "no match" (callers in modules/cuckoo test `> 0`). */
#include <stdio.h>
#include <string.h>
#include <yara.h>
#include <yara/re.h>
#include <yara/arena.h>
#include <yara/scanner.h>

void* __real_yr_malloc(size_t);
static int fail = 0;
void* __wrap_yr_malloc(size_t n) { if (fail) return NULL; return __real_yr_malloc(n); }

int main()
{
  YR_ARENA* arena; YR_ARENA_REF ref; RE_ERROR err;
  yr_initialize();
  yr_arena_create(YR_NUM_SECTIONS, 1024, &arena);
  if (yr_re_compile("abc", 0, 0, arena, &ref, &err) != ERROR_SUCCESS) return 2;
  RE* re = (RE*) yr_arena_ref_to_ptr(arena, &ref);
  YR_SCAN_CONTEXT ctx; memset(&ctx, 0, sizeof(ctx));
  printf("normal: %d\n", yr_re_match(&ctx, re, "xxabcxx"));
  /* drop pooled fibers so that the next match must allocate */
  YR_SCAN_CONTEXT ctx2; memset(&ctx2, 0, sizeof(ctx2));
  fail = 1;
  printf("alloc failure: %d\n", yr_re_match(&ctx2, re, "xxabcxx"));
  fail = 0;
  return 0;
}

/* Replay harness for the loader (C16 R16.4 / C17): load a compiled rules
 * file with the k-th allocation failing; report result and live allocations.
 * build: like fi.c (same --wrap list without yr_arena_write_data)
 * run:   FI_K=<k> ./loadfi rules.yarc [datafile] */
#include <stdio.h>
#include <stdlib.h>
#include <yara.h>
void* __real_yr_malloc(size_t); void* __real_yr_calloc(size_t, size_t);
void* __real_yr_realloc(void*, size_t); char* __real_yr_strdup(const char*);
char* __real_yr_strndup(const char*, size_t); void __real_yr_free(void*);
static long counter = 0, fail_at = -1, live = 0; static int armed = 0;
static int sf() { if (!armed) return 0; counter++; return counter == fail_at; }
void* __wrap_yr_malloc(size_t n) { if (sf()) return NULL; void* p = __real_yr_malloc(n); if (p) live++; return p; }
void* __wrap_yr_calloc(size_t a, size_t b) { if (sf()) return NULL; void* p = __real_yr_calloc(a, b); if (p) live++; return p; }
void* __wrap_yr_realloc(void* q, size_t n) { if (sf()) return NULL; void* p = __real_yr_realloc(q, n); if (p && !q) live++; return p; }
char* __wrap_yr_strdup(const char* s) { if (sf()) return NULL; char* p = __real_yr_strdup(s); if (p) live++; return p; }
char* __wrap_yr_strndup(const char* s, size_t n) { if (sf()) return NULL; char* p = __real_yr_strndup(s, n); if (p) live++; return p; }
void __wrap_yr_free(void* p) { if (p) live--; __real_yr_free(p); }
static int cb(YR_SCAN_CONTEXT* c, int msg, void* d, void* u)
{ if (msg == CALLBACK_MSG_RULE_MATCHING) printf("  match %s\n", ((YR_RULE*) d)->identifier); return CALLBACK_CONTINUE; }
int main(int argc, char** argv)
{
  if (getenv("FI_K")) fail_at = atol(getenv("FI_K"));
  yr_initialize();
  long base = live; armed = 1;
  YR_RULES* rules = NULL;
  int r = yr_rules_load(argv[1], &rules);
  printf("load=%d\n", r);
  if (r == ERROR_SUCCESS)
  {
    if (argc > 2) { r = yr_rules_scan_file(rules, argv[2], 0, cb, NULL, 0); printf("scan=%d\n", r); }
    yr_rules_destroy(rules);
  }
  armed = 0;
  printf("allocs=%ld live_after=%ld\n", counter, live - base);
  yr_finalize();
  return 0;
}

// Replay for C14/R14.3: before 1st fix math.mean("\xff\xff") == -1.0; run: printf "\xff\xff" > ff.bin; yara c14_signed_string.yar ff.bin
// and printf "\xff\x01\xfe\x02\xfd\x03\xff\x01\xfe\x02\xfd\x03" > sc.bin; yara c14_signed_string.yar sc.bin (string and data forms must agree)
import "math"
rule string_mean_255 { condition: math.mean("\xff\xff") == 255.0 }
rule string_mean_neg1 { condition: math.mean("\xff\xff") == -1.0 }
rule data_mean_255 { condition: math.mean(0, 2) == 255.0 }
rule string_dev_0 { condition: math.deviation("\xff\xff", 255.0) == 0.0 }
rule string_dev_256 { condition: math.deviation("\xff\xff", 255.0) == 256.0 }
rule data_dev_0 { condition: math.deviation(0, 2, 255.0) == 0.0 }
rule string_serial_eq_data { condition: math.serial_correlation("\xff\x01\xfe\x02\xfd\x03") == math.serial_correlation(0, 6) }
rule string_mc_eq_data { condition: math.monte_carlo_pi("\xff\x01\xfe\x02\xfd\x03\xff\x01\xfe\x02\xfd\x03") == math.monte_carlo_pi(0, 12) }

/* Replay for C14/R14.2 (sibling disagreement): when the data of a block inside
 * the requested range cannot be fetched, the math walkers give up (undefined)
 * but the hash walkers silently skip the block and return the digest of fewer
 * bytes than were addressed.  Two blocks "AAAA" + (unfetchable 4 bytes):
 * hash.md5(0,8) must not equal md5("AAAA") = 098890dde069e9abad63f19a0d9e1f32.
 * build: gcc -I/repo/libyara/include c14_unfetchable.c /repo/.libs/libyara.a -lcrypto -lm -lpthread */
#include <stdio.h>
#include <string.h>
#include <yara.h>
typedef struct { YR_MEMORY_BLOCK b[2]; int cur; } IT;
static const uint8_t* fetch(YR_MEMORY_BLOCK* b) { return (const uint8_t*) b->context; }
static YR_MEMORY_BLOCK* first(YR_MEMORY_BLOCK_ITERATOR* it)
{ IT* s = (IT*) it->context; s->cur = 0; it->last_error = ERROR_SUCCESS; return &s->b[0]; }
static YR_MEMORY_BLOCK* next(YR_MEMORY_BLOCK_ITERATOR* it)
{ IT* s = (IT*) it->context; it->last_error = ERROR_SUCCESS; return ++s->cur < 2 ? &s->b[s->cur] : NULL; }
static int cb(YR_SCAN_CONTEXT* c, int msg, void* d, void* u)
{ if (msg == CALLBACK_MSG_RULE_MATCHING) printf("  match %s\n", ((YR_RULE*) d)->identifier); return CALLBACK_CONTINUE; }
int main()
{
  YR_COMPILER* comp; YR_RULES* rules; YR_SCANNER* sc; IT s; YR_MEMORY_BLOCK_ITERATOR it;
  yr_initialize(); yr_compiler_create(&comp);
  if (yr_compiler_add_string(comp,
      "import \"hash\" import \"math\" "
      "rule md5_of_fewer_bytes { condition: hash.md5(0, 8) == \"098890dde069e9abad63f19a0d9e1f32\" } "
      "rule md5_defined { condition: defined hash.md5(0, 8) } "
      "rule sha1_defined { condition: defined hash.sha1(0, 8) } "
      "rule sha256_defined { condition: defined hash.sha256(0, 8) } "
      "rule checksum32_is_4xA { condition: hash.checksum32(0, 8) == 260 } "
      "rule crc32_defined { condition: defined hash.crc32(0, 8) } "
      "rule entropy_defined { condition: defined math.entropy(0, 8) } "
      "rule serial_defined { condition: defined math.serial_correlation(0, 8) }", NULL)) return 2;
  yr_compiler_get_rules(comp, &rules);
  memset(&s, 0, sizeof s); memset(&it, 0, sizeof it);
  s.b[0].base = 0; s.b[0].size = 4; s.b[0].context = (void*) "AAAA"; s.b[0].fetch_data = fetch;
  s.b[1].base = 4; s.b[1].size = 4; s.b[1].context = NULL; s.b[1].fetch_data = fetch;
  it.context = &s; it.first = first; it.next = next;
  yr_scanner_create(rules, &sc); yr_scanner_set_callback(sc, cb, NULL);
  printf("result %d\n", yr_scanner_scan_mem_blocks(sc, &it));
  yr_scanner_destroy(sc);
  return 0;
}

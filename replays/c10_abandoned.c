/* Replay for C10/R10.1: a scan suspended with ERROR_BLOCK_NOT_READY and then
 * abandoned leaks its matches into the next scan on the same scanner.
 * build: gcc -I/repo/libyara/include c10_abandoned.c /repo/.libs/libyara.a -lcrypto -lm -lpthread
 * expected (correct): second scan reports no match (fresh scanner: no match). */
#include <stdio.h>
#include <string.h>
#include <yara.h>

typedef struct { YR_MEMORY_BLOCK b[2]; const uint8_t* d[2]; int pos; int fail_second; } IT;
static const uint8_t* fetch(YR_MEMORY_BLOCK* b) { return (const uint8_t*) b->context; }
static YR_MEMORY_BLOCK* first(YR_MEMORY_BLOCK_ITERATOR* it)
{ IT* s = (IT*) it->context; s->pos = 0; it->last_error = ERROR_SUCCESS; return &s->b[0]; }
static YR_MEMORY_BLOCK* next(YR_MEMORY_BLOCK_ITERATOR* it)
{
  IT* s = (IT*) it->context;
  if (s->pos == 0) {
    if (s->fail_second) { it->last_error = ERROR_BLOCK_NOT_READY; return NULL; }
    s->pos = 1; it->last_error = ERROR_SUCCESS; return &s->b[1];
  }
  it->last_error = ERROR_SUCCESS; return NULL;
}
static int cb(YR_SCAN_CONTEXT* c, int msg, void* d, void* u)
{ if (msg == CALLBACK_MSG_RULE_MATCHING) printf("  match %s\n", ((YR_RULE*) d)->identifier); return CALLBACK_CONTINUE; }

int main()
{
  YR_COMPILER* comp; YR_RULES* rules; YR_SCANNER* sc;
  yr_initialize();
  yr_compiler_create(&comp);
  if (yr_compiler_add_string(comp, "rule r { strings: $a = \"YARA\" condition: #a > 0 or filesize == 7 }", NULL)) return 2;
  yr_compiler_get_rules(comp, &rules);
  yr_scanner_create(rules, &sc);
  yr_scanner_set_callback(sc, cb, NULL);

  IT s; memset(&s, 0, sizeof s);
  s.b[0].base = 0; s.b[0].size = 9; s.b[0].context = (void*) "xxxxxYARA"; s.b[0].fetch_data = fetch;
  s.b[1].base = 9; s.b[1].size = 4; s.b[1].context = (void*) "zzzz"; s.b[1].fetch_data = fetch;
  s.fail_second = 1;
  YR_MEMORY_BLOCK_ITERATOR it; memset(&it, 0, sizeof it);
  it.context = &s; it.first = first; it.next = next; it.last_error = ERROR_SUCCESS;
  printf("scan 1 (suspended, then abandoned): %d\n", yr_scanner_scan_mem_blocks(sc, &it));

  printf("scan 2 on the same scanner, buffer without the string:\n");
  printf("  result %d\n", yr_scanner_scan_mem(sc, (const uint8_t*) "nothing here", 12));

  YR_SCANNER* fresh; yr_scanner_create(rules, &fresh); yr_scanner_set_callback(fresh, cb, NULL);
  printf("same buffer, fresh scanner:\n");
  printf("  result %d\n", yr_scanner_scan_mem(fresh, (const uint8_t*) "nothing here", 12));
  yr_scanner_destroy(fresh); yr_scanner_destroy(sc); yr_rules_destroy(rules); yr_compiler_destroy(comp);
  yr_finalize();
  return 0;
}

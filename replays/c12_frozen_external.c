/* Replay for C12/R12.3 (external frozen at compile time).
 * build: gcc -I/repo/libyara/include c12_frozen_external.c /repo/.libs/libyara.a -lcrypto -lm -lpthread
 * expected (correct): both rules match.  Before the fix: neither matched.  */
#include <stdio.h>
#include <string.h>
#include <yara.h>

static int cb(YR_SCAN_CONTEXT* c, int msg, void* data, void* ud)
{
  if (msg == CALLBACK_MSG_RULE_MATCHING)
    printf("match %s\n", ((YR_RULE*) data)->identifier);
  return CALLBACK_CONTINUE;
}

int main()
{
  YR_COMPILER* comp;
  YR_RULES* rules;
  YR_SCANNER* sc;
  const char* buf = "xxxxxYARA";
  yr_initialize();
  yr_compiler_create(&comp);
  yr_compiler_define_integer_variable(comp, "ext", 0);
  yr_compiler_define_integer_variable(comp, "n", 1);
  if (yr_compiler_add_string(
          comp,
          "rule at_ext { strings: $a = \"YARA\" condition: $a at ext }\n"
          "rule n_of { strings: $a = \"nothere\" condition: n of ($a) }\n",
          NULL) != 0)
    return 2;
  yr_compiler_get_rules(comp, &rules);
  yr_scanner_create(rules, &sc);
  yr_scanner_define_integer_variable(sc, "ext", 5);
  yr_scanner_define_integer_variable(sc, "n", 0);
  yr_scanner_set_callback(sc, cb, NULL);
  yr_scanner_scan_mem(sc, (const uint8_t*) buf, strlen(buf));
  yr_scanner_destroy(sc);
  yr_rules_destroy(rules);
  yr_compiler_destroy(comp);
  yr_finalize();
  return 0;
}

/* Fault-injection replay harness (used only to REPLAY findings of the static
 * checks concretely; it is not a registered check).
 *
 * build: gcc -g -I/repo/libyara/include -I/repo/libyara fi.c /repo/.libs/libyara.a \
 *          -Wl,--wrap=yr_malloc,--wrap=yr_calloc,--wrap=yr_realloc,--wrap=yr_strdup,--wrap=yr_strndup,--wrap=yr_free,--wrap=yr_arena_write_data \
 *          -lcrypto -lm -lpthread -o fi
 * run:   FI_K=<k> [FI_ALL=1] ./fi rules.yar datafile [fast]
 *        the k-th allocation after yr_initialize fails (FI_ALL: and all later).
 * prints: compile errors, scan result code, matching rules, live allocations.
 */
#include <stdio.h>
#include <stdlib.h>
#include <string.h>
#include <yara.h>

void* __real_yr_malloc(size_t);
void* __real_yr_calloc(size_t, size_t);
void* __real_yr_realloc(void*, size_t);
char* __real_yr_strdup(const char*);
char* __real_yr_strndup(const char*, size_t);
void __real_yr_free(void*);

static long counter = 0, fail_at = -1, live = 0;
static int fail_all = 0, armed = 0;

static int should_fail()
{
  if (!armed) return 0;
  counter++;
  if (counter == fail_at) return 1;
  if (fail_all && fail_at > 0 && counter > fail_at) return 1;
  return 0;
}
void* __wrap_yr_malloc(size_t n) { if (should_fail()) return NULL; void* p = __real_yr_malloc(n); if (p) live++; return p; }
void* __wrap_yr_calloc(size_t a, size_t b) { if (should_fail()) return NULL; void* p = __real_yr_calloc(a, b); if (p) live++; return p; }
void* __wrap_yr_realloc(void* q, size_t n) { if (should_fail()) return NULL; void* p = __real_yr_realloc(q, n); if (p && !q) live++; return p; }
char* __wrap_yr_strdup(const char* s) { if (should_fail()) return NULL; char* p = __real_yr_strdup(s); if (p) live++; return p; }
char* __wrap_yr_strndup(const char* s, size_t n) { if (should_fail()) return NULL; char* p = __real_yr_strndup(s, n); if (p) live++; return p; }
void __wrap_yr_free(void* p) { if (p) live--; __real_yr_free(p); }

/* FI_W=<k>: the k-th yr_arena_write_data call reports the failure its only
 * failing step (growing the buffer) would report */
int __real_yr_arena_write_data(void*, uint32_t, const void*, size_t, void*);
static long wcounter = 0, wfail_at = -1;
int __wrap_yr_arena_write_data(void* a, uint32_t b, const void* d, size_t n, void* r)
{
  if (armed) { wcounter++; if (wcounter == wfail_at) return ERROR_INSUFFICIENT_MEMORY; }
  return __real_yr_arena_write_data(a, b, d, n, r);
}

static int cb(YR_SCAN_CONTEXT* c, int msg, void* data, void* ud)
{
  if (msg == CALLBACK_MSG_RULE_MATCHING) printf("  match %s\n", ((YR_RULE*) data)->identifier);
  return CALLBACK_CONTINUE;
}
static void errcb(int lvl, const char* f, int line, const YR_RULE* r, const char* msg, void* ud)
{ printf("  compile %s line %d: %s\n", lvl == YARA_ERROR_LEVEL_ERROR ? "error" : "warning", line, msg); }

int main(int argc, char** argv)
{
  if (argc < 3) return 2;
  if (getenv("FI_K")) fail_at = atol(getenv("FI_K"));
  if (getenv("FI_ALL")) fail_all = 1;
  if (getenv("FI_W")) wfail_at = atol(getenv("FI_W"));
  yr_initialize();
  FILE* rf = fopen(argv[1], "r");
  if (!rf) return 2;
  long base_live = live;
  armed = 1;
  YR_COMPILER* comp = NULL; YR_RULES* rules = NULL;
  int r = yr_compiler_create(&comp);
  printf("compiler_create=%d\n", r);
  if (r == ERROR_SUCCESS)
  {
    yr_compiler_set_callback(comp, errcb, NULL);
    int errors = yr_compiler_add_file(comp, rf, NULL, argv[1]);
    printf("errors=%d\n", errors);
    if (errors == 0)
    {
      r = yr_compiler_get_rules(comp, &rules);
      printf("get_rules=%d\n", r);
      if (r != ERROR_SUCCESS) rules = NULL;
    }
    yr_compiler_destroy(comp);
  }
  if (rules)
  {
    r = yr_rules_scan_file(rules, argv[2], argc > 3 ? SCAN_FLAGS_FAST_MODE : 0, cb, NULL, 0);
    printf("scan=%d\n", r);
    yr_rules_destroy(rules);
  }
  armed = 0;
  printf("allocs=%ld writes=%ld live_after=%ld\n", counter, wcounter, live - base_live);
  fclose(rf);
  yr_finalize();
  return 0;
}

rule hello
{
  strings:
    $a = "hello world"
  condition:
    $a
}

#!/usr/bin/env python3
"""Replay for C17/R17.8: single-field corruptions of the buffer table of a compiled
rules file.  usage: run.py <dir with built yara/yarac>   (default /repo)
Before /repo 'fix: the compiled-rules loader checks the buffer offsets...' the
loader ignored the recorded offsets: size[6]+8 and size[7]+8 loaded and silently did
not match, size[8]+8 and size[9]+8 loaded and crashed the scanner (SIGSEGV)."""
import os, struct, subprocess, sys, tempfile
root = sys.argv[1] if len(sys.argv) > 1 else '/repo'
here = os.path.dirname(os.path.abspath(__file__))
tmp = tempfile.mkdtemp()
full = os.path.join(tmp, 'full.yarc')
subprocess.run([root + '/yarac', here + '/rules.yar', full], check=True)
d = bytearray(open(full, 'rb').read())
nb = d[5]
tab = [struct.unpack_from('<QI', d, 6 + 12 * i) for i in range(nb)]
bad = 0
for i in range(nb):
    for fld, fmt, pos in (('size', '<I', 8), ('offset', '<Q', 0)):
        for delta in (8, -8, 1, -1, 4096):
            v = tab[i][1] if fld == 'size' else tab[i][0]
            if v + delta < 0:
                continue
            e = bytearray(d)
            struct.pack_into(fmt, e, 6 + 12 * i + pos, v + delta)
            c = os.path.join(tmp, 'c.yarc')
            open(c, 'wb').write(e)
            r = subprocess.run([root + '/yara', '-C', c, here + '/input.txt'],
                               stdout=subprocess.PIPE, stderr=subprocess.PIPE, text=True)
            if r.returncode != 1:
                bad += 1
                print('%s[%d] %d%+d -> exit %d %s' % (fld, i, v, delta, r.returncode, r.stdout.strip()[:40]))
print('corruptions not rejected:', bad)

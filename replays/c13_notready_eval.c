/* Replay for C13/R13.3 (known finding, with the documentation caveat): a
 * block iterator that reports ERROR_BLOCK_NOT_READY during the re-iteration
 * done by rule evaluation is taken for "end of data"; the scan returns
 * ERROR_SUCCESS with a different verdict.
 * build: gcc -I/repo/libyara/include c13_notready_eval.c /repo/.libs/libyara.a -lcrypto -lm -lpthread */
#include <stdio.h>
#include <string.h>
#include <yara.h>
typedef struct { YR_MEMORY_BLOCK b; int calls; int flaky; } IT;
static const uint8_t* fetch(YR_MEMORY_BLOCK* b) { return (const uint8_t*) b->context; }
static YR_MEMORY_BLOCK* first(YR_MEMORY_BLOCK_ITERATOR* it)
{
  IT* s = (IT*) it->context; s->calls++;
  /* 1st call: the scan itself. 2nd call: hash.md5 walking the blocks. */
  if (s->flaky && s->calls == 2) { it->last_error = ERROR_BLOCK_NOT_READY; return NULL; }
  it->last_error = ERROR_SUCCESS; return &s->b;
}
static YR_MEMORY_BLOCK* next(YR_MEMORY_BLOCK_ITERATOR* it) { it->last_error = ERROR_SUCCESS; return NULL; }
static int cb(YR_SCAN_CONTEXT* c, int msg, void* d, void* u)
{ if (msg == CALLBACK_MSG_RULE_MATCHING) printf("  match %s\n", ((YR_RULE*) d)->identifier); return CALLBACK_CONTINUE; }
static void run(YR_RULES* rules, int flaky)
{
  YR_SCANNER* sc; IT s; YR_MEMORY_BLOCK_ITERATOR it;
  memset(&s, 0, sizeof s); memset(&it, 0, sizeof it);
  s.b.base = 0; s.b.size = 9; s.b.context = (void*) "xxxxxYARA"; s.b.fetch_data = fetch; s.flaky = flaky;
  it.context = &s; it.first = first; it.next = next;
  yr_scanner_create(rules, &sc); yr_scanner_set_callback(sc, cb, NULL);
  printf("%s iterator: result %d\n", flaky ? "flaky" : "steady", yr_scanner_scan_mem_blocks(sc, &it));
  yr_scanner_destroy(sc);
}
int main()
{
  YR_COMPILER* comp; YR_RULES* rules;
  yr_initialize(); yr_compiler_create(&comp);
  if (yr_compiler_add_string(comp, "import \"hash\" rule h { condition: hash.md5(0, 5) != \"x\" }", NULL)) return 2;
  yr_compiler_get_rules(comp, &rules);
  run(rules, 0); run(rules, 1);
  return 0;
}

/* A scan suspended with ERROR_BLOCK_NOT_READY keeps its matches notebook so that it can be
   resumed; if the scanner is destroyed instead of resumed, nobody frees the notebook. */
#include <stdio.h>
#include <string.h>
#include <yara.h>

static uint8_t DATA[64] = "xxxxabcdxxxxabcdxxxx";
static YR_MEMORY_BLOCK blk;
static int calls = 0;
static const uint8_t* fetch(YR_MEMORY_BLOCK* b) { return DATA; }
static YR_MEMORY_BLOCK* first(YR_MEMORY_BLOCK_ITERATOR* it)
{
  blk.size = sizeof(DATA); blk.base = 0; blk.context = NULL; blk.fetch_data = fetch;
  it->last_error = ERROR_SUCCESS;
  return &blk;
}
static YR_MEMORY_BLOCK* next(YR_MEMORY_BLOCK_ITERATOR* it)
{
  it->last_error = ERROR_BLOCK_NOT_READY;   /* the second block is not there yet */
  return NULL;
}
static int cb(YR_SCAN_CONTEXT* c, int m, void* d, void* u) { return CALLBACK_CONTINUE; }

int main()
{
  YR_COMPILER* comp; YR_RULES* rules; YR_SCANNER* sc;
  YR_MEMORY_BLOCK_ITERATOR it = {NULL, first, next, NULL, ERROR_SUCCESS};
  yr_initialize();
  yr_compiler_create(&comp);
  yr_compiler_add_string(comp, "rule r { strings: $a = \"abcd\" condition: $a }", NULL);
  yr_compiler_get_rules(comp, &rules);
  yr_scanner_create(rules, &sc);
  yr_scanner_set_callback(sc, cb, NULL);
  int r = yr_scanner_scan_mem_blocks(sc, &it);
  printf("scan result %d (ERROR_BLOCK_NOT_READY=%d)\n", r, ERROR_BLOCK_NOT_READY);
  yr_scanner_destroy(sc);          /* abandoned instead of resumed */
  yr_rules_destroy(rules);
  yr_compiler_destroy(comp);
  yr_finalize();
  return 0;
}

/* R10.2 / R10.3 fixtures */
#define NULL ((void*) 0)
typedef struct YR_SCAN_CONTEXT { int x; void* re_fiber_pool; } YR_SCAN_CONTEXT;
typedef struct RE_FIBER { const unsigned char* ip; int sp; int rc; struct RE_FIBER* prev; struct RE_FIBER* next; } RE_FIBER;
typedef struct { RE_FIBER* head; RE_FIBER* tail; } RE_FIBER_LIST;
void yr_modules_unload_all(YR_SCAN_CONTEXT* c);
void yr_arena_release(void* a); void yr_notebook_destroy(void* n);
int _yr_re_fiber_create(void* pool, RE_FIBER** f);
void _yr_re_fiber_kill_all(RE_FIBER_LIST* l, void* pool);
int step(void);
#define FAIL_ON_ERROR(x) { int __error = (x); if (__error != 0) return __error; }

#define OP_HALT 255
int yr_execute_code(YR_SCAN_CONTEXT* context)
{
  const unsigned char* ip = 0; unsigned char opcode; int stop = 0, result = 0;
  while (!stop)
  {
    opcode = *ip;
    if (opcode == 7) return 31;          /* R10.2: leaves without unloading */
    switch (opcode)
    {
    case OP_HALT: stop = 1; break;
    default: stop = 1;
    }
  }
  yr_arena_release(NULL); yr_notebook_destroy(NULL);
  yr_modules_unload_all(context);
  return result;
}

int yr_re_exec(YR_SCAN_CONTEXT* context)
{
  RE_FIBER_LIST fibers; RE_FIBER* fiber;
  FAIL_ON_ERROR(_yr_re_fiber_create(&context->re_fiber_pool, &fiber));
  fibers.head = fiber;
  FAIL_ON_ERROR(step());                 /* R10.3: returns with a live fiber */
  _yr_re_fiber_kill_all(&fibers, &context->re_fiber_pool);
  return 0;
}

/* Positive fixture for C10 (R10.1, R10.2, R10.3). Parsed by yrx only. */
typedef unsigned long size_t;
#define NULL ((void*) 0)
#define ERROR_SUCCESS 0
#define ERROR_BLOCK_NOT_READY 61
typedef struct YR_ITER { int last_error; } YR_ITER;
typedef struct YR_SCAN_CONTEXT { long entry_point; long file_size; int hits; int flags; YR_ITER* iterator; } YR_SCAN_CONTEXT;
int yr_execute_code(YR_SCAN_CONTEXT* c);
void yr_modules_unload_all(YR_SCAN_CONTEXT* c);
static void scan_block(YR_SCAN_CONTEXT* c) { c->hits++; }      /* R10.1: never reset */

int yr_scanner_scan_mem_blocks(YR_SCAN_CONTEXT* scanner, YR_ITER* iterator)
{
  scanner->iterator = iterator;
  if (iterator->last_error == ERROR_BLOCK_NOT_READY)
  {
  }
  else
  {
    scanner->entry_point = -1;          /* clean: reset at fresh start */
  }
  scan_block(scanner);
  scanner->file_size = 10;              /* clean: assigned before evaluation */
  return yr_execute_code(scanner);
}

int yr_execute_code_impl(YR_SCAN_CONTEXT* context) { return 0; }

/* R10.5: allocation extent vs reset extent */
typedef struct YR_RULES { int num_rules; int num_strings; } YR_RULES;
typedef struct YR_SCANNER { YR_RULES* rules; unsigned long* flags_bits; unsigned long* disabled; } YR_SCANNER;
void* yr_calloc(size_t n, size_t s);
void* memset(void*, int, size_t);
#define BITS(n) (((n) -1) / 64 + 1)
int create(YR_RULES* rules, YR_SCANNER* new_scanner)
{
  new_scanner->rules = rules;
  new_scanner->flags_bits = (unsigned long*) yr_calloc(sizeof(unsigned long), BITS(rules->num_rules));
  new_scanner->disabled = (unsigned long*) yr_calloc(sizeof(unsigned long), BITS(rules->num_strings));
  return 0;
}
void clean_matches(YR_SCANNER* scanner)
{
  memset(scanner->flags_bits, 0, sizeof(unsigned long) * BITS(scanner->rules->num_rules));
  memset(scanner->disabled, 0, sizeof(unsigned long) * BITS(scanner->rules->num_rules));
}

/* Positive fixture for C10 (R10.1, R10.2, R10.3). Parsed by yrx only. */
typedef unsigned long size_t;
#define NULL ((void*) 0)
#define ERROR_SUCCESS 0
#define ERROR_BLOCK_NOT_READY 61
typedef struct YR_ITER { int last_error; } YR_ITER;
typedef struct YR_SCAN_CONTEXT { long entry_point; long file_size; int hits; int flags; YR_ITER* iterator; } YR_SCAN_CONTEXT;
int yr_execute_code(YR_SCAN_CONTEXT* c);
void yr_modules_unload_all(YR_SCAN_CONTEXT* c);
static void scan_block(YR_SCAN_CONTEXT* c) { c->hits++; }      /* R10.1: never reset */

int yr_scanner_scan_mem_blocks(YR_SCAN_CONTEXT* scanner, YR_ITER* iterator)
{
  scanner->iterator = iterator;
  if (iterator->last_error == ERROR_BLOCK_NOT_READY)
  {
  }
  else
  {
    scanner->entry_point = -1;          /* clean: reset at fresh start */
  }
  scan_block(scanner);
  scanner->file_size = 10;              /* clean: assigned before evaluation */
  return yr_execute_code(scanner);
}

int yr_execute_code_impl(YR_SCAN_CONTEXT* context) { return 0; }

/* Positive fixture for C05 (R5.1, R5.2, R5.3). Parsed by yrx only. */
#define NULL ((void*) 0)
#define EOL ((unsigned long) -1)
#define YR_NAMESPACES_TABLE 0
#define YR_RULES_TABLE 1
#define YR_STRINGS_TABLE 2
typedef unsigned int uint32_t;
typedef struct YR_ARENA YR_ARENA;
typedef struct YR_ARENA_REF { uint32_t buffer_id; uint32_t offset; } YR_ARENA_REF;
typedef struct YR_HASH_TABLE YR_HASH_TABLE;
typedef struct YR_NAMESPACE { const char* name; uint32_t idx; } YR_NAMESPACE;
typedef struct YR_RULE { const char* identifier; YR_NAMESPACE* ns; } YR_RULE;
typedef struct YR_STRING { uint32_t idx; } YR_STRING;
typedef struct YR_SUMMARY { uint32_t num_rules, num_strings, num_namespaces; } YR_SUMMARY;
typedef struct _YR_COMPILER { YR_ARENA* arena; uint32_t current_rule_idx, next_rule_idx, current_string_idx;
  uint32_t num_namespaces, current_namespace_idx; YR_HASH_TABLE* rules_table;
  YR_HASH_TABLE* wildcard_identifiers_table; YR_HASH_TABLE* objects_table; } YR_COMPILER;
int yr_arena_allocate_struct(YR_ARENA*, uint32_t, unsigned long, YR_ARENA_REF*, ...);
void* yr_arena_ref_to_ptr(YR_ARENA*, YR_ARENA_REF*);
void* yr_arena_get_ptr(YR_ARENA*, uint32_t, uint32_t);
int yr_parser_emit_with_arg(void*, int, long, void*, void*);
uint32_t yr_hash_table_lookup_uint32(YR_HASH_TABLE*, const char*, const char*);
int yr_hash_table_add_uint32(YR_HASH_TABLE*, const char*, const char*, uint32_t);
int strncmp(const char*, const char*, unsigned long);
unsigned long strlen(const char*);

void fill_summary(YR_COMPILER* compiler, YR_SUMMARY* summary)
{
  summary->num_namespaces = compiler->num_namespaces;
  summary->num_rules = compiler->next_rule_idx;
  summary->num_strings = compiler->current_string_idx;
}

int set_namespace(YR_COMPILER* compiler)      /* R5.1: idx taken from the wrong variable */
{
  YR_ARENA_REF ref;
  int r = yr_arena_allocate_struct(compiler->arena, YR_NAMESPACES_TABLE, sizeof(YR_NAMESPACE), &ref, EOL);
  if (r != 0) return r;
  YR_NAMESPACE* ns = (YR_NAMESPACE*) yr_arena_ref_to_ptr(compiler->arena, &ref);
  ns->idx = compiler->current_namespace_idx;
  compiler->current_namespace_idx = compiler->num_namespaces;
  compiler->num_namespaces++;
  return 0;
}

int declare_rule(YR_COMPILER* compiler, const char* identifier)
{
  YR_ARENA_REF ref;
  int r = yr_arena_allocate_struct(compiler->arena, YR_RULES_TABLE, sizeof(YR_RULE), &ref, EOL);
  if (r != 0) return r;
  compiler->current_rule_idx = compiler->next_rule_idx;
  compiler->next_rule_idx++;
  /* R5.3: the rule table written without a namespace */
  return yr_hash_table_add_uint32(compiler->rules_table, identifier, NULL, compiler->current_rule_idx);
}

int write_string(YR_COMPILER* compiler)
{
  YR_ARENA_REF ref;
  int r = yr_arena_allocate_struct(compiler->arena, YR_STRINGS_TABLE, sizeof(YR_STRING), &ref, EOL);
  if (r != 0) return r;
  YR_STRING* s = (YR_STRING*) yr_arena_ref_to_ptr(compiler->arena, &ref);
  s->idx = compiler->current_string_idx;
  compiler->current_string_idx++;
  return 0;
}

int pushes_for_rules(YR_COMPILER* compiler, void* sc, const char* prefix, YR_NAMESPACE* ns)   /* R5.2 */
{
  YR_RULE* rule = yr_arena_get_ptr(compiler->arena, YR_RULES_TABLE, 0);
  for (uint32_t i = 0; i <= compiler->current_rule_idx; i++)
  {
    if (strncmp(prefix, rule->identifier, strlen(prefix)) == 0)
    {
      uint32_t rule_idx = yr_hash_table_lookup_uint32(compiler->rules_table, rule->identifier, ns->name);
      if (rule_idx != 0xFFFFFFFF)
        yr_parser_emit_with_arg(sc, 1, rule_idx, NULL, NULL);
    }
    rule++;
  }
  return 0;
}

int pushes_for_rules_ok(YR_COMPILER* compiler, void* sc, const char* prefix, YR_NAMESPACE* ns)
{
  YR_RULE* rule = yr_arena_get_ptr(compiler->arena, YR_RULES_TABLE, 0);
  for (uint32_t i = 0; i <= compiler->current_rule_idx; i++, rule++)
  {
    if (rule->ns != ns)
      continue;
    if (strncmp(prefix, rule->identifier, strlen(prefix)) == 0)
      yr_parser_emit_with_arg(sc, 1, i, NULL, NULL);
  }
  return 0;
}

/* R5.4: the pool dedup table keyed by a digest instead of the data */
unsigned yr_hash_table_lookup_uint32_raw_key(void* t, const void* k, unsigned long kl, const char* ns);
int yr_hash_table_add_uint32_raw_key(void* t, const void* k, unsigned long kl, const char* ns, unsigned v);
int yr_arena_write_data(void* arena, int buf, const void* data, unsigned long len, void* ref);
unsigned yr_hash(unsigned seed, const void* d, unsigned long n);
int store_data_bad(void* arena, void* table, const void* data, unsigned long len, unsigned* ref)
{
  unsigned key[2] = {(unsigned) len, yr_hash(0, data, len)};
  unsigned off = yr_hash_table_lookup_uint32_raw_key(table, key, sizeof(key), 0);
  if (off == 0xffffffff)
  {
    yr_arena_write_data(arena, 1, data, len, ref);
    yr_hash_table_add_uint32_raw_key(table, key, sizeof(key), 0, *ref);
  }
  return 0;
}
int store_data_good(void* arena, void* table, const void* data, unsigned long len, unsigned* ref)
{
  unsigned off = yr_hash_table_lookup_uint32_raw_key(table, data, len, 0);
  if (off == 0xffffffff)
  {
    yr_arena_write_data(arena, 1, data, len, ref);
    yr_hash_table_add_uint32_raw_key(table, data, len, 0, *ref);
  }
  return 0;
}

/* C03 fixtures: a writer and a reader of a tiny bytecode.  MASKED_LITERAL is
   written as 1+2 bytes but skipped as 2; JUMP is emitted but has no executor
   case; RE_NODE_STAR is created but _yr_re_emit has no case for it. */
typedef unsigned char uint8_t;
typedef unsigned short uint16_t;
typedef short int16_t;
typedef unsigned long size_t;
#define YR_RE_CODE_SECTION 7
#define RE_NODE_LITERAL 1
#define RE_NODE_MASKED_LITERAL 2
#define RE_NODE_STAR 3
#define RE_OPCODE_LITERAL 0xA2
#define RE_OPCODE_MASKED_LITERAL 0xA4
#define RE_OPCODE_JUMP 0xC2
#define RE_OPCODE_MATCH 0xAD
typedef struct { int type; int value; int mask; } RE_NODE;
typedef struct { void* arena; } RE_EMIT_CONTEXT;
int yr_arena_write_data(void* arena, int section, const void* data, size_t size, void* ref);
RE_NODE* yr_re_node_create(int type);
uint16_t yr_unaligned_u16(const void* p);

int _yr_emit_inst(RE_EMIT_CONTEXT* c, uint8_t opcode, void* ref)
{
  return yr_arena_write_data(c->arena, YR_RE_CODE_SECTION, &opcode, sizeof(uint8_t), ref);
}
int _yr_emit_inst_arg_uint8(RE_EMIT_CONTEXT* c, uint8_t opcode, uint8_t argument, void* ref, void* aref)
{
  yr_arena_write_data(c->arena, YR_RE_CODE_SECTION, &opcode, sizeof(uint8_t), ref);
  return yr_arena_write_data(c->arena, YR_RE_CODE_SECTION, &argument, sizeof(uint8_t), aref);
}
int _yr_emit_inst_arg_uint16(RE_EMIT_CONTEXT* c, uint8_t opcode, uint16_t argument, void* ref, void* aref)
{
  yr_arena_write_data(c->arena, YR_RE_CODE_SECTION, &opcode, sizeof(uint8_t), ref);
  return yr_arena_write_data(c->arena, YR_RE_CODE_SECTION, &argument, sizeof(uint16_t), aref);
}
int _yr_emit_inst_arg_int16(RE_EMIT_CONTEXT* c, uint8_t opcode, int16_t argument, void* ref, void* aref)
{
  yr_arena_write_data(c->arena, YR_RE_CODE_SECTION, &opcode, sizeof(uint8_t), ref);
  return yr_arena_write_data(c->arena, YR_RE_CODE_SECTION, &argument, sizeof(int16_t), aref);
}

RE_NODE* parse(int k)
{
  if (k == 0) return yr_re_node_create(RE_NODE_LITERAL);
  if (k == 1) return yr_re_node_create(RE_NODE_MASKED_LITERAL);
  return yr_re_node_create(RE_NODE_STAR);
}

static int _yr_re_emit(RE_EMIT_CONTEXT* c, RE_NODE* re_node)
{
  switch (re_node->type)
  {
  case RE_NODE_LITERAL:
    _yr_emit_inst_arg_uint8(c, RE_OPCODE_LITERAL, re_node->value, 0, 0);
    break;
  case RE_NODE_MASKED_LITERAL:
    _yr_emit_inst_arg_uint16(c, RE_OPCODE_MASKED_LITERAL, re_node->mask << 8 | re_node->value, 0, 0);
    _yr_emit_inst_arg_int16(c, RE_OPCODE_JUMP, 0, 0, 0);
    break;
  }
  return _yr_emit_inst(c, RE_OPCODE_MATCH, 0);
}

int yr_re_exec(const uint8_t* code, const uint8_t* input)
{
  const uint8_t* ip = code;
  for (;;)
  {
    switch (*ip)
    {
    case RE_OPCODE_LITERAL:
      if (*input != *(ip + 1)) return 0;
      ip += 2;
      break;
    case RE_OPCODE_MASKED_LITERAL:
      if ((*input & (yr_unaligned_u16(ip + 1) >> 8)) != (yr_unaligned_u16(ip + 1) & 0xFF)) return 0;
      ip += 2;
      break;
    case RE_OPCODE_MATCH:
      return 1;
    }
    input++;
  }
}

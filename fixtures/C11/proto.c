/* Positive fixture for C11 (R11.1-R11.4). Parsed by yrx only. */
#define NULL ((void*) 0)
typedef unsigned long YR_BITMASK;
#define yr_bitmask_is_set(bm, i) ((bm)[(i) / 64] & (1UL << ((i) % 64)))
#define yr_bitmask_is_not_set(bm, i) (!yr_bitmask_is_set(bm, i))
#define yr_bitmask_set(bm, i) ((bm)[(i) / 64] |= (1UL << ((i) % 64)))
#define RULE_FLAGS_PRIVATE 1
#define RULE_FLAGS_NULL 4
#define RULE_IS_PRIVATE(x) (((x)->flags) & RULE_FLAGS_PRIVATE)
#define RULE_IS_NULL(x) (((x)->flags) & RULE_FLAGS_NULL)
#define CALLBACK_MSG_RULE_MATCHING 1
#define CALLBACK_MSG_RULE_NOT_MATCHING 2
#define CALLBACK_MSG_SCAN_FINISHED 3
#define CALLBACK_MSG_IMPORT_MODULE 4
#define CALLBACK_MSG_MODULE_IMPORTED 5
#define CALLBACK_CONTINUE 0
#define CALLBACK_ABORT 1
#define CALLBACK_ERROR 2
#define ERROR_SUCCESS 0
#define ERROR_CALLBACK_ERROR 28
#define SCAN_FLAGS_REPORT_RULES_MATCHING 8
#define SCAN_FLAGS_REPORT_RULES_NOT_MATCHING 16
struct YR_SCAN_CONTEXT;
typedef int (*YR_CALLBACK_FUNC)(struct YR_SCAN_CONTEXT* c, int msg, void* data, void* ud);
typedef struct { int idx; } YR_NAMESPACE;
typedef struct YR_RULE { int flags; YR_NAMESPACE* ns; } YR_RULE;
typedef struct YR_RULES { YR_RULE* rules_table; } YR_RULES;
typedef struct YR_SCAN_CONTEXT { int flags; void* user_data; YR_RULES* rules; YR_CALLBACK_FUNC callback;
  YR_BITMASK* rule_matches_flags; YR_BITMASK* ns_unsatisfied_flags; } YR_SCAN_CONTEXT;

void stray(YR_SCAN_CONTEXT* scanner)      /* R11.1: second SCAN_FINISHED site, wrong emitter */
{
  scanner->callback(scanner, CALLBACK_MSG_SCAN_FINISHED, NULL, scanner->user_data);
  yr_bitmask_set(scanner->rule_matches_flags, 3);        /* R11.4 */
}

int yr_scanner_scan_mem_blocks(YR_SCAN_CONTEXT* scanner)
{
  YR_RULES* rules = scanner->rules; YR_RULE* rule; int i, result = ERROR_SUCCESS;
  for (i = 0, rule = rules->rules_table; !RULE_IS_NULL(rule); i++, rule++)
  {
    int message = 0;
    if (yr_bitmask_is_set(scanner->rule_matches_flags, i))       /* R11.2: namespace ignored */
    {
      if (scanner->flags & SCAN_FLAGS_REPORT_RULES_MATCHING)
        message = CALLBACK_MSG_RULE_MATCHING;
    }
    else
    {
      if (scanner->flags & SCAN_FLAGS_REPORT_RULES_NOT_MATCHING)
        message = CALLBACK_MSG_RULE_NOT_MATCHING;
    }
    if (message != 0)                                             /* R11.2: private reported */
    {
      switch (scanner->callback(scanner, message, rule, scanner->user_data))
      {
      case CALLBACK_ABORT:
        result = ERROR_SUCCESS;
        break;                                                    /* R11.3: falls to SCAN_FINISHED */
      case CALLBACK_ERROR:
        result = ERROR_CALLBACK_ERROR;
        goto _exit;
      }
    }
  }
  scanner->callback(scanner, CALLBACK_MSG_SCAN_FINISHED, NULL, scanner->user_data);
_exit:
  return result;
}

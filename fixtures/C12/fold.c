/* Positive fixture for C12: each construct below must be REPORTED by the
 * named rule on every run (and the clean sibling discharged). Never built
 * into yara; parsed by yrx only. */
typedef long long int64_t;
typedef unsigned long size_t;
#define YR_UNDEFINED 0xFFFABADAFABADAFFLL
#define IS_UNDEFINED(x) ((size_t)(x) == (size_t) YR_UNDEFINED)
#define OPERATION(operator, op1, op2) \
  (IS_UNDEFINED(op1) || IS_UNDEFINED(op2)) ? (YR_UNDEFINED) : (op1 operator op2)
#define INT64_MIN (-9223372036854775807LL - 1)
#define OP_INT_BEGIN 100
#define _OP_ADD 6
#define _OP_DIV 9
#define OP_INT_ADD (OP_INT_BEGIN + _OP_ADD)
#define OP_INT_DIV (OP_INT_BEGIN + _OP_DIV)
#define OP_BITWISE_XOR 5
#define OP_BITWISE_OR 4
#define OP_OBJ_LOAD 20

typedef struct YR_OBJECT { int type; union { int64_t i; } value; } YR_OBJECT;
typedef struct { int type; union { int64_t integer; YR_OBJECT* object; } value; } YR_EXPRESSION;
typedef union { YR_EXPRESSION expression; int64_t integer; } YYSTYPE;
typedef union { int64_t i; double d; } YR_VALUE;
typedef struct { void* objects_table; } YR_SCAN_CONTEXT;

int yr_parser_emit(void* s, int op, void* ref);
int yr_parser_emit_push_const(void* s, int64_t v);
int yr_parser_reduce_operation(void* s, const char* op, YR_EXPRESSION a, YR_EXPRESSION b);
void* yr_hash_table_lookup(void* t, const char* k, const char* ns);

static int _yr_parser_operator_to_opcode(const char* op, int t)
{
  int opcode = OP_INT_BEGIN;
  if (op[0] == '+') { opcode += _OP_ADD; }
  else if (op[0] == '\\') { opcode += _OP_DIV; }
  return opcode;
}

int yara_yyparse(void* yyscanner)
{
  YYSTYPE yyval;
  YYSTYPE* yyvsp;
  int yyn;
  switch (yyn)
  {
  case 1: /* R12.1: '^' folded with '|' */
    yr_parser_emit(yyscanner, OP_BITWISE_XOR, 0);
    yyval.expression.value.integer = OPERATION(|, yyvsp[-2].expression.value.integer, yyvsp[0].expression.value.integer);
    break;
  case 2: /* clean sibling */
    yr_parser_emit(yyscanner, OP_BITWISE_OR, 0);
    yyval.expression.value.integer = OPERATION(|, yyvsp[-2].expression.value.integer, yyvsp[0].expression.value.integer);
    break;
  case 3: /* R12.2: divides without the INT64_MIN / -1 guard of the VM */
    yr_parser_reduce_operation(yyscanner, "\\", yyvsp[-2].expression, yyvsp[0].expression);
    if (yyvsp[0].expression.value.integer != 0)
      yyval.expression.value.integer = OPERATION(/, yyvsp[-2].expression.value.integer, yyvsp[0].expression.value.integer);
    break;
  case 4: /* R12.3: run-time object value copied at compile time;
             R12.6: and pushed as a constant */
    yyval.expression.value.integer = yyvsp[0].expression.value.object->value.i;
    yr_parser_emit_push_const(yyscanner, yyvsp[0].expression.value.object->value.i);
    break;
  }
  return 0;
}

int yr_execute_code(YR_SCAN_CONTEXT* context)
{
  YR_VALUE r1, r2;
  struct { int sp; YR_VALUE items[8]; } stack;
#define pop(x) x = stack.items[--stack.sp]
  int opcode;
  switch (opcode)
  {
  case OP_BITWISE_XOR: pop(r2); pop(r1); r1.i = r1.i ^ r2.i; break;
  case OP_BITWISE_OR: pop(r2); pop(r1); r1.i = r1.i | r2.i; break;
  case OP_INT_DIV:
    pop(r2); pop(r1);
    if (r2.i == 0 || (r1.i == INT64_MIN && r2.i == -1))
      r1.i = YR_UNDEFINED;
    else
      r1.i = r1.i / r2.i;
    break;
  case OP_OBJ_LOAD:
    yr_hash_table_lookup(context->objects_table, "x", 0);
    break;
  }
  return 0;
}

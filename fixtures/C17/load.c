/* Positive fixture for C17 (R17.1-R17.3, R17.8: hdr fields never consulted). Parsed by yrx only. */
typedef unsigned long size_t; typedef unsigned int uint32_t; typedef unsigned char uint8_t;
#define NULL ((void*) 0)
typedef struct _YR_HDR { uint8_t magic[4]; uint8_t version; uint8_t num_buffers; } YR_HDR;
typedef struct { uint32_t buffer_id; uint32_t offset; } YR_ARENA_REF;
typedef struct { uint8_t* data; size_t size; size_t used; } YR_ARENA_BUFFER;
typedef struct { uint32_t num_buffers; YR_ARENA_BUFFER buffers[16]; } YR_ARENA;
size_t yr_stream_read(void* p, size_t sz, size_t n, void* stream);
void* memcpy(void* d, const void* s, size_t n);
void* yr_arena_ref_to_ptr(YR_ARENA* a, YR_ARENA_REF* r);

int yr_arena_load_stream(void* stream, YR_ARENA* arena)
{
  YR_HDR hdr;
  yr_stream_read(&hdr, sizeof(hdr), 1, stream);            /* R17.1: count not checked */
  YR_ARENA_REF reloc_ref;
  while (yr_stream_read(&reloc_ref, sizeof(reloc_ref), 1, stream) == 1)   /* R17.3 */
  {
    YR_ARENA_BUFFER* b = &arena->buffers[reloc_ref.buffer_id];
    if (reloc_ref.offset > b->used - sizeof(void*))        /* R17.2: underflow, buffer_id unchecked */
      return 7;
    YR_ARENA_REF ref;
    memcpy(&ref, b->data + reloc_ref.offset, sizeof(ref));
    void* p = yr_arena_ref_to_ptr(arena, &ref);            /* R17.2: ref unchecked */
    memcpy(arena->buffers[reloc_ref.buffer_id].data + reloc_ref.offset, &p, sizeof(p));
  }
  return 0;
}

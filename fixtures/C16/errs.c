/* Positive fixture for C16 (R16.1-R16.5). Parsed by yrx only. */
typedef unsigned long size_t;
#define NULL ((void*) 0)
#define ERROR_SUCCESS 0
#define ERROR_INSUFFICIENT_MEMORY 1
#define FAIL_ON_ERROR(x) { int __error = (x); if (__error != ERROR_SUCCESS) return __error; }
void* yr_malloc(size_t n);
void* yr_realloc(void* p, size_t n);
void yr_free(void* p);
void* malloc(size_t n);
void* memcpy(void* d, const void* s, size_t n);
struct box { char* data; size_t len; };

int grow(struct box* b, size_t n)      /* fallible (can return ERROR_INSUFFICIENT_MEMORY) */
{
  char* p = (char*) yr_malloc(n);
  if (p == NULL)
    return ERROR_INSUFFICIENT_MEMORY;
  b->data = p;
  b->len = n;
  return ERROR_SUCCESS;
}

int clean_user(struct box* b)          /* clean sibling for R16.1 */
{
  FAIL_ON_ERROR(grow(b, 10));
  return ERROR_SUCCESS;
}

int drops_error(struct box* b)         /* R16.1 */
{
  grow(b, 10);
  return ERROR_SUCCESS;
}

int unchecked(struct box* b, const char* src)   /* R16.2 */
{
  char* p = (char*) yr_malloc(16);
  memcpy(p, src, 16);
  b->data = p;
  return ERROR_SUCCESS;
}

int checked(struct box* b, const char* src)     /* clean sibling for R16.2 */
{
  char* p = (char*) yr_malloc(16);
  if (p == NULL)
    return ERROR_INSUFFICIENT_MEMORY;
  memcpy(p, src, 16);
  b->data = p;
  return ERROR_SUCCESS;
}

int realloc_self(struct box* b)        /* R16.3 */
{
  b->data = (char*) yr_realloc(b->data, b->len * 2);
  if (b->data == NULL)
    return ERROR_INSUFFICIENT_MEMORY;
  return ERROR_SUCCESS;
}

int leaks_on_error(struct box* b)      /* R16.4 */
{
  char* tmp = (char*) yr_malloc(32);
  if (tmp == NULL)
    return ERROR_INSUFFICIENT_MEMORY;
  FAIL_ON_ERROR(grow(b, 64));          /* returns with tmp still owned */
  yr_free(tmp);
  return ERROR_SUCCESS;
}

int no_leak(struct box* b)             /* clean sibling for R16.4 */
{
  char* tmp = (char*) yr_malloc(32);
  if (tmp == NULL)
    return ERROR_INSUFFICIENT_MEMORY;
  int r = grow(b, 64);
  yr_free(tmp);
  return r;
}

void* raw(size_t n)                    /* R16.5 */
{
  return malloc(n);
}

/* R16.6: reference counting */
typedef struct THING { int xrefs; } THING;
void thing_acquire(THING* t) { t->xrefs++; }
int thing_release(THING* t) { t->xrefs--; if (t->xrefs > 0) return 0; yr_free(t); return 0; }
int wrap_good(THING* t, int n)
{
  void* p;
  thing_acquire(t);
  p = yr_malloc(n);
  if (p == NULL)
  {
    thing_release(t);
    return ERROR_INSUFFICIENT_MEMORY;
  }
  yr_free(p);
  return ERROR_SUCCESS;
}
int wrap_bad(THING* t, int n)
{
  void* p;
  thing_acquire(t);
  p = yr_malloc(n);
  if (p == NULL)
    return ERROR_INSUFFICIENT_MEMORY;
  yr_free(p);
  return ERROR_SUCCESS;
}

/* R16.7: guard after use */
int guard_before_use(THING* t)
{
  if (t == NULL)
    return ERROR_INSUFFICIENT_MEMORY;
  return t->xrefs;
}
int guard_after_use(THING* t)
{
  int n = t->xrefs;
  if (t == NULL)
    return ERROR_INSUFFICIENT_MEMORY;
  return n;
}

/* R16.9: what an out-parameter holds is not released behind the caller's back */
int out_dangling(int** out)
{
  *out = (int*) yr_malloc(4);
  if (*out == NULL) return 1;
  if (grow((struct box*) 0, 4) != 0)
  {
    yr_free(*out);                 /* *out keeps pointing to the freed block */
    return 1;
  }
  return 0;
}

int out_reset(int** out)
{
  *out = (int*) yr_malloc(4);
  if (*out == NULL) return 1;
  if (grow((struct box*) 0, 4) != 0)
  {
    yr_free(*out);
    *out = NULL;
    return 1;
  }
  return 0;
}

/* R16.10: old value freed, replacement fails, field left dangling */
struct holder { char* text; };
int replace_text_bad(struct holder* h, size_t n)
{
  char* fresh;
  if (h->text != NULL) yr_free(h->text);
  fresh = (char*) yr_malloc(n);
  if (fresh == NULL) return 1;          /* h->text still points to the freed block */
  h->text = fresh;
  return 0;
}
int replace_text_good(struct holder* h, size_t n)
{
  if (h->text != NULL) yr_free(h->text);
  h->text = (char*) yr_malloc(n);
  if (h->text == NULL) return 1;
  return 0;
}

/* Positive fixture for C09 (R9.1-R9.3). Parsed by yrx only. */
typedef unsigned long size_t;
#define NULL ((void*) 0)
typedef struct { int dummy; } pthread_mutex_t;
int pthread_mutex_lock(pthread_mutex_t* m);
int pthread_mutex_unlock(pthread_mutex_t* m);
typedef struct YR_STRING { int flags; int idx; } YR_STRING;
typedef struct YR_RULES { YR_STRING* strings_table; int num_strings; } YR_RULES;
typedef struct YR_SCAN_CONTEXT { YR_RULES* rules; int hits; } YR_SCAN_CONTEXT;
static pthread_mutex_t exception_handler_mutex;
static int exception_handler_usecount = 0;
static int hit_counter = 0;                 /* R9.2: unprotected global */

static void clean_helper(YR_SCAN_CONTEXT* ctx) { ctx->hits++; }

static int verify(YR_SCAN_CONTEXT* ctx, YR_STRING* s)
{
  s->flags |= 4;                            /* R9.1: write to shared rule data */
  hit_counter++;                            /* R9.2 */
  clean_helper(ctx);
  return 0;
}

int yr_scanner_scan_mem(YR_SCAN_CONTEXT* ctx, const char* buf, size_t n)
{
  pthread_mutex_lock(&exception_handler_mutex);
  pthread_mutex_unlock(&exception_handler_mutex);
  exception_handler_usecount++;             /* R9.3: outside the mutex */
  if (n == 0)
    return 1;                               /* R9.3: leaves without the decrement */
  verify(ctx, &ctx->rules->strings_table[0]);
  pthread_mutex_lock(&exception_handler_mutex);
  exception_handler_usecount--;
  pthread_mutex_unlock(&exception_handler_mutex);
  return 0;
}

/* C02 fixture: the chain-gap predicate, once as it must be and once with the
   lower bound made strict (a gap of exactly gap_min is then rejected). */
typedef long int64_t;
typedef struct _S { struct _S* chained_to; int idx; int chain_gap_min; int chain_gap_max; } YR_STRING;
typedef struct _M { int64_t offset; int match_length; struct _M* next; } YR_MATCH;
typedef struct { YR_MATCH* head; } YR_MATCHES;
typedef struct { YR_MATCHES unconfirmed_matches[8]; } YR_SCAN_CONTEXT;

int confirm_good(YR_SCAN_CONTEXT* context, YR_STRING* string, int64_t match_offset)
{
  YR_MATCH* match = context->unconfirmed_matches[string->chained_to->idx].head;
  while (match != 0)
  {
    int64_t ending_offset = match->offset + match->match_length;
    if (ending_offset + string->chain_gap_max >= match_offset &&
        ending_offset + string->chain_gap_min <= match_offset)
      return 1;
    match = match->next;
  }
  return 0;
}

int confirm_bad(YR_SCAN_CONTEXT* context, YR_STRING* string, int64_t match_offset)
{
  YR_MATCH* match = context->unconfirmed_matches[string->chained_to->idx].head;
  while (match != 0)
  {
    int64_t ending_offset = match->offset + match->match_length;
    if (ending_offset + string->chain_gap_max >= match_offset &&
        ending_offset + string->chain_gap_min < match_offset)
      return 1;
    match = match->next;
  }
  return 0;
}

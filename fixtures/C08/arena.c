/* Positive fixture for C08 (R8.1-R8.6). Parsed by yrx only. */
typedef unsigned long size_t; typedef unsigned int uint32_t; typedef unsigned char uint8_t;
typedef long long int64_t;
#define NULL ((void*) 0)
#define EOL ((size_t) -1)
#define offsetof(t, f) __builtin_offsetof(t, f)
typedef struct { uint32_t buffer_id; uint32_t offset; } YR_ARENA_REF;
#define DECLARE_REFERENCE(type, name) union { type name; YR_ARENA_REF name##_; }
typedef struct { uint8_t* data; size_t size; size_t used; } YR_ARENA_BUFFER;
typedef struct YR_RELOC { uint32_t buffer_id; uint32_t offset; struct YR_RELOC* next; } YR_RELOC;
typedef struct { uint32_t num_buffers; YR_ARENA_BUFFER buffers[4]; YR_RELOC* reloc_list_head; } YR_ARENA;
typedef struct YR_THING { int flags; DECLARE_REFERENCE(const char*, name); DECLARE_REFERENCE(struct YR_THING*, next); } YR_THING;
typedef struct { char tag; int64_t wide; } PADDED;           /* 7 bytes of padding */
typedef struct { YR_ARENA* arena; YR_THING* things; int count; } YR_RULES;
enum { YR_THINGS_TABLE = 0, YR_SZ_POOL = 1, YR_CODE_SECTION = 2 };

int yr_arena_allocate_struct(YR_ARENA* a, uint32_t buf, size_t sz, YR_ARENA_REF* ref, ...);
int yr_arena_write_data(YR_ARENA* a, uint32_t buf, const void* d, size_t sz, YR_ARENA_REF* ref);
void* yr_arena_ref_to_ptr(YR_ARENA* a, YR_ARENA_REF* ref);
int yr_parser_emit_with_arg(void* s, uint8_t op, int64_t arg, void* r1, void* r2);
char* yr_strdup(const char* s);
void* yr_malloc(size_t n);
void* memcpy(void* d, const void* s, size_t n);
size_t yr_stream_write(const void* p, size_t sz, size_t n, void* stream);

int make_thing(YR_ARENA* arena, const char* heap_name, void* yyscanner)
{
  YR_ARENA_REF ref;
  /* R8.1: `next` is a reference field but is not registered */
  yr_arena_allocate_struct(arena, YR_THINGS_TABLE, sizeof(YR_THING), &ref,
                           offsetof(YR_THING, name), EOL);
  YR_THING* t = (YR_THING*) yr_arena_ref_to_ptr(arena, &ref);
  /* R8.3: heap pointer stored in a relocatable slot */
  t->name = yr_strdup(heap_name);
  /* clean store */
  t->next = (YR_THING*) yr_arena_ref_to_ptr(arena, &ref);
  /* R8.2: pointer smuggled into the bytecode as an integer */
  yr_parser_emit_with_arg(yyscanner, 1, (int64_t) t, NULL, NULL);
  /* R8.5: raw write into a struct buffer; padded record without memset */
  PADDED p;
  p.tag = 1; p.wide = 2;
  yr_arena_write_data(arena, YR_THINGS_TABLE, &p, sizeof(PADDED), NULL);
  return 0;
}

int yr_arena_save_stream(YR_ARENA* arena, void* stream)
{
  YR_RELOC* reloc = arena->reloc_list_head;
  while (reloc != NULL)
  {
    YR_ARENA_REF ref;
    memcpy(arena->buffers[reloc->buffer_id].data + reloc->offset, &ref, sizeof(ref));
    reloc = reloc->next;
  }
  /* R8.4: early return while the pointers are swapped out */
  if (yr_stream_write(arena->buffers[0].data, arena->buffers[0].used, 1, stream) != 1)
    return 58;
  reloc = arena->reloc_list_head;
  while (reloc != NULL)
  {
    void* reloc_ptr = NULL;
    memcpy(arena->buffers[reloc->buffer_id].data + reloc->offset, &reloc_ptr, sizeof(reloc_ptr));
    reloc = reloc->next;
  }
  return 0;
}

int yr_rules_from_arena(YR_ARENA* arena, YR_RULES** rules)
{
  YR_RULES* r = (YR_RULES*) yr_malloc(sizeof(YR_RULES));
  if (r == NULL) return 1;
  r->arena = arena;
  r->things = NULL;
  /* R8.6: r->count never assigned */
  *rules = r;
  return 0;
}

/* Positive fixture for C13 (R13.1, R13.3). Parsed by yrx only. */
#define NULL ((void*) 0)
typedef struct YR_MEMORY_BLOCK { long size; } YR_MEMORY_BLOCK;
typedef struct YR_MEMORY_BLOCK_ITERATOR { void* context;
  YR_MEMORY_BLOCK* (*first)(struct YR_MEMORY_BLOCK_ITERATOR* self);
  YR_MEMORY_BLOCK* (*next)(struct YR_MEMORY_BLOCK_ITERATOR* self); int last_error; } YR_MEMORY_BLOCK_ITERATOR;
typedef struct YR_SCAN_CONTEXT { YR_MEMORY_BLOCK_ITERATOR* iterator; } YR_SCAN_CONTEXT;
int yr_execute_code(YR_SCAN_CONTEXT* c) { return 0; }
int _yr_scanner_scan_mem_block(YR_SCAN_CONTEXT* c) { return 0; }

int yr_scanner_scan_mem_blocks(YR_SCAN_CONTEXT* s, YR_MEMORY_BLOCK_ITERATOR* it)
{
  YR_MEMORY_BLOCK* b = it->first(it);
  while (b != NULL) { _yr_scanner_scan_mem_block(s); b = it->next(it); }
  if (it->last_error != 0) return it->last_error;
  return yr_execute_code(s);
}

long total_size(YR_SCAN_CONTEXT* c)                  /* R13.3: ignores last_error */
{
  long n = 0; YR_MEMORY_BLOCK* b;
  for (b = c->iterator->first(c->iterator); b != NULL; b = c->iterator->next(c->iterator)) n += b->size;
  return n;
}

int shortcut(YR_SCAN_CONTEXT* c) { return yr_execute_code(c); }   /* R13.1: bypasses the funnel */

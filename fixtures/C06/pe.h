#pragma pack(push, 1)
typedef struct _HDR { unsigned short magic; unsigned int count; unsigned int table_offset; } HDR, *PHDR;
typedef struct _ITEM { unsigned int a; unsigned int b; } ITEM, *PITEM;
#pragma pack(pop)
typedef struct _PE { const unsigned char* data; unsigned long data_size; void* object; } PE;
#define fits_in_pe(pe, pointer, size) \
  ((unsigned long)(size) <= pe->data_size && (unsigned char*) (pointer) >= pe->data && \
   (unsigned char*) (pointer) <= pe->data + pe->data_size - (size))
#define struct_fits_in_pe(pe, pointer, struct_type) fits_in_pe(pe, pointer, sizeof(struct_type))
#define sloppy_fits_in_pe(pe, pointer, size) \
  ((unsigned long)(size) <= pe->data_size && (unsigned char*) (pointer) >= pe->data && \
   (unsigned char*) (pointer) <= pe->data + pe->data_size)

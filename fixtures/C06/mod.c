/* C06 fixtures: checked and unchecked use of file-format pointers, a bounds
   predicate whose upper bound forgets the size, module data used without a
   NULL test. */
#include "pe.h"
typedef struct YR_OBJECT { void* data; } YR_OBJECT;
void use(unsigned int);

void parse_checked(PE* pe, unsigned long offset)
{
  PHDR hdr = (PHDR) (pe->data + offset);
  if (!struct_fits_in_pe(pe, hdr, HDR))
    return;
  use(hdr->count);
}

void parse_unchecked(PE* pe, unsigned long offset)
{
  PHDR hdr = (PHDR) (pe->data + offset);
  use(hdr->count);
}

void parse_stale(PE* pe, unsigned long offset)
{
  PITEM item = (PITEM) (pe->data + offset);
  if (!struct_fits_in_pe(pe, item, ITEM))
    return;
  item = (PITEM) (pe->data + item->a);
  use(item->b);
}

#undef fits_in_pe
#define fits_in_pe sloppy_fits_in_pe
int sloppy(PE* pe, unsigned long offset)
{
  return fits_in_pe(pe, pe->data + offset, 8);
}

unsigned long module_fn_good(YR_OBJECT* module)
{
  PE* pe = (PE*) module->data;
  if (pe == 0)
    return 0;
  return pe->data_size;
}

unsigned long module_fn_bad(YR_OBJECT* module)
{
  PE* pe = (PE*) module->data;
  return pe->data_size;
}

/* R6.7: range predicate as a function */
int range_ok_bad(const void* base, unsigned long size, const void* ptr, unsigned long long n)
{
  return ptr >= base && ((const char*) ptr) + n <= ((const char*) base) + size;   /* n may wrap */
}
int range_ok_good(const void* base, unsigned long size, const void* ptr, unsigned long long n)
{
  return ptr >= base && n <= size && ((const char*) ptr) + n <= ((const char*) base) + size;
}

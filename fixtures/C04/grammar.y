%token _AND_ "<and>"
%token _OR_ "<or>"
%left _OR_
%left _AND_
%left '&'
%left '^'
%left '+' '-'
%right '~' UNARY_MINUS
%%
x: ;

/* Positive fixture for C04 (R4.1, R4.2, R4.3). Parsed by yrx only. */
typedef long long int64_t; typedef unsigned long long uint64_t;
typedef unsigned char uint8_t; typedef int int32_t; typedef unsigned int uint32_t;
typedef unsigned long size_t;
#define YR_UNDEFINED 0xFFFABADAFABADAFFLL
#define IS_UNDEFINED(x) ((size_t)(x) == (size_t) YR_UNDEFINED)
#define YR_CODE_SECTION 6
#define OP_INT_BEGIN 100
#define OP_INT_END 110
#define OP_DBL_BEGIN 120
#define OP_DBL_END 130
#define OP_STR_BEGIN 140
#define OP_STR_END 150
#define OP_AAA 1   /* emitted with 8 operand bytes, handler consumes 4: R4.2 */
#define OP_BBB 2   /* clean */
#define OP_CCC 3   /* emitted, no handler: R4.1 */
#define OP_DDD 4   /* reads operand before testing it: R4.3 */
#define OP_EEE 5   /* pushes false on the undefined path: R4.3 */
#define OP_FFF 7   /* clean sibling for R4.3 */

typedef union { int64_t i; double d; void* p; } YR_VALUE;
typedef struct { int sp; int capacity; YR_VALUE* items; } YR_STACK;
int yr_arena_write_data(void* a, int buf, const void* d, size_t sz, void* ref);
static void* arena;

int yr_parser_emit(void* s, uint8_t instruction, void* r)
{ return yr_arena_write_data(arena, YR_CODE_SECTION, &instruction, sizeof(uint8_t), r); }
int yr_parser_emit_with_arg(void* s, uint8_t instruction, int64_t a, void* r, void* r2)
{ int x = yr_arena_write_data(arena, YR_CODE_SECTION, &instruction, sizeof(uint8_t), r);
  if (x == 0) x = yr_arena_write_data(arena, YR_CODE_SECTION, &a, sizeof(int64_t), r2); return x; }
int yr_parser_emit_with_arg_int32(void* s, uint8_t instruction, int32_t a, void* r, void* r2)
{ int x = yr_arena_write_data(arena, YR_CODE_SECTION, &instruction, sizeof(uint8_t), r);
  if (x == 0) x = yr_arena_write_data(arena, YR_CODE_SECTION, &a, sizeof(int32_t), r2); return x; }
int yr_parser_emit_with_arg_double(void* s, uint8_t instruction, double a, void* r, void* r2)
{ int x = yr_arena_write_data(arena, YR_CODE_SECTION, &instruction, sizeof(uint8_t), r);
  if (x == 0) x = yr_arena_write_data(arena, YR_CODE_SECTION, &a, sizeof(double), r2); return x; }
int yr_parser_emit_with_arg_reloc(void* s, uint8_t instruction, void* a, void* r, void* r2)
{ int x = yr_arena_write_data(arena, YR_CODE_SECTION, &instruction, sizeof(uint8_t), r);
  if (x == 0) x = yr_arena_write_data(arena, YR_CODE_SECTION, &a, sizeof(void*), r2); return x; }
int yr_parser_emit_push_const(void* s, uint64_t argument)
{
  uint8_t opcode[9]; int opcode_len = 1;
  if (argument == YR_UNDEFINED) { opcode[0] = 20; }
  else if (argument <= 0xff) { opcode[0] = 21; opcode_len += sizeof(uint8_t); }
  else if (argument <= 0xffff) { opcode[0] = 22; opcode_len += 2; }
  else { opcode[0] = 23; opcode_len += sizeof(uint64_t); }
  return yr_arena_write_data(arena, YR_CODE_SECTION, opcode, opcode_len, 0);
}
static int _yr_parser_operator_to_opcode(const char* op, int t)
{
  int opcode = 0;
  switch (t) { case 1: opcode = OP_INT_BEGIN; break; case 2: opcode = OP_DBL_BEGIN; break;
               case 3: opcode = OP_STR_BEGIN; break; }
  if (op[0] == '+') opcode += 1; else if (op[0] == '-') opcode += 2;
  else if (op[0] == '*') opcode += 3; else if (op[0] == '<') opcode += 4;
  else if (op[0] == '>') opcode += 5; else if (op[0] == '=') opcode += 6;
  else if (op[0] == '!') opcode += 7; else if (op[0] == '\\') opcode += 8;
  return opcode;
}

int emit_sites(void* yyscanner)
{
  yr_parser_emit_with_arg(yyscanner, OP_AAA, 1, 0, 0);
  yr_parser_emit_with_arg_int32(yyscanner, OP_BBB, 1, 0, 0);
  yr_parser_emit(yyscanner, OP_CCC, 0);
  yr_parser_emit(yyscanner, OP_DDD, 0);
  yr_parser_emit(yyscanner, OP_EEE, 0);
  yr_parser_emit(yyscanner, OP_FFF, 0);
  return 0;
}

#define push(x) if (stack.sp < stack.capacity) { stack.items[stack.sp++] = (x); } \
  else { result = 1; stop = 1; break; }
#define pop(x) { x = stack.items[--stack.sp]; }
#define is_undef(x) IS_UNDEFINED((x).i)
#define ensure_defined(x) if (is_undef(x)) { r1.i = YR_UNDEFINED; push(r1); break; }

static const uint8_t* jmp_if(int condition, const uint8_t* ip)
{ int32_t off = 0; if (condition) { off = *(int32_t*) ip; off -= 1; } else { off = sizeof(int32_t); } return ip + off; }

int yr_execute_code(void* context)
{
  YR_VALUE r1, r2; YR_STACK stack; const uint8_t* ip; int stop = 0; int result = 0; uint8_t opcode;
  while (!stop)
  {
    opcode = *ip; ip++;
    switch (opcode)
    {
    case OP_AAA: r1.i = *(int32_t*) ip; ip += sizeof(uint32_t); push(r1); break;
    case OP_BBB: ip = jmp_if(r1.i == 0, ip); break;
    case OP_DDD: pop(r2); pop(r1); r1.i = r1.i + r2.i; push(r1); break;
    case OP_EEE: pop(r2); pop(r1);
      if (is_undef(r1) || is_undef(r2)) r1.i = 0; else r1.i = r1.i < r2.i;
      push(r1); break;
    case OP_FFF: pop(r2); pop(r1); ensure_defined(r2); ensure_defined(r1);
      r1.i = r1.i < r2.i; push(r1); break;
    }
    if (result) stop = 1;
  }
  return result;
}

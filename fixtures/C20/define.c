/* Positive fixture for C20 (R20.1). Parsed by yrx only: a rules-level define
 * that stores before checking the type. */
#define NULL ((void*) 0)
#define ERROR_SUCCESS 0
#define ERROR_INVALID_ARGUMENT 29
#define ERROR_INVALID_EXTERNAL_VARIABLE_TYPE 48
#define EXTERNAL_VARIABLE_TYPE_NULL 0
#define EXTERNAL_VARIABLE_TYPE_FLOAT 1
#define EXTERNAL_VARIABLE_TYPE_INTEGER 2
#define EXTERNAL_VARIABLE_TYPE_BOOLEAN 3
#define EXTERNAL_VARIABLE_TYPE_STRING 4
#define EXTERNAL_VARIABLE_TYPE_MALLOC_STRING 5
#define EXTERNAL_VARIABLE_IS_NULL(x) ((x) != NULL ? (x)->type == EXTERNAL_VARIABLE_TYPE_NULL : 1)
typedef long long int64_t;
typedef struct YR_EXTERNAL_VARIABLE { int type; union { int64_t i; double f; char* s; } value; const char* identifier; } YR_EXTERNAL_VARIABLE;
typedef struct YR_RULES { YR_EXTERNAL_VARIABLE* ext_vars_table; } YR_RULES;
int strcmp(const char* a, const char* b);
void yr_free(void* p); char* yr_strdup(const char* s);

int yr_rules_define_integer_variable(YR_RULES* rules, const char* identifier, int64_t value)
{
  YR_EXTERNAL_VARIABLE* external = rules->ext_vars_table;
  while (!EXTERNAL_VARIABLE_IS_NULL(external))
  {
    if (strcmp(external->identifier, identifier) == 0)
    {
      external->value.i = value;                       /* stored before the check */
      if (external->type != EXTERNAL_VARIABLE_TYPE_INTEGER)
        return ERROR_INVALID_EXTERNAL_VARIABLE_TYPE;
      return ERROR_SUCCESS;
    }
    external++;
  }
  return ERROR_INVALID_ARGUMENT;
}
#define DEF(name, T, m, vt) int name(YR_RULES* rules, const char* identifier, vt value) { \
  YR_EXTERNAL_VARIABLE* external = rules->ext_vars_table; \
  while (!EXTERNAL_VARIABLE_IS_NULL(external)) { \
    if (strcmp(external->identifier, identifier) == 0) { \
      if (external->type != T) return ERROR_INVALID_EXTERNAL_VARIABLE_TYPE; \
      external->value.m = value; return ERROR_SUCCESS; } \
    external++; } \
  return ERROR_INVALID_ARGUMENT; }
DEF(yr_rules_define_boolean_variable, EXTERNAL_VARIABLE_TYPE_BOOLEAN, i, int)
DEF(yr_rules_define_float_variable, EXTERNAL_VARIABLE_TYPE_FLOAT, f, double)
int yr_rules_define_string_variable(YR_RULES* rules, const char* identifier, const char* value)
{
  YR_EXTERNAL_VARIABLE* external = rules->ext_vars_table;
  while (!EXTERNAL_VARIABLE_IS_NULL(external))
  {
    if (strcmp(external->identifier, identifier) == 0)
    {
      if (external->type != EXTERNAL_VARIABLE_TYPE_STRING &&
          external->type != EXTERNAL_VARIABLE_TYPE_MALLOC_STRING)
        return ERROR_INVALID_EXTERNAL_VARIABLE_TYPE;
      external->type = EXTERNAL_VARIABLE_TYPE_MALLOC_STRING;
      external->value.s = yr_strdup(value);
      return ERROR_SUCCESS;
    }
    external++;
  }
  return ERROR_INVALID_ARGUMENT;
}

/* R20.5: dispatch on the external type */
void set_i(int64_t); void set_f(double); void set_s(char*);
void produce(YR_EXTERNAL_VARIABLE* e, int k)
{
  if (k == 0) e->type = EXTERNAL_VARIABLE_TYPE_INTEGER;
  if (k == 1) e->type = EXTERNAL_VARIABLE_TYPE_FLOAT;
  if (k == 2) e->type = EXTERNAL_VARIABLE_TYPE_STRING;
}
void to_object_good(YR_EXTERNAL_VARIABLE* external)
{
  switch (external->type)
  {
  case EXTERNAL_VARIABLE_TYPE_INTEGER: set_i(external->value.i); break;
  case EXTERNAL_VARIABLE_TYPE_FLOAT: set_f(external->value.f); break;
  case EXTERNAL_VARIABLE_TYPE_STRING:
  case EXTERNAL_VARIABLE_TYPE_MALLOC_STRING: set_s(external->value.s); break;
  }
}
void to_object_bad(YR_EXTERNAL_VARIABLE* external)
{
  switch (external->type)
  {
  case EXTERNAL_VARIABLE_TYPE_INTEGER: set_i(external->value.i); break;
  case EXTERNAL_VARIABLE_TYPE_FLOAT: set_f(external->value.f); break;
  case EXTERNAL_VARIABLE_TYPE_STRING: set_s(external->value.s); break;
  }
}

/* R20.6: bytes of a sized string rewritten without its length */
typedef struct _SIZED_STRING { unsigned length; unsigned flags; char c_string[1]; } SIZED_STRING;
void* memcpy(void* d, const void* s, unsigned long n);
int ss_overwrite_bad(SIZED_STRING* s, const char* v, unsigned n)
{
  if (n <= s->length)
  {
    memcpy(s->c_string, v, n);       /* length keeps its old value */
    return 0;
  }
  return 1;
}
int ss_overwrite_good(SIZED_STRING* s, const char* v, unsigned n)
{
  if (n <= s->length)
  {
    memcpy(s->c_string, v, n);
    s->length = n;
    return 0;
  }
  return 1;
}

/* R20.7: the text of an integer external converted with base 0 */
long long strtoll(const char* s, char** e, int base);
int atoi(const char* s);
int define_int(void* rules, const char* id, long long v);
int cli_int_bad(void* rules, const char* id, const char* value)
{
  return define_int(rules, id, strtoll(value, NULL, 0));      /* 0100 -> 64 */
}
int cli_int_good(void* rules, const char* id, const char* value)
{
  int v = atoi(value);
  return define_int(rules, id, v);
}

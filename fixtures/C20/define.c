/* Positive fixture for C20 (R20.1). Parsed by yrx only: a rules-level define
 * that stores before checking the type. */
#define NULL ((void*) 0)
#define ERROR_SUCCESS 0
#define ERROR_INVALID_ARGUMENT 29
#define ERROR_INVALID_EXTERNAL_VARIABLE_TYPE 48
#define EXTERNAL_VARIABLE_TYPE_NULL 0
#define EXTERNAL_VARIABLE_TYPE_FLOAT 1
#define EXTERNAL_VARIABLE_TYPE_INTEGER 2
#define EXTERNAL_VARIABLE_TYPE_BOOLEAN 3
#define EXTERNAL_VARIABLE_TYPE_STRING 4
#define EXTERNAL_VARIABLE_TYPE_MALLOC_STRING 5
#define EXTERNAL_VARIABLE_IS_NULL(x) ((x) != NULL ? (x)->type == EXTERNAL_VARIABLE_TYPE_NULL : 1)
typedef long long int64_t;
typedef struct YR_EXTERNAL_VARIABLE { int type; union { int64_t i; double f; char* s; } value; const char* identifier; } YR_EXTERNAL_VARIABLE;
typedef struct YR_RULES { YR_EXTERNAL_VARIABLE* ext_vars_table; } YR_RULES;
int strcmp(const char* a, const char* b);
void yr_free(void* p); char* yr_strdup(const char* s);

int yr_rules_define_integer_variable(YR_RULES* rules, const char* identifier, int64_t value)
{
  YR_EXTERNAL_VARIABLE* external = rules->ext_vars_table;
  while (!EXTERNAL_VARIABLE_IS_NULL(external))
  {
    if (strcmp(external->identifier, identifier) == 0)
    {
      external->value.i = value;                       /* stored before the check */
      if (external->type != EXTERNAL_VARIABLE_TYPE_INTEGER)
        return ERROR_INVALID_EXTERNAL_VARIABLE_TYPE;
      return ERROR_SUCCESS;
    }
    external++;
  }
  return ERROR_INVALID_ARGUMENT;
}
#define DEF(name, T, m, vt) int name(YR_RULES* rules, const char* identifier, vt value) { \
  YR_EXTERNAL_VARIABLE* external = rules->ext_vars_table; \
  while (!EXTERNAL_VARIABLE_IS_NULL(external)) { \
    if (strcmp(external->identifier, identifier) == 0) { \
      if (external->type != T) return ERROR_INVALID_EXTERNAL_VARIABLE_TYPE; \
      external->value.m = value; return ERROR_SUCCESS; } \
    external++; } \
  return ERROR_INVALID_ARGUMENT; }
DEF(yr_rules_define_boolean_variable, EXTERNAL_VARIABLE_TYPE_BOOLEAN, i, int)
DEF(yr_rules_define_float_variable, EXTERNAL_VARIABLE_TYPE_FLOAT, f, double)
int yr_rules_define_string_variable(YR_RULES* rules, const char* identifier, const char* value)
{
  YR_EXTERNAL_VARIABLE* external = rules->ext_vars_table;
  while (!EXTERNAL_VARIABLE_IS_NULL(external))
  {
    if (strcmp(external->identifier, identifier) == 0)
    {
      if (external->type != EXTERNAL_VARIABLE_TYPE_STRING &&
          external->type != EXTERNAL_VARIABLE_TYPE_MALLOC_STRING)
        return ERROR_INVALID_EXTERNAL_VARIABLE_TYPE;
      external->type = EXTERNAL_VARIABLE_TYPE_MALLOC_STRING;
      external->value.s = yr_strdup(value);
      return ERROR_SUCCESS;
    }
    external++;
  }
  return ERROR_INVALID_ARGUMENT;
}

/* C14 fixtures: one clean cached range hasher (good_md5) and one that breaks
   several clauses (bad_md5: different cache namespaces, key = walked cursor,
   no length validation, unclipped window); string forms for R14.3. */
typedef unsigned long size_t;
typedef long int64_t;
typedef unsigned char uint8_t;
typedef struct _YR_MEMORY_BLOCK { size_t size; unsigned long base; void* context; } YR_MEMORY_BLOCK;
typedef struct _IT { YR_MEMORY_BLOCK* (*first)(struct _IT*); YR_MEMORY_BLOCK* (*next)(struct _IT*); } YR_MEMORY_BLOCK_ITERATOR;
typedef struct { unsigned length; unsigned flags; char c_string[1]; } SIZED_STRING;
typedef struct { int x; } md5_ctx;
const uint8_t* yr_fetch_block_data(YR_MEMORY_BLOCK* b);
char* get_from_cache(void* m, const char* ns, int64_t offset, int64_t length);
int add_to_cache(void* m, const char* ns, int64_t offset, int64_t length, const char* digest);
void digest_to_ascii(unsigned char* d, char* a, size_t n);
void MD5_Init(md5_ctx*); void MD5_Update(md5_ctx*, const void*, size_t); void MD5_Final(unsigned char*, md5_ctx*);
int yr_object_set_string(const char* s, size_t n, void* o, const char* f);
unsigned long strlen(const char*);
#define yr_md5_init(c) MD5_Init(c)
#define yr_md5_update(c, d, l) MD5_Update(c, d, l)
#define yr_md5_final(d, c) MD5_Final(d, c)
#define yr_min(x, y) ((x < y) ? (x) : (y))
#define UNDEF ((char*) 0xFFFABADAFABADAFFLL)
#define return_string(string) { char* s = (char*) (string); return yr_object_set_string(s, 0, ret, 0); }
#define foreach_memory_block(iterator, block) \
  for (block = iterator->first(iterator); block != 0; block = iterator->next(iterator))

int good_md5(void* module, void* ret, YR_MEMORY_BLOCK_ITERATOR* iterator, int64_t a1, int64_t a2)
{
  md5_ctx md5_context;
  unsigned char digest[16];
  char digest_ascii[33];
  char* cached_ascii_digest;
  int past_first_block = 0;
  YR_MEMORY_BLOCK* block = iterator->first(iterator);
  int64_t arg_offset = a1;
  int64_t arg_length = a2;
  int64_t offset = arg_offset;
  int64_t length = arg_length;
  if (block == 0)
    return_string(UNDEF);
  if (offset < 0 || length < 0 || offset < block->base)
    return_string(UNDEF);
  cached_ascii_digest = get_from_cache(module, "md5", arg_offset, arg_length);
  if (cached_ascii_digest != 0)
    return_string(cached_ascii_digest);
  yr_md5_init(&md5_context);
  foreach_memory_block(iterator, block)
  {
    if (offset >= block->base && offset < block->base + block->size)
    {
      const uint8_t* block_data = yr_fetch_block_data(block);
      if (block_data != 0)
      {
        size_t data_offset = (size_t) (offset - block->base);
        size_t data_len = (size_t) yr_min(length, (size_t) (block->size - data_offset));
        offset += data_len;
        length -= data_len;
        yr_md5_update(&md5_context, block_data + data_offset, data_len);
      }
      else
      {
        yr_md5_final(digest, &md5_context);
        return_string(UNDEF);
      }
      past_first_block = 1;
    }
    else if (past_first_block)
    {
      yr_md5_final(digest, &md5_context);
      return_string(UNDEF);
    }
    if (block->base + block->size >= offset + length)
      break;
  }
  yr_md5_final(digest, &md5_context);
  if (!past_first_block)
    return_string(UNDEF);
  digest_to_ascii(digest, digest_ascii, 16);
  if (add_to_cache(module, "md5", arg_offset, arg_length, digest_ascii) != 0)
    return 1;
  return_string(digest_ascii);
}

int bad_md5(void* module, void* ret, YR_MEMORY_BLOCK_ITERATOR* iterator, int64_t a1, int64_t a2)
{
  md5_ctx md5_context;
  unsigned char digest[16];
  char digest_ascii[33];
  char* cached_ascii_digest;
  int past_first_block = 0;
  YR_MEMORY_BLOCK* block = iterator->first(iterator);
  int64_t offset = a1;
  int64_t length = a2;
  if (block == 0)
    return_string(UNDEF);
  if (offset < 0 || offset < block->base)
    return_string(UNDEF);
  cached_ascii_digest = get_from_cache(module, "md5x", offset, length);
  if (cached_ascii_digest != 0)
    return_string(cached_ascii_digest);
  yr_md5_init(&md5_context);
  foreach_memory_block(iterator, block)
  {
    if (offset >= block->base && offset < block->base + block->size)
    {
      const uint8_t* block_data = yr_fetch_block_data(block);
      if (block_data != 0)
      {
        size_t data_offset = (size_t) (offset - block->base);
        size_t data_len = (size_t) yr_min(length, (size_t) (block->size - data_offset));
        offset += data_len;
        length -= data_len;
        yr_md5_update(&md5_context, block_data + data_offset, data_len);
      }
      past_first_block = 1;
    }
    if (block->base + block->size >= offset + length)
      break;
  }
  yr_md5_final(digest, &md5_context);
  digest_to_ascii(digest, digest_ascii, 16);
  if (add_to_cache(module, "md5y", offset, length, digest_ascii) != 0)
    return 1;
  return_string(digest_ascii);
}

unsigned good_string_sum(SIZED_STRING* arg)
{
  SIZED_STRING* s = arg;
  unsigned sum = 0;
  size_t i;
  for (i = 0; i < s->length; i++) sum += (uint8_t) (s->c_string[i]);
  return sum;
}

double bad_string_sum(SIZED_STRING* arg, md5_ctx* c)
{
  SIZED_STRING* s = arg;
  double sum = 0;
  size_t i;
  for (i = 0; i < s->length; i++) sum += (double) s->c_string[i];
  yr_md5_update(c, s->c_string, strlen(s->c_string));
  return sum;
}

/* R14.5: errno protocol of strtoll */
int* __errno_location(void);
#define errno (*__errno_location())
long long strtoll(const char* s, char** e, int base);

int bad_to_int(char* s, long long* out)
{
  char* e = s;
  *out = strtoll(s, &e, 10);
  if (errno != 0) return 0;          /* errno never reset: stale failure of an earlier call */
  return e != s;
}

int good_to_int(char* s, long long* out)
{
  char* e = s;
  errno = 0;
  *out = strtoll(s, &e, 10);
  if (errno != 0) return 0;
  return e != s;
}

/* Positive fixture for C15 (R15.2 margins, R15.3 poll). Parsed by yrx only. */
typedef long long int64_t; typedef unsigned long long uint64_t;
#define NULL ((void*) 0)
#define ERROR_SUCCESS 0
#define ERROR_EXEC_STACK_OVERFLOW 25
#define ERROR_SCAN_TIMEOUT 26
typedef union { int64_t i; void* p; } YR_VALUE;
typedef struct { int sp; int capacity; YR_VALUE* items; } YR_VALUE_STACK;
typedef struct { int x; } YR_ITERATOR;
typedef struct { uint64_t timeout; int stopwatch; } YR_SCAN_CONTEXT;
uint64_t yr_stopwatch_elapsed_ns(int* sw);

int iter_bad_next(YR_ITERATOR* self, YR_VALUE_STACK* stack)     /* R15.2: 3 pushes, room for 2 */
{
  if (stack->sp + 1 >= stack->capacity)
    return ERROR_EXEC_STACK_OVERFLOW;
  stack->items[stack->sp++].i = 0;
  stack->items[stack->sp++].i = 1;
  stack->items[stack->sp++].i = 2;
  return ERROR_SUCCESS;
}

int iter_good_next(YR_ITERATOR* self, YR_VALUE_STACK* stack)    /* clean sibling */
{
  if (stack->sp + 1 >= stack->capacity)
    return ERROR_EXEC_STACK_OVERFLOW;
  stack->items[stack->sp++].i = 0;
  stack->items[stack->sp++].i = 1;
  return ERROR_SUCCESS;
}

int yr_execute_code(YR_SCAN_CONTEXT* context)                   /* R15.3: continue bypasses the poll */
{
  int stop = 0, cycle = 0, result = 0; const unsigned char* ip = 0; unsigned char opcode;
  while (!stop)
  {
    opcode = *ip; ip++;
    if (opcode == 0)
      continue;
    if (context->timeout > 0ULL && ++cycle == 100)
    {
      if (yr_stopwatch_elapsed_ns(&context->stopwatch) > context->timeout)
      {
        result = ERROR_SCAN_TIMEOUT;
        stop = 1;
      }
      cycle = 0;
    }
  }
  return result;
}

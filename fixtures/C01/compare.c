/* C01 fixtures: a clean narrow comparer, a wide comparer whose guard forgets
   the factor 2, a dispatcher that calls the wide comparer without testing the
   wide flag, and a block scanner whose end-of-block copy tests the backtrack
   guard the wrong way round. */
typedef unsigned long size_t;
typedef unsigned char uint8_t;
typedef unsigned int uint32_t;
typedef unsigned long uint64_t;
#define STRING_FLAGS_NO_CASE 0x04
#define STRING_FLAGS_ASCII 0x08
#define STRING_FLAGS_WIDE 0x10
#define STRING_FLAGS_XOR 0x80000
typedef struct { uint32_t flags; uint32_t length; uint8_t* string; } YR_STRING;
typedef struct _M { uint32_t backtrack; YR_STRING* string; struct _M* next; } YR_AC_MATCH;
typedef struct { size_t size; uint64_t base; } YR_MEMORY_BLOCK;
typedef struct { YR_AC_MATCH* pool; uint32_t* match_table; } YR_SCANNER;

static int _yr_scan_compare(const uint8_t* data, size_t data_size, uint8_t* string, size_t string_length)
{
  const uint8_t* s1 = data;
  const uint8_t* s2 = string;
  size_t i = 0;
  if (data_size < string_length)
    return 0;
  while (i < string_length && *s1++ == *s2++) i++;
  return (int) ((i == string_length) ? i : 0);
}

static int _yr_scan_wcompare(const uint8_t* data, size_t data_size, uint8_t* string, size_t string_length)
{
  const uint8_t* s1 = data;
  const uint8_t* s2 = string;
  size_t i = 0;
  if (data_size < string_length)
    return 0;
  while (i < string_length && *s1 == *s2 && *(s1 + 1) == 0x00)
  {
    s1 += 2;
    s2++;
    i++;
  }
  return (int) ((i == string_length) ? i * 2 : 0);
}

static int _yr_scan_verify_literal_match(void* context, YR_AC_MATCH* ac_match, const uint8_t* data,
                                         size_t data_size, uint64_t data_base, size_t offset)
{
  int forward_matches = 0;
  YR_STRING* string = ac_match->string;
  if (string->flags & STRING_FLAGS_NO_CASE)
    return 0;
  if (string->flags & STRING_FLAGS_ASCII)
    forward_matches = _yr_scan_compare(data + offset, data_size - offset, string->string, string->length);
  if (forward_matches == 0)
    forward_matches = _yr_scan_wcompare(data + offset, data_size - offset, string->string, string->length);
  return forward_matches;
}

int yr_scan_verify_match(YR_SCANNER*, YR_AC_MATCH*, const uint8_t*, size_t, uint64_t, size_t);
int next_state(int, uint8_t);

static int _yr_scanner_scan_mem_block(YR_SCANNER* scanner, const uint8_t* block_data, YR_MEMORY_BLOCK* block)
{
  size_t i = 0;
  int state = 0;
  YR_AC_MATCH* match;
  while (i < block->size)
  {
    if (scanner->match_table[state] != 0)
    {
      match = &scanner->pool[scanner->match_table[state] - 1];
      while (match != 0)
      {
        if (match->backtrack <= i)
        {
          if (yr_scan_verify_match(scanner, match, block_data, block->size, block->base, i - match->backtrack) != 0)
            return 1;
        }
        match = match->next;
      }
    }
    state = next_state(state, block_data[i++]);
  }
  if (scanner->match_table[state] != 0)
  {
    match = &scanner->pool[scanner->match_table[state] - 1];
    while (match != 0)
    {
      if (match->backtrack >= i)
      {
        if (yr_scan_verify_match(scanner, match, block_data, block->size, block->base, i - match->backtrack) != 0)
          return 1;
      }
      match = match->next;
    }
  }
  return 0;
}

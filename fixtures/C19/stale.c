/* Positive fixture for C19 (R19.1, R19.2). Parsed by yrx only. */
typedef unsigned long size_t; typedef unsigned int uint32_t;
#define NULL ((void*) 0)
typedef struct { uint32_t buffer_id; uint32_t offset; } YR_ARENA_REF;
typedef struct YR_ARENA YR_ARENA;
typedef struct YR_RULE { int flags; int num_atoms; } YR_RULE;
typedef struct YR_STRING { int flags; } YR_STRING;
typedef struct _YR_COMPILER { YR_ARENA* arena; YR_RULE* cached_rule; } YR_COMPILER;   /* R19.2 */
enum { YR_RULES_TABLE = 1, YR_STRINGS_TABLE = 3, YR_SZ_POOL = 5 };
void* yr_arena_get_ptr(YR_ARENA* a, uint32_t buf, uint32_t off);
void* yr_arena_ref_to_ptr(YR_ARENA* a, YR_ARENA_REF* ref);
int yr_arena_allocate_struct(YR_ARENA* a, uint32_t buf, size_t sz, YR_ARENA_REF* ref, ...);
int yr_arena_write_data(YR_ARENA* a, uint32_t buf, const void* d, size_t sz, YR_ARENA_REF* ref);

static int add_rule(YR_ARENA* arena, YR_ARENA_REF* ref)
{
  return yr_arena_allocate_struct(arena, YR_RULES_TABLE, sizeof(YR_RULE), ref, (size_t) -1);
}

int stale_use(YR_ARENA* arena)            /* R19.1 */
{
  YR_ARENA_REF ref;
  YR_RULE* rule = (YR_RULE*) yr_arena_get_ptr(arena, YR_RULES_TABLE, 0);
  add_rule(arena, &ref);                  /* may move YR_RULES_TABLE */
  rule->num_atoms = 0;                    /* stale */
  return 0;
}

int other_buffer(YR_ARENA* arena)         /* clean sibling: different buffer */
{
  YR_RULE* kept = (YR_RULE*) yr_arena_get_ptr(arena, YR_RULES_TABLE, 0);
  yr_arena_write_data(arena, YR_SZ_POOL, "x", 2, NULL);
  kept->num_atoms = 0;
  return 0;
}

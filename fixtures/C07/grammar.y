%destructor { yr_free($$); $$ = NULL; } _IDENT_ _STR_
%token <c_string> _IDENT_
%token <c_string> _STR_
%type <c_string> good leaky twice silent
%%
good : _IDENT_ _STR_
    {
      if (bad($1)) { yr_free($1); yr_free($2); yyerror(s, c, "x"); c->last_error = 7; YYERROR; }
      keep(c, $1);
      yr_free($2);
    }
  ;
leaky : _IDENT_ _STR_
    {
      if (bad($1)) { yr_free($1); yyerror(s, c, "x"); c->last_error = 7; YYERROR; }
      yr_free($1);
      yr_free($2);
    }
  ;
twice : _IDENT_
    {
      yr_free($1);
      yr_free($1);
    }
  ;
silent : _IDENT_
    {
      yr_free($1);
      if (bad(0)) { YYERROR; }
    }
  ;

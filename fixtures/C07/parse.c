/* C07 fixtures: a hand-made "generated parser" for fixtures/C07/grammar.y
   (positive examples for R7.1 and R7.2), parser entry points for R7.3, a
   compiler object for R7.5 and an error-message switch for R7.6. */
typedef union { char* c_string; long integer; } YYSTYPE;
typedef long jmp_buf[8];
int setjmp(jmp_buf);
typedef struct _YR_COMPILER
{
  int last_error;
  int errors;
  void* table;
  void* lost_table;
  jmp_buf error_recovery;
} YR_COMPILER;

#define ERROR_SUCCESS 0
#define ERROR_KNOWN 5
#define ERROR_NO_MESSAGE 6

void yr_free(void*);
int bad(void*);
int next(void);
void yara_yyerror(void* s, YR_COMPILER* c, const char* m);
static char* slot;
void keep(YR_COMPILER* c, char* p) { slot = p; }

int yara_yyparse(void* s, YR_COMPILER* c)
{
  YYSTYPE stack[16];
  YYSTYPE* yyvsp = stack + 8;
  YYSTYPE yyval;
  int yyn = next();
  yyval.integer = 0;
  switch (yyn)
  {
  case 2:
#line 7 "grammar.y"
    {
      if (bad((yyvsp[-1].c_string))) { yr_free((yyvsp[-1].c_string)); yr_free((yyvsp[0].c_string)); yara_yyerror(s, c, "x"); c->last_error = 7; goto yyerrorlab; }
      keep(c, (yyvsp[-1].c_string));
      yr_free((yyvsp[0].c_string));
    }
#line 100 "parse.c"
    break;
  case 3:
#line 14 "grammar.y"
    {
      if (bad((yyvsp[-1].c_string))) { yr_free((yyvsp[-1].c_string)); yara_yyerror(s, c, "x"); c->last_error = 7; goto yyerrorlab; }
      yr_free((yyvsp[-1].c_string));
      yr_free((yyvsp[0].c_string));
    }
#line 110 "parse.c"
    break;
  case 4:
#line 21 "grammar.y"
    {
      yr_free((yyvsp[0].c_string));
      yr_free((yyvsp[0].c_string));
    }
#line 120 "parse.c"
    break;
  case 5:
#line 27 "grammar.y"
    {
      yr_free((yyvsp[0].c_string));
      if (bad(0)) { goto yyerrorlab; }
    }
#line 130 "parse.c"
    break;
  default:
    break;
  }
  yyvsp[0] = yyval;
  return 0;
yyerrorlab:
  return 1;
yyabortlab:
  return 2;
}

int yara_yylex_init(void** s);
int yara_yylex_destroy(void* s);

/* R7.3: no recovery point at all */
int entry_without_setjmp(YR_COMPILER* compiler)
{
  void* yyscanner;
  if (yara_yylex_init(&yyscanner) != 0)
    return 1;
  yara_yyparse(yyscanner, compiler);
  yara_yylex_destroy(yyscanner);
  return compiler->errors;
}

/* R7.3: recovery point that forgets the scanner, and reads a late local */
int entry_leaky_recovery(YR_COMPILER* compiler)
{
  void* yyscanner;
  void* buffer = 0;
  if (setjmp(compiler->error_recovery) != 0)
  {
    yr_free(buffer);
    return compiler->errors;
  }
  if (yara_yylex_init(&yyscanner) != 0)
    return 1;
  buffer = &yyscanner;
  yara_yyparse(yyscanner, compiler);
  yara_yylex_destroy(yyscanner);
  yr_free(buffer);
  return compiler->errors;
}

/* R7.3: the clean shape */
int entry_clean(YR_COMPILER* compiler)
{
  void* yyscanner;
  if (yara_yylex_init(&yyscanner) != 0)
    return 1;
  if (setjmp(compiler->error_recovery) != 0)
  {
    yara_yylex_destroy(yyscanner);
    return compiler->errors;
  }
  yara_yyparse(yyscanner, compiler);
  yara_yylex_destroy(yyscanner);
  return compiler->errors;
}

/* R7.5 */
int table_create(void** t);
void table_destroy(void* t);
int yr_compiler_create(YR_COMPILER* compiler)
{
  table_create(&compiler->table);
  table_create(&compiler->lost_table);
  return 0;
}
void yr_compiler_destroy(YR_COMPILER* compiler)
{
  table_destroy(compiler->table);
  yr_free(compiler);
}

/* R7.6 */
void fail_known(YR_COMPILER* compiler) { compiler->last_error = ERROR_KNOWN; }
void fail_unknown(YR_COMPILER* compiler) { compiler->last_error = ERROR_NO_MESSAGE; }
const char* yr_compiler_get_error_message(YR_COMPILER* compiler)
{
  switch (compiler->last_error)
  {
  case ERROR_KNOWN:
    return "known";
  }
  return "";
}

/* R7.7 */
#define ERROR_UNFILLED 3
#define ERROR_FILLED 4
typedef struct { char message[64]; } RE_ERROR;
void use(const char*);
int fill(RE_ERROR* e, int k)
{
  if (k)
    return ERROR_UNFILLED;
  e->message[0] = 0;
  return ERROR_FILLED;
}
void reads_unset(int k)
{
  RE_ERROR err;
  int r = fill(&err, k);
  if (r != ERROR_SUCCESS)
    use(err.message);
}
void reads_set(int k)
{
  RE_ERROR err;
  int r = fill(&err, k);
  if (r == ERROR_FILLED)
    use(err.message);
}

/* R7.8 */
void mark(int);
void narrow_loop_good(const unsigned char* t)
{
  unsigned short c;
  unsigned char start = t[0];
  unsigned char end = t[2];
  for (c = start; c <= end; c++) mark(c);
}
void narrow_loop_bad(const unsigned char* t)
{
  unsigned char c;
  unsigned char start = t[0];
  unsigned char end = t[2];
  for (c = start; c <= end; c++) mark(c);
}

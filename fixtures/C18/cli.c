/* Positive fixture for C18 (R18.1-R18.3). Parsed by yrx only. */
#define NULL ((void*) 0)
typedef struct { int x; } MUTEX; typedef struct { int x; } SEMAPHORE;
void cli_mutex_lock(MUTEX* m); void cli_mutex_unlock(MUTEX* m);
int cli_semaphore_wait(SEMAPHORE* s, long d); void cli_semaphore_release(SEMAPHORE* s);
int printf(const char* f, ...);
static char* file_queue[8]; static int queue_head, queue_tail;
static MUTEX queue_mutex, output_mutex; static SEMAPHORE used_slots, unused_slots;
static long total_count = 0;

static char* file_queue_get(long deadline)
{
  char* result;
  if (cli_semaphore_wait(&used_slots, deadline) == 30)
    return NULL;
  if (queue_head == queue_tail)            /* R18.1: read without queue_mutex */
    return NULL;                           /* R18.1: token not returned */
  cli_mutex_lock(&queue_mutex);
  result = file_queue[queue_head];
  queue_head = (queue_head + 1) % 8;
  cli_mutex_unlock(&queue_mutex);
  cli_semaphore_release(&unused_slots);
  return result;
}

static int handle(const char* name)
{
  printf("%s ", name);                     /* R18.3: outside output_mutex */
  cli_mutex_lock(&output_mutex);
  printf("matched\n");
  cli_mutex_unlock(&output_mutex);
  total_count++;                           /* R18.2 */
  return 0;
}

void* scanning_thread(void* param)
{
  char* p = file_queue_get(0);
  while (p != NULL) { handle(p); p = file_queue_get(0); }
  return 0;
}

/* R18.7: per-file callback state is not reset between files */
typedef struct _CB_ARGS { const char* file_path; int current_count; } CB_ARGS;
typedef struct _YR_SCANNER YR_SCANNER;
void yr_scanner_set_callback(YR_SCANNER* s, int (*cb)(void*, int, void*, void*), void* user_data);
int yr_scanner_scan_file(YR_SCANNER* s, const char* path);
static int count_cb(void* ctx, int msg, void* data, void* user_data)
{
  ((CB_ARGS*) user_data)->current_count++;
  return 0;
}
void* counting_thread(void* param)
{
  YR_SCANNER* sc = (YR_SCANNER*) param;
  CB_ARGS a;
  a.current_count = 0;
  yr_scanner_set_callback(sc, count_cb, &a);
  char* p = file_queue_get(0);
  while (p != NULL)
  {
    a.file_path = p;                       /* current_count keeps growing */
    yr_scanner_scan_file(sc, p);
    p = file_queue_get(0);
  }
  return 0;
}

"""Path-sensitive (up to a finite fact set) forward exploration of a CFG.

State at a program point = a set of fact-sets (frozensets). Each fact-set is
one equivalence class of paths; two paths are merged only when they agree on
every fact, so correlated branches (`if (flag) free(x)` ... `if (flag) ...`)
do not produce infeasible-path reports as long as the correlating condition
is one of the tracked facts.

    step(node, facts)                      -> facts | None (path ends here)
    edge(block, term, cond, idx, succ, facts) -> facts | None (edge infeasible
                                               under these facts)

`step` is called for every CFG element in evaluation order (every
sub-expression is an element: clang::CFG built with setAllAlwaysAdd), then
for the block's terminator statement when that is not itself an element.
"""


class Budget(Exception):
    pass


def explore(fn, init, step, edge=None, start_block=None, start_index=0,
            max_states=4096, at_block=None):
    start_block = fn.entry if start_block is None else start_block
    ins = {}
    work = []

    def push(b, facts):
        s = ins.setdefault(b, set())
        if facts not in s:
            if len(s) >= max_states:
                raise Budget('state budget exceeded in %s block %s' % (fn.name, b))
            s.add(facts)
            work.append((b, facts))

    push(start_block, frozenset(init))
    first = True
    while work:
        b, facts = work.pop()
        bd = fn.blocks[b]
        elems = bd['e']
        i0 = start_index if (first and b == start_block) else 0
        first = False
        cur = facts
        dead = False
        if at_block is not None:
            at_block(b, cur)
        for e in elems[i0:]:
            n = fn.nodes[e]
            if n is None:
                continue
            cur = step(n, cur)
            if cur is None:
                dead = True
                break
        if dead:
            continue
        term = fn.node(bd.get('term')) if bd.get('term') is not None else None
        if term is not None and term['k'] in ('ret', 'goto', 'break', 'continue'):
            # control statements are not CFG elements unless they carry a value
            nb = fn.node_block()
            if term['i'] not in nb:
                cur = step(term, cur)
                if cur is None:
                    continue
        cond = fn.node(bd.get('cond')) if bd.get('cond') is not None else None
        for idx, s in enumerate(bd['s']):
            if s is None:
                continue
            f2 = cur
            if edge is not None:
                f2 = edge(b, term, cond, idx, s, cur)
                if f2 is None:
                    continue
            push(s, frozenset(f2))
    return ins


def branch_polarity(fn, term, idx):
    """True / False for the two-way branches of if/while/for/do/&&/||/?:,
    None otherwise (switch, goto...)."""
    if term is None:
        return None
    k = term['k']
    if k in ('if', 'while', 'for', 'do', 'cond'):
        return idx == 0
    if k == 'bin' and term.get('op') in ('&&', '||'):
        return idx == 0
    return None


def switch_case_of(fn, term, succ):
    """for an edge of a switch terminator: the case/default node labelling the
    successor block (None if the successor is the block after the switch)"""
    if term is None or term['k'] != 'switch':
        return None
    lab = fn.blocks[succ].get('label')
    if lab is None:
        return None
    n = fn.node(lab)
    if n is not None and n['k'] in ('case', 'default'):
        return n
    return None


def effective_cond(fn, cond):
    """the operand whose truth decides a two-way branch: for a terminator
    whose condition is `A && B` / `A || B` the block only evaluates the
    right-most operand (the others have their own blocks)."""
    n = cond
    while n is not None:
        if n['k'] == 'bin' and n.get('op') in ('&&', '||'):
            n = fn.kid(n, 1)
        elif n['k'] == 'cast':
            n = fn.kid(n, 0)
        else:
            break
    return n


def normalise_cond(fn, cond, polarity):
    """strip leading `!` (flipping polarity) and casts from the deciding
    operand of a branch. returns (core expression node, polarity)"""
    n = effective_cond(fn, cond)
    while n is not None:
        if n['k'] == 'un' and n.get('op') == '!':
            n = fn.kid(n, 0)
            while n is not None and n['k'] == 'cast':
                n = fn.kid(n, 0)
            polarity = not polarity
            continue
        break
    return n, polarity

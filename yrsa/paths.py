"""Path-sensitive (up to a finite fact set) forward exploration of a CFG.

State at a program point = a set of fact-sets (frozensets). Each fact-set is
one equivalence class of paths; two paths are merged only when they agree on
every fact, so correlated branches (`if (flag) free(x)` ... `if (flag) ...`)
do not produce infeasible-path reports as long as the correlating condition
is one of the tracked facts.

    step(node, facts)                      -> facts | None (path ends here)
    edge(block, term, cond, idx, succ, facts) -> facts | None (edge infeasible
                                               under these facts)

`step` is called for every CFG element in evaluation order (every
sub-expression is an element: clang::CFG built with setAllAlwaysAdd), then
for the block's terminator statement when that is not itself an element.
"""


class Budget(Exception):
    pass


class Fork(list):
    """returned by `step` of `explore`: the path splits into one continuation
    per fact set (used to apply a callee summary with several outcomes)"""


def explore(fn, init, step, edge=None, start_block=None, start_index=0,
            max_states=4096, at_block=None):
    start_block = fn.entry if start_block is None else start_block
    ins = {}
    work = []

    def push(b, facts):
        s = ins.setdefault(b, set())
        if facts not in s:
            if len(s) >= max_states:
                raise Budget('state budget exceeded in %s block %s' % (fn.name, b))
            s.add(facts)
            work.append((b, facts))

    push(start_block, frozenset(init))
    first = True
    while work:
        b, facts = work.pop()
        bd = fn.blocks[b]
        elems = bd['e']
        i0 = start_index if (first and b == start_block) else 0
        first = False
        if at_block is not None:
            at_block(b, facts)
        curs = [facts]
        for e in elems[i0:]:
            n = fn.nodes[e]
            if n is None:
                continue
            nxt = []
            for cur in curs:
                r = step(n, cur)
                if r is None:
                    continue
                for x in (r if isinstance(r, Fork) else (r,)):
                    x = frozenset(x)
                    if x not in nxt:
                        nxt.append(x)
            curs = nxt
            if not curs:
                break
        if not curs:
            continue
        term = fn.node(bd.get('term')) if bd.get('term') is not None else None
        if term is not None and term['k'] in ('ret', 'goto', 'break', 'continue'):
            # control statements are not CFG elements unless they carry a value
            nb = fn.node_block()
            if term['i'] not in nb:
                nxt = []
                for cur in curs:
                    r = step(term, cur)
                    if r is None:
                        continue
                    for x in (r if isinstance(r, Fork) else (r,)):
                        nxt.append(frozenset(x))
                curs = nxt
                if not curs:
                    continue
        cond = fn.node(bd.get('cond')) if bd.get('cond') is not None else None
        if bd.get('noreturn'):
            continue            # abort()/__assert_fail(): the path ends here
        for cur in curs:
            for idx, s in enumerate(bd['s']):
                if s is None:
                    continue
                f2 = cur
                if edge is not None:
                    f2 = edge(b, term, cond, idx, s, cur)
                    if f2 is None:
                        continue
                push(s, frozenset(f2))
    return ins


def must_flow(fn, init, step, edge=None, observe=None):
    """Forward must-dataflow: the fact set at a point is the intersection over
    all paths (join = intersection), iterated to a fixpoint from the optimistic
    top.  Polynomial where `explore` enumerates paths; less precise only for
    correlated branches.  After the fixpoint, `observe(node, facts)` is called
    once per element with the final facts in front of it.
    step/edge have the signatures used by `explore`; they must be monotone."""
    ins = {fn.entry: frozenset(init)}
    work = [fn.entry]
    nb = fn.node_block()

    def run_block(b, facts, obs):
        bd = fn.blocks[b]
        cur = facts
        for e in bd['e']:
            n = fn.nodes[e]
            if n is None:
                continue
            if obs is not None:
                obs(n, cur)
            cur = step(n, cur)
            if cur is None:
                return None, None, None
        term = fn.node(bd.get('term')) if bd.get('term') is not None else None
        if term is not None and term['k'] in ('ret', 'goto', 'break', 'continue') and term['i'] not in nb:
            if obs is not None:
                obs(term, cur)
            cur = step(term, cur)
            if cur is None:
                return None, None, None
        cond = fn.node(bd.get('cond')) if bd.get('cond') is not None else None
        return cur, term, cond
    rounds = 0
    while work:
        rounds += 1
        if rounds > 200000:
            raise Budget('must_flow does not converge in %s' % fn.name)
        b = work.pop()
        cur, term, cond = run_block(b, ins[b], None)
        if cur is None or fn.blocks[b].get('noreturn'):
            continue
        for idx, s in enumerate(fn.blocks[b]['s']):
            if s is None:
                continue
            f2 = cur
            if edge is not None:
                f2 = edge(b, term, cond, idx, s, cur)
                if f2 is None:
                    continue
            f2 = frozenset(f2)
            old = ins.get(s)
            new = f2 if old is None else (old & f2)
            if old is None or new != old:
                ins[s] = new
                work.append(s)
    if observe is not None:
        for b, facts in ins.items():
            run_block(b, facts, observe)
    return ins


def branch_polarity(fn, term, idx):
    """True / False for the two-way branches of if/while/for/do/&&/||/?:,
    None otherwise (switch, goto...)."""
    if term is None:
        return None
    k = term['k']
    if k in ('if', 'while', 'for', 'do', 'cond'):
        return idx == 0
    if k == 'bin' and term.get('op') in ('&&', '||'):
        return idx == 0
    return None


def switch_case_of(fn, term, succ):
    """for an edge of a switch terminator: the case/default node labelling the
    successor block (None if the successor is the block after the switch)"""
    if term is None or term['k'] != 'switch':
        return None
    lab = fn.blocks[succ].get('label')
    if lab is None:
        return None
    n = fn.node(lab)
    if n is not None and n['k'] in ('case', 'default'):
        return n
    return None


def bit_test_outcome(fn, cond, polarity):
    """a branch on a bit test and its outcome: (node of the tested lvalue, mask, bit set?)
    for `X & M`, `!(X & M)`, `(X & M) != 0`, `(X & M) == 0`, `(X & M) == M`, `0 == (X & M)`
    taken with the given polarity; None for anything else"""
    from . import cfgutil as cu
    c, pol = normalise_cond(fn, cond, polarity)
    c = cu.strip_casts(fn, c) if c is not None else None
    if c is None:
        return None
    if c['k'] == 'bin' and c.get('op') in ('==', '!='):
        a, b = cu.strip_casts(fn, fn.kid(c, 0)), cu.strip_casts(fn, fn.kid(c, 1))
        for x, y in ((a, b), (b, a)):
            if x is not None and x['k'] == 'bin' and x.get('op') == '&' and y is not None:
                m = cu.const_of(cu.strip_casts(fn, fn.kid(x, 1)))
                v = cu.const_of(y)
                if m is None or v is None:
                    continue
                if v == 0:
                    isset = (c['op'] == '!=') == pol
                elif v == m:
                    isset = (c['op'] == '==') == pol
                else:
                    continue
                return fn.kid(x, 0), m, isset
        return None
    if c['k'] == 'bin' and c.get('op') == '&':
        m = cu.const_of(cu.strip_casts(fn, fn.kid(c, 1)))
        if m is None:
            return None
        return fn.kid(c, 0), m, pol
    return None


def effective_cond(fn, cond):
    """the operand whose truth decides a two-way branch: for a terminator
    whose condition is `A && B` / `A || B` the block only evaluates the
    right-most operand (the others have their own blocks)."""
    n = cond
    while n is not None:
        if n['k'] == 'bin' and n.get('op') in ('&&', '||'):
            n = fn.kid(n, 1)
        elif n['k'] == 'cast':
            n = fn.kid(n, 0)
        else:
            break
    return n


def normalise_cond(fn, cond, polarity):
    """strip leading `!` (flipping polarity) and casts from the deciding
    operand of a branch. returns (core expression node, polarity)"""
    n = effective_cond(fn, cond)
    while n is not None:
        if n['k'] == 'un' and n.get('op') == '!':
            n = fn.kid(n, 0)
            while n is not None and n['k'] == 'cast':
                n = fn.kid(n, 0)
            polarity = not polarity
            continue
        break
    return n, polarity


# ---------------------------------------------------------------------------
# Correlated simple conditions: `if (x != NULL) a(); ... if (x != NULL) b();`
# Facts ('eq'|'ne', <lvalue text>, <const>) are learned on branch edges and
# from the if-statements that enclose the starting point, killed when the
# lvalue is assigned, and make contradicting edges infeasible.

class CondTracker(object):
    def __init__(self, fn, extra=()):
        self.fn = fn
        self._tracked = None
        self.extra = set(extra)

    def tracked(self):
        """lvalues worth remembering: tested by at least two branch conditions
        of the function (the only way two branches can be correlated)"""
        if self._tracked is None:
            fn = self.fn
            cnt = {}
            for n in fn.all_nodes():
                conds = []
                if n['k'] in ('if', 'while', 'do', 'cond'):
                    ks = fn.kids(n)
                    if ks:
                        conds.append(ks[-1] if n['k'] == 'do' else ks[0])
                elif n['k'] == 'for':
                    parts = n.get('parts', [])
                    if len(parts) == 4 and parts[1] >= 0:
                        conds.append(fn.node(parts[1]))
                for c in conds:
                    seen = set()
                    stack = [c]
                    while stack:
                        x = stack.pop()
                        if x is None:
                            continue
                        while x is not None and x['k'] == 'cast':
                            x = fn.kid(x, 0)
                        if x is None:
                            continue
                        if x['k'] == 'bin' and x.get('op') in ('&&', '||'):
                            stack.extend(fn.kids(x))
                            continue
                        if x['k'] == 'un' and x.get('op') == '!':
                            stack.append(fn.kid(x, 0))
                            continue
                        imp = self.implied(x, True)
                        if imp is not None:
                            seen.add(imp[1])
                    for lv in seen:
                        cnt[lv] = cnt.get(lv, 0) + 1
            # flag variables: locals assigned a constant somewhere and tested
            flags = set()
            for n in fn.all_nodes():
                if n['k'] == 'bin' and n.get('op') == '=':
                    l = fn.kid(n, 0)
                    r = fn.kid(n, 1)
                    while r is not None and r['k'] == 'cast':
                        r = fn.kid(r, 0)
                    if l is not None and l['k'] == 'ref' and l.get('dk') == 'local' and \
                            r is not None and 'v' in r and l['name'] in cnt:
                        flags.add(l['name'])
            # locals defined as the value of a && / || chain and tested later
            for n in fn.all_nodes():
                src = None
                name = None
                if n['k'] == 'decl' and n.get('c'):
                    name, src = n.get('name'), fn.kid(n, 0)
                elif n['k'] == 'bin' and n.get('op') == '=':
                    l = fn.kid(n, 0)
                    if l is not None and l['k'] == 'ref' and l.get('dk') == 'local':
                        name, src = l['name'], fn.kid(n, 1)
                while src is not None and src['k'] in ('cast', 'paren'):
                    src = fn.kid(src, 0)
                if name and src is not None and src['k'] == 'bin' and src.get('op') in ('&&', '||') \
                        and name in cnt:
                    flags.add(name)
            self._tracked = set(lv for lv, c in cnt.items() if c >= 2) | flags | self.extra
        return self._tracked

    def short_circuit_value(self, term, pol):
        """the && / || expression `term` was left through operand polarity `pol` of its
        left operand: which enclosing logical expression is thereby decided, and to what?
        Returns (node id of the outermost decided expression, value) or None."""
        fn = self.fn
        if term is None or term['k'] != 'bin' or term.get('op') not in ('&&', '||'):
            return None
        if (term['op'] == '&&' and pol) or (term['op'] == '||' and not pol):
            return None                 # the right operand decides
        val = (term['op'] == '||')      # && left false -> false ; || left true -> true
        cur = term
        while True:
            p = fn.parent(cur)
            child = cur
            while p is not None and p['k'] in ('cast', 'paren'):
                child = p
                p = fn.parent(p)
            if p is None or p['k'] != 'bin' or p.get('op') not in ('&&', '||'):
                break
            is_left = fn.kid(p, 0) is child
            if p['op'] == '&&':
                if not val:
                    cur = p             # false operand makes the && false
                    continue
                if is_left:
                    break               # true && X  =  X
                cur = p                 # left was true already
                continue
            if val:
                cur = p                 # true operand makes the || true
                continue
            if is_left:
                break                   # false || X  =  X
            cur = p
        return (cur['i'], 1 if val else 0)

    def _lv(self, n):
        fn = self.fn
        while n is not None and (n['k'] == 'cast' or
                                 (n['k'] == 'bin' and n.get('op') == '=')):
            # `(v = f()) == NULL` tests v
            n = fn.kid(n, 0)
        if n is None:
            return None
        if n['k'] == 'ref' and n.get('dk') in ('local', 'param'):
            return n['name']
        if n['k'] == 'member':
            root = n
            depth = 0
            while root is not None and root['k'] in ('member', 'cast') and depth < 6:
                root = fn.kid(root, 0)
                depth += 1
            if root is not None and root['k'] == 'ref' and root.get('dk') in ('local', 'param'):
                return fn.show(n)
        return None

    def implied(self, cond, polarity):
        """fact implied by `cond` evaluating to `polarity`, or None"""
        fn = self.fn
        c, pol = normalise_cond(fn, cond, polarity)
        if c is None:
            return None
        if c['k'] == 'bin' and c.get('op') in ('==', '!='):
            a, b = fn.kid(c, 0), fn.kid(c, 1)
            for x, y in ((a, b), (b, a)):
                lv = self._lv(x)
                yy = y
                while yy is not None and yy['k'] == 'cast':
                    yy = fn.kid(yy, 0)
                if lv is not None and yy is not None and 'v' in yy and yy['k'] in ('int', 'char', 'ref', 'un', 'bin'):
                    eq = (c['op'] == '==') == pol
                    return ('eq' if eq else 'ne', lv, yy['v'])
            return None
        lv = self._lv(c)
        if lv is not None:
            return ('ne' if pol else 'eq', lv, 0)
        return None

    @staticmethod
    def consistent(facts, new):
        kind, lv, c = new
        for f in facts:
            if not isinstance(f, tuple) or len(f) != 3 or f[1] != lv:
                continue
            if f[0] == 'eq' and kind == 'eq' and f[2] != c:
                return False
            if f[0] == 'eq' and kind == 'ne' and f[2] == c:
                return False
            if f[0] == 'ne' and kind == 'eq' and f[2] == c:
                return False
        return True

    def on_edge(self, term, cond, idx, facts):
        """returns facts refined by the branch, or None if infeasible"""
        pol = branch_polarity(self.fn, term, idx)
        if pol is None or cond is None:
            return facts
        sc = self.short_circuit_value(term, pol)
        if sc is not None:
            facts = frozenset(facts) | {('sc', sc[0], sc[1])}
        # a branch on a boolean that stands for the last operand of a chain
        c0, p0 = normalise_cond(self.fn, cond, pol)
        if c0 is not None and c0['k'] == 'ref':
            for x in facts:
                if isinstance(x, tuple) and len(x) == 3 and x[0] == 'last' and x[1] == c0['name']:
                    new = self.implied(self.fn.nodes[x[2]], p0)
                    if new is not None:
                        if not self.consistent(facts, new):
                            return None
                        facts = frozenset(facts) | {new}
        new = self.implied(cond, pol)
        if new is None:
            return facts
        if not self.consistent(facts, new):
            return None
        if new[1] not in self.tracked():
            return facts
        return frozenset(facts) | {new}

    def on_step(self, n, facts):
        """kill facts about lvalues that n modifies"""
        fn = self.fn
        scs = [x for x in facts if isinstance(x, tuple) and len(x) == 3 and x[0] == 'sc']
        if scs and (n['k'] == 'decl' or (n['k'] == 'bin' and n.get('op') == '=')):
            # `x = A && B ...` reached through a short-circuit exit: x has that value
            src = fn.kid(n, 0) if n['k'] == 'decl' else fn.kid(n, 1)
            name = n.get('name') if n['k'] == 'decl' else None
            if n['k'] == 'bin':
                l = fn.kid(n, 0)
                name = l['name'] if l is not None and l['k'] == 'ref' else None
            while src is not None and src['k'] in ('cast', 'paren'):
                src = fn.kid(src, 0)
            facts = frozenset(x for x in facts if x not in scs)
            if name and src is not None and name in self.tracked():
                for x in scs:
                    if x[1] == src['i']:
                        facts = self.on_step_plain(n, facts)
                        return frozenset(facts) | {('eq', name, x[2])}
        if n['k'] == 'decl' or (n['k'] == 'bin' and n.get('op') == '='):
            # `x = A && B && C` reached without a short-circuit exit: x is C
            src = fn.kid(n, 0) if n['k'] == 'decl' else fn.kid(n, 1)
            name = n.get('name') if n['k'] == 'decl' else None
            if n['k'] == 'bin':
                l = fn.kid(n, 0)
                name = l['name'] if l is not None and l['k'] == 'ref' else None
            while src is not None and src['k'] in ('cast', 'paren'):
                src = fn.kid(src, 0)
            if name and src is not None and src['k'] == 'bin' and src.get('op') in ('&&', '||') and \
                    name in self.tracked():
                leaf = src
                while leaf is not None and leaf['k'] == 'bin' and leaf.get('op') in ('&&', '||'):
                    leaf = fn.kid(leaf, 1)
                    while leaf is not None and leaf['k'] in ('cast', 'paren'):
                        leaf = fn.kid(leaf, 0)
                facts = self.on_step_plain(n, facts)
                facts = frozenset(x for x in facts if not (isinstance(x, tuple) and x[0] == 'last' and x[1] == name))
                if leaf is not None:
                    facts = facts | {('last', name, leaf['i'])}
                return facts
        return self.on_step_plain(n, facts)

    def split_on_assigned_comparison(self, n, facts):
        """`flag = (p != NULL)` (assignment or initialised declaration of a comparison of
        an lvalue with a constant): the path splits into the outcome where the comparison
        holds and the one where it does not, each knowing both the compared lvalue and the
        flag.  Returns a list of fact sets (infeasible outcomes dropped) or None when n is
        not of that form."""
        fn = self.fn
        name = src = None
        if n['k'] == 'decl' and n.get('c'):
            name, src = n.get('name'), fn.kid(n, 0)
        elif n['k'] == 'bin' and n.get('op') == '=':
            l = fn.kid(n, 0)
            if l is not None and l['k'] == 'ref' and l.get('dk') == 'local':
                name, src = l['name'], fn.kid(n, 1)
        while src is not None and src['k'] in ('cast', 'paren'):
            src = fn.kid(src, 0)
        if not name or src is None or not (src['k'] == 'bin' and src.get('op') in ('==', '!=')):
            return None
        it, iff = self.implied(src, True), self.implied(src, False)
        if it is None or iff is None or it[1] == name:
            return None
        out = []
        base = self.on_step_plain(n, facts)
        for imp, val in ((it, 1), (iff, 0)):
            if not self.consistent(base, imp):
                continue
            keep = frozenset(x for x in base if not (isinstance(x, tuple) and len(x) == 3 and
                                                     x[0] in ('eq', 'ne') and x[1] == name))
            out.append(keep | {imp, ('eq', name, val)})
        return out

    def on_step_plain(self, n, facts):
        fn = self.fn
        tgt = None
        if n['k'] == 'bin' and n.get('op', '').endswith('=') and n['op'] not in ('==', '!=', '<=', '>='):
            tgt = fn.kid(n, 0)
        elif n['k'] == 'un' and n.get('op') in ('&', '++', '--', 'post++', 'post--'):
            tgt = fn.kid(n, 0)
        elif n['k'] == 'decl':
            name = n.get('name')
            keep = [f for f in facts if not (isinstance(f, tuple) and len(f) == 3 and f[1] == name)]
            # `int result = ERROR_SUCCESS;` : the initial value is known
            if n.get('c') and name in self.tracked():
                r = fn.kid(n, 0)
                while r is not None and r['k'] == 'cast':
                    r = fn.kid(r, 0)
                if r is not None and 'v' in r and r['k'] in ('int', 'char', 'ref', 'un', 'bin'):
                    keep.append(('eq', name, r['v']))
            if len(keep) != len(facts) or (keep and keep[-1] not in facts):
                return frozenset(keep)
            return facts
        if tgt is None:
            return facts
        lv = self._lv(tgt) if tgt['k'] != 'bin' else None
        if lv is None:
            return facts
        learned = None
        if n['k'] == 'bin' and n.get('op') == '=':
            r = fn.kid(n, 1)
            while r is not None and r['k'] == 'cast':
                r = fn.kid(r, 0)
            if r is not None and 'v' in r and r['k'] in ('int', 'char', 'ref', 'un', 'bin', 'cast'):
                learned = ('eq', lv, r['v'])
        if learned is not None and lv not in self.tracked():
            learned = None
        if learned is not None:
            keep = [f for f in facts if not (isinstance(f, tuple) and len(f) == 3 and
                                             f[0] in ('eq', 'ne') and
                                             (f[1] == lv or f[1].startswith(lv + '->') or
                                              f[1].startswith(lv + '.')))]
            keep.append(learned)
            return frozenset(keep)
        keep = []
        changed = False
        for f in facts:
            if isinstance(f, tuple) and len(f) == 3 and f[0] in ('eq', 'ne') and \
                    (f[1] == lv or f[1].startswith(lv + '->') or f[1].startswith(lv + '.')):
                changed = True
                continue
            keep.append(f)
        return frozenset(keep) if changed else facts

    def enclosing_facts(self, node):
        """facts implied by the if-statements whose branch contains node"""
        fn = self.fn
        out = set()
        child = node
        for a in fn.ancestors(node):
            if a['k'] == 'if':
                ks = fn.kids(a)
                if len(ks) >= 2 and child is not ks[0]:
                    pol = child is ks[1]
                    cond = ks[0]
                    # only a plain condition or the operands of a && chain
                    # (then-branch) / || chain (else-branch) are implied
                    stack = [cond]
                    while stack:
                        c = stack.pop()
                        cc = c
                        while cc is not None and cc['k'] == 'cast':
                            cc = fn.kid(cc, 0)
                        if cc is not None and cc['k'] == 'bin' and cc.get('op') == '&&' and pol:
                            stack.extend(fn.kids(cc))
                            continue
                        if cc is not None and cc['k'] == 'bin' and cc.get('op') == '||' and not pol:
                            stack.extend(fn.kids(cc))
                            continue
                        if cc is not None and cc['k'] == 'bin' and cc.get('op') in ('&&', '||'):
                            continue
                        new = self.implied(cc, pol)
                        if new is not None and self.consistent(out, new) and \
                                new[1] in self.tracked():
                            out.add(new)
            child = a
        return out


def value_holder(fn, call):
    """how the value of `call` is kept: ('ret', node) when it is returned directly,
    ('var', name, node) when a declaration or assignment stores it, ('expr', node)
    when it is used in place (a condition, an argument), ('dropped', node)"""
    p = fn.parent(call)
    while p is not None and p['k'] in ('cast', 'paren'):
        if p['k'] == 'cast' and p.get('t') == 'void':
            return ('dropped', p)
        p = fn.parent(p)
    if p is None or p['k'] in ('compound', 'case', 'default', 'label'):
        return ('dropped', p)
    if p['k'] == 'ret':
        return ('ret', p)
    if p['k'] == 'decl':
        return ('var', p['name'], p)
    if p['k'] == 'bin' and p['op'] == '=':
        l = fn.kid(p, 0)
        if l is not None and l['k'] == 'ref' and fn.kid(p, 1) is not l:
            return ('var', l['name'], p)
    if p['k'] in ('if', 'while', 'for', 'do') and not any(x is call for x in fn.walk(fn.kid(p, 0))):
        return ('dropped', p)
    return ('expr', p)


def error_propagated(fn, call):
    """Does fn hand a non-zero result of `call` on to its own caller unchanged?
    Returns (True, None) or (False, offending node).  Accepts `return call(..)`,
    the repo's FAIL_ON_ERROR idiom (a local compared with 0, then returned) and
    `x = call(..); if (x != 0) goto out; ... out: return x;`."""
    h = value_holder(fn, call)
    if h[0] == 'ret':
        return True, None
    if h[0] != 'var':
        return False, h[1] if h[1] is not None else call
    var, at = h[1], h[2]
    ct = CondTracker(fn, extra=[var])
    bad = []

    def step(n, facts):
        if n['k'] == 'bin' and n['op'].endswith('=') and n['op'] not in ('==', '!=', '<=', '>=') and n is not at:
            l = fn.kid(n, 0)
            if l is not None and l['k'] == 'ref' and l['name'] == var:
                if 'err' in facts or 'ok' not in facts:
                    bad.append(n)    # overwritten while it may hold an error
                return None          # the variable now holds something else
        if n['k'] == 'ret':
            if 'err' in facts or 'ok' not in facts:
                e = fn.kid(n, 0) if n.get('c') else None
                while e is not None and e['k'] in ('cast', 'paren'):
                    e = fn.kid(e, 0)
                if not (e is not None and e['k'] == 'ref' and e['name'] == var):
                    bad.append(n)
            return None
        return facts

    def edge(b, term, cond, idx, succ, facts):
        pol = branch_polarity(fn, term, idx)
        if pol is None or cond is None:
            return facts
        imp = ct.implied(cond, pol)
        if imp is not None and imp[1] == var and imp[2] == 0:
            if imp[0] == 'ne':
                return None if 'ok' in facts else facts | {'err'}
            return None if 'err' in facts else facts | {'ok'}
        return facts
    nb = fn.block_of(call)
    explore(fn, set(), step, edge, start_block=nb[0], start_index=nb[1] + 1, max_states=256)
    return (not bad), (bad[0] if bad else None)


def error_not_lost(fn, call):
    """The value of `call` (an error code, 0 = success) is not thrown away: it is returned,
    or kept in a variable that is tested against 0 before that variable is assigned
    again or the function ends without returning it.  Returns (True, None) or
    (False, offending node)."""
    h = value_holder(fn, call)
    if h[0] in ('ret', 'expr'):
        return True, None
    if h[0] != 'var':
        return False, h[1] if h[1] is not None else call
    var, at = h[1], h[2]
    ct = CondTracker(fn, extra=[var])
    bad = []

    def step(n, facts):
        if n['k'] == 'bin' and n['op'].endswith('=') and n['op'] not in ('==', '!=', '<=', '>=') and n is not at:
            l = fn.kid(n, 0)
            if l is not None and l['k'] == 'ref' and l['name'] == var:
                if 'tested' not in facts:
                    bad.append(n)
                return None
        if n['k'] == 'ret':
            if 'tested' not in facts:
                e = fn.kid(n, 0) if n.get('c') else None
                while e is not None and e['k'] in ('cast', 'paren'):
                    e = fn.kid(e, 0)
                if not (e is not None and e['k'] == 'ref' and e['name'] == var):
                    bad.append(n)
            return None
        return facts

    def edge(b, term, cond, idx, succ, facts):
        pol = branch_polarity(fn, term, idx)
        if pol is None or cond is None:
            return facts
        imp = ct.implied(cond, pol)
        if imp is not None and imp[1] == var:
            return frozenset(facts) | {'tested'}
        return facts
    nb = fn.block_of(call)
    explore(fn, set(), step, edge, start_block=nb[0], start_index=nb[1] + 1, max_states=256)
    return (not bad), (bad[0] if bad else None)

"""A small reader for bison grammar files: rules, alternatives, the symbols of
each right-hand side (mid-rule actions count as symbols), the line span of
every action block, and the symbols that have a %destructor."""
import re


class Action(object):
    def __init__(self, lhs, alt_index, pos, nsyms_before, symbols, start_line, end_line, final):
        self.lhs = lhs
        self.alt_index = alt_index
        self.pos = pos                  # position of the action among the rhs elements (0-based)
        self.nsyms_before = nsyms_before
        self.symbols = symbols          # rhs symbols preceding the action (names)
        self.start_line = start_line
        self.end_line = end_line
        self.final = final              # last element of its alternative

    def __repr__(self):
        return '<Action %s#%d @%d-%d n=%d %s>' % (self.lhs, self.alt_index, self.start_line,
                                                 self.end_line, self.nsyms_before,
                                                 'final' if self.final else 'mid')


def _tokenise(text, line0):
    """yield (kind, value, line, end_line) for the rules section"""
    i = 0
    n = len(text)
    line = line0
    while i < n:
        c = text[i]
        if c == '\n':
            line += 1
            i += 1
            continue
        if c.isspace():
            i += 1
            continue
        if text.startswith('//', i):
            j = text.find('\n', i)
            i = n if j < 0 else j
            continue
        if text.startswith('/*', i):
            j = text.find('*/', i)
            j = n if j < 0 else j + 2
            line += text.count('\n', i, j)
            i = j
            continue
        if c == '{':
            depth = 0
            j = i
            start = line
            while j < n:
                ch = text[j]
                if ch == '\n':
                    line += 1
                elif ch == '"':
                    j += 1
                    while j < n and text[j] != '"':
                        if text[j] == '\\':
                            j += 1
                        if text[j] == '\n':
                            line += 1
                        j += 1
                elif ch == "'":
                    j += 1
                    while j < n and text[j] != "'":
                        if text[j] == '\\':
                            j += 1
                        j += 1
                elif text.startswith('//', j):
                    k = text.find('\n', j)
                    j = (n if k < 0 else k) - 1
                elif text.startswith('/*', j):
                    k = text.find('*/', j)
                    k = n if k < 0 else k + 1
                    line += text.count('\n', j, k)
                    j = k
                elif ch == '{':
                    depth += 1
                elif ch == '}':
                    depth -= 1
                    if depth == 0:
                        break
                j += 1
            yield ('action', text[i:j + 1], start, line)
            i = j + 1
            continue
        if c == "'":
            j = i + 1
            while j < n and text[j] != "'":
                if text[j] == '\\':
                    j += 1
                j += 1
            yield ('sym', text[i:j + 1], line, line)
            i = j + 1
            continue
        if c == '"':
            j = i + 1
            while j < n and text[j] != '"':
                if text[j] == '\\':
                    j += 1
                j += 1
            yield ('sym', text[i:j + 1], line, line)
            i = j + 1
            continue
        if c in ':|;':
            yield (c, c, line, line)
            i += 1
            continue
        if c == '%':
            m = re.match(r'%(\w+)', text[i:])
            word = m.group(1) if m else ''
            i += len(m.group(0)) if m else 1
            if word == 'prec':
                m2 = re.match(r'\s+(\S+)', text[i:])
                if m2:
                    i += len(m2.group(0))
            elif word == 'empty':
                pass
            continue
        m = re.match(r'[A-Za-z_][A-Za-z0-9_.]*', text[i:])
        if m:
            yield ('sym', m.group(0), line, line)
            i += len(m.group(0))
            continue
        i += 1


def parse(text):
    """returns (actions, destructor_symbols, typed) for a .y file"""
    parts = text.split('\n%%')
    head = parts[0]
    rules_text = parts[1] if len(parts) > 1 else ''
    line0 = head.count('\n') + 2
    destruct = set()
    for m in re.finditer(r'%destructor\s*\{', head):
        # find the matching brace, then the symbol list up to end of statement
        i = m.end() - 1
        depth = 0
        j = i
        while j < len(head):
            if head[j] == '{':
                depth += 1
            elif head[j] == '}':
                depth -= 1
                if depth == 0:
                    break
            j += 1
        rest = head[j + 1:]
        mm = re.match(r'([^\n%]*)', rest)
        for s in re.findall(r'<\w+>|[A-Za-z_]\w*', mm.group(1)):
            destruct.add(s)
    typed = {}
    for m in re.finditer(r'%(?:token|type)\s+<(\w+)>\s+([^\n]*)', head):
        for s in re.findall(r'[A-Za-z_]\w*', re.sub(r'"[^"]*"', '', m.group(2))):
            typed[s] = m.group(1)
    actions = []
    toks = list(_tokenise(rules_text, line0))
    i = 0
    lhs = None
    alt = 0
    elems = []      # current alternative: list of ('sym', name) / ('action', start, end)

    def flush():
        if lhs is None:
            return
        syms = []
        for idx, e in enumerate(elems):
            if e[0] == 'action':
                final = idx == len(elems) - 1
                actions.append(Action(lhs, alt, idx, len(syms), list(syms), e[1], e[2], final))
                syms.append('$@mid')
            else:
                syms.append(e[1])
    while i < len(toks):
        k, v, l, e = toks[i]
        if k == 'sym' and i + 1 < len(toks) and toks[i + 1][0] == ':':
            flush()
            lhs = v
            alt = 0
            elems = []
            i += 2
            continue
        if k == '|':
            flush()
            alt += 1
            elems = []
        elif k == ';':
            flush()
            lhs = None
            elems = []
        elif k == 'sym':
            elems.append(('sym', v))
        elif k == 'action':
            elems.append(('action', l, e))
        i += 1
    flush()
    return actions, destruct, typed

"""debug helpers: python3 -m yrsa.dbg <fn> [tu]  — dump statements"""
import sys
from . import extract
from .facts import Program
from . import cfgutil as cu

def dump(fn, n, ind=0, maxd=30):
    k=n['k']
    if k in ('compound','if','while','for','do','switch','case','default','declstmt','label','stmtexpr'):
        print('%s%s @%s %s m=%s' % ('  '*ind, k, n.get('l'), n.get('name',n.get('mn','')), list(fn.macros(n))))
        for c in fn.kids(n):
            dump(fn,c,ind+1,maxd)
    else:
        print('%s%s   @%s m=%s' % ('  '*ind, fn.show(n), n.get('l'), list(fn.macros(n))))

if __name__=='__main__':
    fdir,info=extract.prepare()
    p=Program(fdir)
    f=p.fn(sys.argv[1], sys.argv[2] if len(sys.argv)>2 else None)
    if len(sys.argv)>3:
        lo,hi=map(int,sys.argv[3].split('-'))
        for sw in cu.find_switches(f):
            for labels,stmts in cu.switch_groups(f,sw):
                if stmts and lo<=stmts[0].get('l',0)<=hi:
                    print('== group', [cu.case_label_name(l) for l in labels])
                    for s in stmts: dump(f,s,1)
    else:
        dump(f,f.nodes[0])

"""C04 — rule conditions evaluate per the documented semantics.

Decides (DESIGN.md §4 C04):
  R4.1 every opcode the compiler can emit has a handler in the VM dispatch;
  R4.2 per opcode, the operand bytes written by every emitter equal the bytes
       the handler consumes on every non-jumping path (finite table, proof);
  R4.3 every handler that reads the value of a popped operand first passes
       the undefined test on every path, and pushes undefined on that path
       (exception table: and/or/defined/not, loop protocol, match queries);
  R4.4 the grammar's precedence/associativity declarations equal the table in
       docs/writingrules.rst;
  R4.5 clone families inside the VM (quantifier evaluation, range tests)
       agree.
Not decided: the arithmetic itself, loop semantics over run-time sets.
"""
import re

from .. import cfgutil as cu
from .. import paths
from .C12 import vm_groups, yyparse, action_groups

USES_PARSERS = True
LEVEL = 'other'
EXPLANATION = (
    'Exhaustiveness and writer/reader agreement between the bytecode emitters '
    '(grammar actions, parser.c, compiler.c) and the VM dispatch switch, '
    'computed from clang AST/CFG facts: emitted-opcode set vs handler set, '
    'operand widths per opcode on every non-jump path of its handler, '
    'undefined-operand typestate per handler, the grammar precedence block vs '
    'the manual\'s table, and sibling comparison of duplicated quantifier / '
    'range code. Decides these structural clauses, not evaluation results.')
ASSUMPTIONS = [
    'configuration analysed: Linux/x86-64 as configured in /repo',
    'jmp_if(c, ip) consumes a 4-byte offset when the jump is not taken '
    '(checked against its body by R4.2j)',
    'string / iterator / object operands pushed by the compiler as relocated '
    'pointers are never the undefined pattern (R4.3 covers .i/.d/.ss/.re/.o value reads)',
]

EMITTERS = ('yr_parser_emit', 'yr_parser_emit_with_arg', 'yr_parser_emit_with_arg_int32',
            'yr_parser_emit_with_arg_double', 'yr_parser_emit_with_arg_reloc')

COMPILER_TUS = ('libyara/grammar.c', 'libyara/parser.c', 'libyara/compiler.c')


def _opname(prog, v):
    names = [k for k, x in prog.macros_with_prefix('OP_').items()
             if x == v and k not in ('OP_INT_BEGIN', 'OP_INT_END', 'OP_DBL_BEGIN', 'OP_DBL_END',
                                     'OP_STR_BEGIN', 'OP_STR_END', 'OP_READ_INT')]
    names.sort(key=len)
    return names[0] if names else 'opcode#%s' % v


def code_section(prog):
    v = prog.macro_value('YR_CODE_SECTION')
    if v is None:
        v = prog.enums.get('YR_CODE_SECTION')
    return v


def emitter_widths(ctx):
    """operand bytes each generic emitter writes after the opcode byte"""
    prog = ctx.prog
    cs = code_section(prog)
    ctx.require(cs is not None, 'YR_CODE_SECTION not evaluable')
    out = {}
    for name in EMITTERS:
        f = ctx.fn(name, 'libyara/parser.c')
        total = 0
        n = 0
        for c in f.calls():
            if c.get('callee') != 'yr_arena_write_data':
                continue
            a = f.call_args(c)
            if cu.const_of(a[1]) != cs:
                continue
            sz = cu.const_of(a[3])
            ctx.require(sz is not None, '%s: non-constant write size' % name)
            total += sz
            n += 1
        ctx.require(n >= 1, '%s writes nothing to the code section' % name)
        out[name] = total - 1
    return out


def push_const_table(ctx):
    """opcode -> operand bytes, from the branches of yr_parser_emit_push_const.  The
    opcode buffer and its length are whatever the function hands to the arena write."""
    f = ctx.fn('yr_parser_emit_push_const', 'libyara/parser.c')
    buf = ln = None
    for c in f.calls():
        if c.get('callee') == 'yr_arena_write_data':
            a = f.call_args(c)
            x, y = cu.strip_casts(f, a[2]), cu.strip_casts(f, a[3])
            if x is not None and x['k'] == 'ref' and y is not None and y['k'] == 'ref':
                buf, ln = x['name'], y['name']
    ctx.require(buf is not None, 'yr_parser_emit_push_const: no arena write of a local opcode buffer')
    table = {}
    for n in f.all_nodes():
        if n['k'] != 'bin' or n['op'] != '=':
            continue
        lhs = f.kid(n, 0)
        if lhs is None or lhs['k'] != 'sub':
            continue
        b, i = f.kid(lhs, 0), f.kid(lhs, 1)
        if b is None or b['k'] != 'ref' or b['name'] != buf or cu.const_of(i) != 0:
            continue
        op = cu.const_of(f.kid(n, 1))
        if op is None:
            continue
        comp = f.parent(n)
        w = 0
        if comp is not None and comp['k'] == 'compound':
            for s in f.kids(comp):
                if s['k'] == 'bin' and s['op'] == '+=':
                    l = f.kid(s, 0)
                    if l is not None and l['k'] == 'ref' and l['name'] == ln:
                        w += cu.const_of(f.kid(s, 1)) or 0
        table[op] = (w, f.loc(n))
    ctx.require(len(table) >= 4, 'yr_parser_emit_push_const: opcode table not recognised')
    return table


def lexer_token_domain(ctx, token):
    """set of values yylval->integer can hold when yylex returns `token`"""
    prog = ctx.prog
    tv = prog.enums.get(token)
    ctx.require(tv is not None, 'token %s not found' % token)
    f = ctx.fn('yara_yylex', 'libyara/lexer.c')
    rets = [n for n in f.all_nodes() if n['k'] == 'ret' and f.kid(n, 0) is not None
            and cu.const_of(f.kid(n, 0)) == tv]
    ctx.require(rets, 'lexer never returns %s' % token)
    values = set()
    for r in rets:
        # enclosing action = case group of the action switch
        start = None
        for a in f.ancestors(r):
            p = f.parent(a)
            if a['k'] == 'case' and p is not None:
                start = cu.label_block(f, a)
                if start is not None:
                    break
        ctx.require(start is not None, 'lexer action of %s not located' % token)

        def is_yylval_int(n):
            root, path = cu.member_path(f, n)
            if root is None or root['k'] != 'ref' or not path or path[-1] != 'integer':
                return False
            # `yylval` is flex's macro for yyg->yylval_r
            return root['name'] == 'yylval' or 'yylval_r' in path

        def step(n, facts):
            if n['k'] == 'bin' and n['op'] in ('=', '+=') and is_yylval_int(f.kid(n, 0)):
                c = cu.const_of(f.kid(n, 1))
                cur = [x[1] for x in facts if x[0] == 'v']
                if c is None:
                    return frozenset([('v', None)])
                if n['op'] == '=':
                    return frozenset([('v', c)])
                base = cur[0] if cur else None
                return frozenset([('v', None if base is None else base + c)])
            if n['k'] == 'ret':
                if n is r:
                    for x in facts:
                        if x[0] == 'v':
                            values.add(x[1])
                return None
            return facts
        paths.explore(f, set(), step, None, start_block=start, max_states=256)
    ctx.require(values and None not in values,
                'lexer value domain of %s not constant: %s' % (token, values))
    return values


def _const_values(f, e, depth=0):
    """the constants an expression can yield: a constant, a conditional expression over
    such, a local assigned only such, or a call of a function of the unit that returns
    only such (the operator's position computed by a helper).  None when not enumerable."""
    e = cu.strip_casts(f, e)
    if e is None or depth > 4:
        return None
    c = cu.const_of(e)
    if c is not None:
        return set([c])
    if e['k'] == 'cond':
        a, b = _const_values(f, f.kid(e, 1), depth + 1), _const_values(f, f.kid(e, 2), depth + 1)
        return None if a is None or b is None else a | b
    if e['k'] == 'call':
        h = f.tu.functions.get(e.get('callee') or '')
        if h is None or h is f:
            return None
        out = set()
        for n in h.all_nodes():
            if n['k'] == 'ret' and n.get('c'):
                v = _const_values(h, h.kid(n, 0), depth + 1)
                if v is None:
                    return None
                out |= v
        return out or None
    if e['k'] == 'ref' and e.get('dk') == 'local':
        out = set()
        for n in f.all_nodes():
            src = None
            if n['k'] == 'decl' and n['name'] == e['name'] and n.get('c'):
                src = f.kid(n, 0)
            elif n['k'] == 'bin' and n['op'] == '=':
                l = cu.strip_casts(f, f.kid(n, 0))
                if l is not None and l['k'] == 'ref' and l['name'] == e['name']:
                    src = f.kid(n, 1)
            elif n['k'] == 'bin' and n['op'].endswith('=') and n['op'] not in ('==', '!=', '<=', '>='):
                l = cu.strip_casts(f, f.kid(n, 0))
                if l is not None and l['k'] == 'ref' and l['name'] == e['name']:
                    return None
            if src is not None:
                v = _const_values(f, src, depth + 1)
                if v is None:
                    return None
                out |= v
        return out or None
    return None


def operator_opcodes(ctx):
    """every opcode _yr_parser_operator_to_opcode can return"""
    prog = ctx.prog
    f = ctx.fn('_yr_parser_operator_to_opcode', 'libyara/parser.c')
    bases, offs = set(), set()
    # the variable whose value the function returns
    OPV = None
    for n in f.all_nodes():
        if n['k'] == 'ret' and n.get('c'):
            e = cu.strip_casts(f, f.kid(n, 0))
            if e is not None and e['k'] == 'ref':
                OPV = e['name']
    ctx.require(OPV is not None, '_yr_parser_operator_to_opcode returns no variable')
    for n in f.all_nodes():
        if n['k'] == 'bin' and n['op'] == '=':
            l = f.kid(n, 0)
            if l is not None and l['k'] == 'ref' and l['name'] == OPV:
                c = cu.const_of(f.kid(n, 1))
                if c:
                    bases.add(c)
        if n['k'] == 'bin' and n['op'] == '+=':
            l = f.kid(n, 0)
            if l is not None and l['k'] == 'ref' and l['name'] == OPV:
                vs = _const_values(f, f.kid(n, 1))
                ctx.require(vs is not None, 'the operator offset added at %s is not a set of constants' % f.loc(n))
                offs |= vs
    ctx.require(len(bases) >= 3 and len(offs) >= 8, 'operator->opcode map not recognised')
    ranges = []
    for t in ('INT', 'DBL', 'STR'):
        b, e = prog.macro_value('OP_%s_BEGIN' % t), prog.macro_value('OP_%s_END' % t)
        ctx.require(b is not None and e is not None, 'OP_%s_BEGIN/END missing' % t)
        ranges.append((b, e))
    out = set()
    for b in bases:
        for o in offs:
            v = b + o
            # the function returns OP_ERROR unless IS_INT_OP/IS_DBL_OP/IS_STR_OP
            for lo, hi in ranges:
                if lo <= b <= hi and lo <= v <= hi:
                    out.add(v)
    return out


def _compiler_tus(ctx):
    if ctx.fixture:
        return list(ctx.prog.tus.values())
    return [ctx.prog.tu(t) for t in COMPILER_TUS if ctx.prog.tu(t) is not None]


def emitted(ctx, widths, pctab):
    """{opcode: [(width, where, how)]} over all emission sites"""
    prog = ctx.prog
    cs = code_section(prog)
    out = {}
    nsites = [0]

    def add(op, w, where, how):
        out.setdefault(op, []).append((w, where, how))

    opset_cache = {}

    def param_values(fn, pname, depth=0):
        """constants passed for parameter pname of fn at all its call sites"""
        key = (fn.name, pname)
        if key in opset_cache:
            return opset_cache[key]
        opset_cache[key] = set()
        idx = [p['name'] for p in fn.params].index(pname)
        vals = set()
        for tu in _compiler_tus(ctx):
            for g in tu.fn_list:
                for c in g.calls():
                    if c.get('callee') != fn.name:
                        continue
                    a = g.call_args(c)
                    if idx >= len(a):
                        continue
                    r = resolve(g, a[idx], depth + 1)
                    if r is None:
                        vals.add(None)
                    else:
                        vals |= r
        opset_cache[key] = vals
        return vals

    def resolve(fn, e, depth=0):
        e = cu.strip_casts(fn, e)
        if e is None or depth > 3:
            return None
        c = cu.const_of(e)
        if c is not None:
            return set([c & 0xff])
        if e['k'] == 'ref' and e.get('dk') == 'param':
            return param_values(fn, e['name'], depth)
        if e['k'] == 'ref' and e.get('dk') == 'local':
            # local assigned from a call of the operator map
            vals = set()
            for n in fn.all_nodes():
                src = None
                if n['k'] == 'decl' and n['name'] == e['name'] and n.get('c'):
                    src = fn.kid(n, 0)
                if n['k'] == 'bin' and n['op'] == '=':
                    l = fn.kid(n, 0)
                    if l is not None and l['k'] == 'ref' and l['name'] == e['name']:
                        src = fn.kid(n, 1)
                if src is not None:
                    r = resolve(fn, src, depth + 1)
                    if r is None:
                        return None
                    vals |= r
            return vals or None
        if e['k'] == 'call' and e.get('callee') == '_yr_parser_operator_to_opcode':
            return operator_opcodes(ctx)
        if e['k'] == 'bin' and e['op'] == '+':
            a, b = cu.strip_casts(fn, fn.kid(e, 0)), cu.strip_casts(fn, fn.kid(e, 1))
            for x, y in ((a, b), (b, a)):
                cx = cu.const_of(x)
                if cx is None or y is None:
                    continue
                root, path = cu.member_path(fn, y)
                if root is not None and root['k'] == 'ref' and root['name'] == 'yyvsp' \
                        and path and path[-1] == 'integer':
                    dom = lexer_token_domain(ctx, '_INTEGER_FUNCTION_')
                    return set((cx + d) & 0xff for d in dom)
        if e['k'] == 'cond':
            a = resolve(fn, fn.kid(e, 1), depth + 1)
            b = resolve(fn, fn.kid(e, 2), depth + 1)
            if a is None or b is None:
                return None
            return a | b
        return None

    for tu in _compiler_tus(ctx):
        for f in tu.fn_list:
            if f.name in EMITTERS or f.name == 'yr_parser_emit_push_const':
                continue
            # raw writes into the code section, in source order
            events = []
            for c in f.calls():
                cal = c.get('callee')
                if cal in EMITTERS:
                    events.append((c.get('l', 0), c['i'], 'emit', c))
                elif cal == 'yr_parser_emit_push_const':
                    events.append((c.get('l', 0), c['i'], 'pushc', c))
                elif cal == 'yr_arena_write_data':
                    a = f.call_args(c)
                    if cu.const_of(a[1]) == cs:
                        events.append((c.get('l', 0), c['i'], 'raw', c))
            events.sort(key=lambda x: (x[0], x[1]))
            last_ops = None
            for line, _, kind, c in events:
                a = f.call_args(c)
                where = f.loc(c)
                if kind == 'emit':
                    nsites[0] += 1
                    ops = resolve(f, a[1])
                    if ops is None or None in ops:
                        ctx.ob('R4.1', '%s:unresolved-opcode:%s' % (f.name, f.show(a[1])[:40]),
                               False, where,
                               'opcode operand of %s is not a constant, a propagated '
                               'parameter, the operator map or OP_READ_INT+token: the set '
                               'of emitted opcodes cannot be enumerated' % c['callee'])
                        last_ops = None
                        continue
                    last_ops = []
                    for op in ops:
                        ent = [widths[c['callee']], where, c['callee']]
                        out.setdefault(op, []).append(ent)
                        last_ops.append(ent)
                elif kind == 'pushc':
                    nsites[0] += 1
                    last_ops = None
                    for op, (w, loc) in pctab.items():
                        add(op, w, loc, 'yr_parser_emit_push_const')
                else:
                    sz = cu.const_of(a[3])
                    if last_ops is not None and sz is not None:
                        # operand bytes appended to the instruction just emitted
                        for ent in last_ops:
                            ent[0] += sz
                            ent[2] += '+raw%d' % sz
                    else:
                        # a bare opcode byte written from a local initialised
                        # with the opcode constant
                        d = cu.strip_casts(f, a[2])
                        op = None
                        if d is not None and d['k'] == 'un' and d['op'] == '&':
                            v = f.kid(d, 0)
                            if v is not None and v['k'] == 'ref':
                                for n in f.all_nodes():
                                    if n['k'] == 'decl' and n['name'] == v['name'] and n.get('c'):
                                        op = cu.const_of(f.kid(n, 0))
                        if op is None or sz is None:
                            ctx.ob('R4.1', '%s:raw-code-write' % f.name, False, where,
                                   'raw write into the code section whose opcode cannot be determined')
                        else:
                            nsites[0] += 1
                            add(op, sz - 1, where, 'raw')
    ctx.count('emission_sites', nsites[0])
    ctx.require(nsites[0] >= 60 or ctx.fixture, 'only %d emission sites found' % nsites[0])
    return out


def handler_widths(ctx, vmf, labels):
    """set of operand byte counts consumed on the non-jump, non-aborting paths
    from a case label to the end of its handler"""
    start = cu.label_block(vmf, labels[0])
    ctx.require(start is not None, 'case block not found')
    # post-switch block: successor of a `break` directly inside this switch
    sw = None
    for a in vmf.ancestors(labels[0]):
        if a['k'] == 'switch':
            sw = a
            break
    results = set()
    post = _post_switch_block(vmf, sw)
    from ..vmroles import vm_roles
    VR = vm_roles(ctx.prog, vmf)
    IP, STOP = VR.ip, VR.stop
    ctx.require(IP is not None and STOP is not None, 'instruction pointer / stop flag of the VM not identified')

    def step(n, facts):
        if n['k'] == 'bin' and n['op'] in ('+=', '='):
            l = vmf.kid(n, 0)
            if l is not None and l['k'] == 'ref' and l['name'] == IP:
                r = cu.strip_casts(vmf, vmf.kid(n, 1))
                w = [x[1] for x in facts if x[0] == 'w'][0]
                rest = frozenset(x for x in facts if x[0] != 'w')
                if n['op'] == '+=':
                    c = cu.const_of(r)
                    if c is None:
                        return rest | {('w', None)}
                    return rest | {('w', None if w is None else w + c)}
                if r is not None and r['k'] == 'call' and r.get('callee') == 'jmp_if':
                    carg = vmf.call_args(r)[0]
                    cval = cu.const_of(cu.strip_casts(vmf, carg))
                    if cval is not None and cval != 0:
                        return None     # jmp_if(true, ..): this path always jumps
                    if cval == 0:
                        return rest | {('w', None if w is None else w + 4)}
                    cond = vmf.show(carg)
                    return rest | {('w', None if w is None else w + 4), ('nojump', cond)}
                return rest | {('w', None)}
            if l is not None and l['k'] == 'ref' and l['name'] == STOP and n['op'] == '=':
                if cu.const_of(vmf.kid(n, 1)) == 1:
                    return facts | {('stop', 1)}
        if n['k'] == 'un' and n['op'] in ('post++', '++'):
            l = vmf.kid(n, 0)
            if l is not None and l['k'] == 'ref' and l['name'] == IP:
                w = [x[1] for x in facts if x[0] == 'w'][0]
                rest = frozenset(x for x in facts if x[0] != 'w')
                return rest | {('w', None if w is None else w + 1)}
        if n['k'] == 'ret':
            return None
        return facts

    def edge(b, term, cond, idx, succ, facts):
        if succ == post:
            if ('stop', 1) not in facts:
                results.add([x[1] for x in facts if x[0] == 'w'][0])
            return None
        pol = paths.branch_polarity(vmf, term, idx)
        if pol is not None and cond is not None:
            c, pol = paths.normalise_cond(vmf, cond, pol)
            txt = vmf.show(c)
            for x in facts:
                if x[0] == 'nojump' and x[1] == txt and pol:
                    return None     # the jump was not taken on this path
        return facts

    paths.explore(vmf, {('w', 0)}, step, edge, start_block=start, max_states=512)
    return results


_post_cache = {}


def _post_switch_block(fn, sw):
    key = (id(fn), sw['i'])
    if key in _post_cache:
        return _post_cache[key]
    post = None
    for b, bd in fn.blocks.items():
        t = fn.node(bd.get('term')) if bd.get('term') is not None else None
        if t is not None and t['k'] == 'break':
            # innermost enclosing breakable statement must be this switch
            for a in fn.ancestors(t):
                if a['k'] in ('switch', 'while', 'for', 'do'):
                    if a is sw and bd['s'] and bd['s'][0] is not None:
                        post = bd['s'][0]
                    break
        if post is not None:
            break
    _post_cache[key] = post
    return post


def r4_1_2(ctx):
    prog = ctx.prog
    widths = emitter_widths(ctx)
    pctab = push_const_table(ctx)
    em = emitted(ctx, widths, pctab)
    vmf, vm = vm_groups(ctx)
    # jmp_if advances 4 bytes when not jumping
    j = ctx.fn('jmp_if', 'libyara/exec.c')
    ok = any(n['k'] == 'bin' and n['op'] == '=' and cu.const_of(j.kid(n, 1)) == 4
             for n in j.all_nodes())
    ctx.ob('R4.2', 'jmp_if:not-taken-advances-4', ok, '%s:%s' % (j.file, j.line),
           'jmp_if skips a 4-byte offset when the condition is false' if ok else
           'jmp_if no longer skips sizeof(int32_t) on the not-taken path')
    for op in sorted(em):
        name = _opname(prog, op)
        sites = em[op]
        has = op in vm
        ctx.ob('R4.1', '%s:has-handler' % name, has, sites[0][1],
               '%s is emitted (%d site(s), e.g. %s) and has a case in yr_execute_code' %
               (name, len(sites), sites[0][2]) if has else
               '%s (value %d) is emitted at %s but yr_execute_code has no case for it: '
               'the VM would hit default: assert(false)' % (name, op, sites[0][1]))
        if not has:
            continue
        ws = set(s[0] for s in sites)
        labels, stmts = vm[op]
        try:
            hw = handler_widths(ctx, vmf, labels)
        except paths.Budget as e:
            ctx.require(False, 'R4.2 %s: %s' % (name, e))
        where = '%s:%s' % (vmf.file, labels[0].get('l'))
        ok = len(ws) == 1 and (hw == ws or not hw)
        if not hw:
            ctx.note('%s: every path of the handler stops the VM; no width obligation' % name)
        ctx.ob('R4.2', '%s:operand-width' % name, ok, where,
               'emitters write %s operand byte(s) after %s (%s); the handler consumes %s' % (
                   sorted(ws), name, ', '.join(sorted(set(s[2] for s in sites))),
                   sorted(hw, key=lambda x: -1 if x is None else x)),
               {'opcode': op, 'emit_sites': [s[1] for s in sites][:6]})
    dead = sorted(set(vm) - set(em))
    ctx.note('handlers with no emitter (informational): %s' %
             ', '.join(_opname(prog, v) for v in dead))
    ctx.count('emitted_opcodes', len(em))
    ctx.count('handlers', len(vm))


# ---------------------------------------------------------------- R4.3
# handlers that by design do not propagate undefined with the generic rule;
# each with its reason (DESIGN appendix C)
UNDEF_EXEMPT = {
    'OP_AND': 'documented: and treats undefined as false',
    'OP_OR': 'documented: or treats undefined as false',
    'OP_NOT': 'propagates undefined itself (checked: R4.3n)',
    'OP_DEFINED': 'the defined operator',
    'OP_MATCH_RULE': 'undefined condition is false (documented)',
    'OP_JNUNDEF': 'jump on defined', 'OP_JUNDEF_P': 'jump on undefined',
    'OP_JTRUE': 'jump protocol: undefined is not true', 'OP_JTRUE_P': 'same',
    'OP_JFALSE': 'jump protocol: undefined is not false', 'OP_JFALSE_P': 'same',
    'OP_JZ': 'loop protocol', 'OP_JZ_P': 'loop protocol',
    'OP_JL_P': 'loop protocol', 'OP_JLE_P': 'loop protocol',
    'OP_ITER_CONDITION': 'loop protocol: undefined body result counts as false',
    'OP_ITER_END': 'loop protocol', 'OP_ITER_NEXT': 'loop protocol',
    'OP_ITER_START_ARRAY': 'undefined array: loop is skipped (stop sentinel)',
    'OP_ITER_START_DICT': 'same', 'OP_ITER_START_INT_RANGE': 'same',
    'OP_ITER_START_INT_ENUM': 'same', 'OP_ITER_START_STRING_SET': 'same',
    'OP_ITER_START_TEXT_STRING_SET': 'same',
    'OP_OF': 'quantifier protocol (R4.5)', 'OP_OF_PERCENT': 'quantifier protocol',
    'OP_OF_FOUND_IN': 'quantifier protocol', 'OP_OF_FOUND_AT': 'quantifier protocol',
    'OP_PUSH_M': 'memory slot ops', 'OP_POP_M': 'memory slot ops',
    'OP_SET_M': 'memory slot ops', 'OP_ADD_M': 'checks both itself',
    'OP_INCR_M': 'memory slot ops', 'OP_CLEAR_M': 'memory slot ops',
    'OP_SWAPUNDEF': 'replaces undefined by a memory slot',
    'OP_POP': 'discards', 'OP_NOP': '', 'OP_HALT': '',
    'OP_CALL': 'undefined argument makes the result undefined (own loop, R4.3c)',
    'OP_INDEX_ARRAY': 'own undefined handling', 'OP_LOOKUP_DICT': 'own undefined handling',
    'OP_OBJ_FIELD': 'own undefined handling', 'OP_OBJ_VALUE': 'own undefined handling',
}

VALUE_FIELDS = ('i', 'd', 'ss', 're', 'o')


def r4_3(ctx):
    prog = ctx.prog
    vmf, vm = vm_groups(ctx)
    undef = prog.macro_value('YR_UNDEFINED')
    from ..vmroles import vm_roles
    REGS = set(vm_roles(prog, vmf).regs)
    ctx.require(len(REGS) >= 2 or ctx.fixture, 'operand registers of the VM not identified')
    n_checked = 0
    for op in sorted(vm):
        labels, stmts = vm[op]
        name = _opname(prog, op)
        if name in UNDEF_EXEMPT:
            continue
        start = cu.label_block(vmf, labels[0])
        sw = None
        for a in vmf.ancestors(labels[0]):
            if a['k'] == 'switch':
                sw = a
                break
        post = _post_switch_block(vmf, sw)
        problems = {}
        popped_any = [False]

        def reg_of(n):
            n = cu.strip_casts(vmf, n)
            if n is not None and n['k'] == 'ref' and n['name'] in REGS:
                return n['name']
            return None

        def step(n, facts, name=name):
            k = n['k']
            # pop(rX):  rX = stack.items[--stack.sp]
            if k == 'bin' and n['op'] == '=':
                l = reg_of(vmf.kid(n, 0))
                r = vmf.kid(n, 1)
                if l is not None and r is not None and 'pop' in vmf.macros(n):
                    popped_any[0] = True
                    return frozenset(x for x in facts if x[1] != l) | {('popped', l)}
                # whole-register assignment r1 = r2 copies the state
                if l is not None:
                    src = reg_of(r)
                    rest = frozenset(x for x in facts if x[1] != l)
                    if src is not None:
                        return rest | frozenset((x[0], l) for x in facts if x[1] == src)
                    return rest
                # rX.f = ... makes rX a computed value (no longer a raw popped operand)
                lm = vmf.kid(n, 0)
                if lm is not None and lm['k'] == 'member':
                    base = reg_of(vmf.kid(lm, 0))
                    if base is not None and lm['fld'] in VALUE_FIELDS:
                        c = cu.const_of(cu.strip_casts(vmf, vmf.kid(n, 1)))
                        rest = frozenset(x for x in facts if x[1] != base)
                        if c is not None and (c & 0xFFFFFFFFFFFFFFFF) == undef:
                            return rest | {('isundef', base)}
                        return rest | {('computed', base)}
            if k == 'member' and n['fld'] in VALUE_FIELDS:
                base = reg_of(vmf.kid(n, 0))
                p = vmf.parent(n)
                is_store = p is not None and p['k'] == 'bin' and p['op'] == '=' and vmf.kid(p, 0) is n
                if base is not None and not is_store and ('popped', base) in facts \
                        and ('defined', base) not in facts:
                    # reading .i inside the undefined test itself is the test
                    pc = p
                    while pc is not None and pc['k'] == 'cast':
                        pc = vmf.parent(pc)
                    via_reader = pc is not None and pc['k'] == 'call' and \
                        pc.get('callee', '').startswith('read_')
                    if via_reader:
                        # enumerated idiom: the operand is only handed to a
                        # bounds-checked read_<type>_<endian>() as the offset;
                        # no block contains offset YR_UNDEFINED, the reader
                        # returns YR_UNDEFINED (checked by R4.5 read family)
                        return facts | {('defined', base)}
                    if not any(m in ('is_undef', 'IS_UNDEFINED', 'ensure_defined')
                               for m in vmf.macros(n)):
                        problems.setdefault('read-before-test:%s' % base,
                                            (n, 'value of %s.%s is used before %s was '
                                             'tested for undefined' % (base, n['fld'], base)))
            # push(rX) on a path where some popped operand is known undefined
            if k == 'bin' and n['op'] == '=' and 'push' in vmf.macros(n):
                l = vmf.kid(n, 0)
                src = reg_of(vmf.kid(n, 1))
                if l is not None and l['k'] == 'sub' and src is not None:
                    if any(x[0] == 'undefpath' for x in facts) and \
                            ('isundef', src) not in facts:
                        problems.setdefault('undefined-path-pushes-defined',
                                            (n, 'on the path where an operand is undefined '
                                             'the handler pushes %s holding a defined value '
                                             'instead of YR_UNDEFINED' % src))
            if k == 'ret':
                return None
            return facts

        def edge(b, term, cond, idx, succ, facts):
            if succ == post:
                return None
            pol = paths.branch_polarity(vmf, term, idx)
            if pol is None or cond is None:
                return facts
            c, pol = paths.normalise_cond(vmf, cond, pol)
            if c is None:
                return facts
            # IS_UNDEFINED(rX.i):  (size_t) rX.i == (size_t) YR_UNDEFINED
            if c['k'] == 'bin' and c['op'] in ('==', '!='):
                a, bb = cu.strip_casts(vmf, vmf.kid(c, 0)), cu.strip_casts(vmf, vmf.kid(c, 1))
                for x, y in ((a, bb), (bb, a)):
                    cy = cu.const_of(y)
                    if cy is None or (cy & 0xFFFFFFFFFFFFFFFF) != undef:
                        continue
                    if x is not None and x['k'] == 'member':
                        base = reg_of(vmf.kid(x, 0))
                        if base is None:
                            continue
                        is_undef_edge = (c['op'] == '==') == pol
                        if ('popped', base) not in facts:
                            continue    # a computed value, not a raw operand
                        if is_undef_edge:
                            if ('defined', base) in facts:
                                return None
                            return facts | {('undefpath', base)}
                        if ('undefpath', base) in facts:
                            return None
                        return facts | {('defined', base)}
            return facts

        try:
            paths.explore(vmf, set(), step, edge, start_block=start, max_states=2048)
        except paths.Budget as e:
            ctx.require(False, 'R4.3 %s: %s' % (name, e))
        if not popped_any[0]:
            continue
        n_checked += 1
        where = '%s:%s' % (vmf.file, labels[0].get('l'))
        if problems:
            for pk, (n, msg) in sorted(problems.items()):
                ctx.ob('R4.3', '%s:%s' % (name, pk), False, vmf.loc(n),
                       'handler of %s: %s (documented rule: every operator other than '
                       'and/or yields undefined for an undefined operand)' % (name, msg))
        else:
            ctx.ob('R4.3', '%s:undefined-discipline' % name, True, where,
                   'every popped operand is tested before its value is read; '
                   'undefined paths push YR_UNDEFINED')
    ctx.count('handlers_checked_R4.3', n_checked)


# ---------------------------------------------------------------- R4.4
def parse_grammar_precedence(text):
    """[(assoc, [token spellings])] in declaration order, from grammar.y"""
    spell = {}
    for m in re.finditer(r'%token\s+(?:<\w+>\s+)?(\w+)\s+"((?:[^"\\]|\\.)*)"', text):
        spell[m.group(1)] = m.group(2).replace('\\\\', '\\').replace('\\"', '"')
    levels = []
    head = text.split('\n%%', 1)[0]
    for m in re.finditer(r'^%(left|right|nonassoc|precedence)\s+(.*)$', head, re.M):
        toks = re.findall(r"'(?:\\.|[^'])+'|\w+", m.group(2))
        names = []
        for t in toks:
            if t.startswith("'"):
                t = t[1:-1]
                if t == '\\\\':
                    t = '\\'
                names.append(t)
            else:
                names.append(spell.get(t, t))
        levels.append((m.group(1), names))
    return levels


def parse_manual_precedence(text):
    """rows of the precedence table in docs/writingrules.rst:
    [(level:int, operator:str, assoc:str)]"""
    rows = []
    m = re.search(r'Precedence\s+Operator\s+Description\s+Associativity', text)
    if not m:
        return rows
    tail = text[m.end():]
    cur = None
    started = False
    for line in tail.split('\n')[1:]:
        if re.match(r'^=+(\s+=+)+\s*$', line):
            if started and rows:
                break
            started = True
            continue
        if re.match(r'^-+(\s+-+)+\s*$', line) or not line.strip():
            continue
        m2 = re.match(r'^(\d+)?\s+(\S+(?: \S+)?)\s{2,}(.*?)(?:\s{2,}(Left-to-right|Right-to-left))?\s*$', line)
        if not m2:
            continue
        lvl, op, desc, assoc = m2.groups()
        if lvl:
            cur = [int(lvl), assoc]
        if cur is None:
            continue
        if assoc:
            cur[1] = assoc
        rows.append([cur[0], op.strip(), cur])
    return [(r[0], r[1], r[2][1]) for r in rows]


def r4_4(ctx):
    g = ctx.prog.text('libyara/grammar.y')
    d = ctx.prog.text('docs/writingrules.rst')
    ctx.require(g is not None, 'grammar.y text not available')
    ctx.require(d is not None, 'docs/writingrules.rst not available')
    glev = parse_grammar_precedence(g)
    rows = parse_manual_precedence(d)
    ctx.require(len(glev) >= 10 or ctx.fixture, 'grammar precedence block not recognised (%d levels)' % len(glev))
    ctx.require(len(rows) >= 20 or ctx.fixture, 'manual precedence table not recognised (%d rows)' % len(rows))
    # grammar: later declaration = higher precedence; manual: level 1 = highest
    gl = list(reversed(glev))
    # tokens that are grammar plumbing, not operators of the manual's table
    def canon(t):
        t = t.strip()
        if t.startswith('<') and t.endswith('>') and len(t) > 2 and t[1].isalpha():
            t = t[1:-1]
        return {'UNARY_MINUS': '-u'}.get(t, t)

    def mcanon(t):
        t = t.strip().strip('`')
        return t.replace('\\\\', '\\')
    gops = []
    for assoc, toks in gl:
        ts = [canon(t) for t in toks]
        ts = [t for t in ts if t]
        gops.append((assoc, ts))
    # manual levels -> operator sets; level 1 ([] and .) is grammar structure
    by_level = {}
    for lvl, op, assoc in rows:
        by_level.setdefault(lvl, [set(), assoc])[0].add(mcanon(op))
        if assoc:
            by_level[lvl][1] = assoc
    levels = sorted(by_level)
    ml = []
    for lvl in levels:
        ops, assoc = by_level[lvl]
        if ops <= set(['[]', '.']):
            # must not appear in any precedence declaration
            bad = [t for _, ts in gops for t in ts if t in ('[', ']', '.', '[]')]
            ctx.ob('R4.4', 'level%d:structural' % lvl, not bad, 'libyara/grammar.y',
                   '[] and . bind by grammar structure, not by %left declarations')
            continue
        ml.append((lvl, ops, assoc))

    def gset(toks):
        out = set()
        for t in toks:
            out.add({'-u': '-', '~': '~'}.get(t, t))
        return out
    # the manual lists unary minus and ~ as one level (2); the grammar declares
    # two adjacent levels (%right '~' UNARY_MINUS style or separate)
    gi = 0
    for lvl, ops, assoc in ml:
        want = set(ops)
        got = set()
        assocs = set()
        start = gi
        while gi < len(gops) and not (want <= got):
            a, ts = gops[gi]
            s = gset(ts)
            if not s & want and got:
                break
            got |= s
            assocs.add(a)
            gi += 1
        massoc = 'left' if assoc == 'Left-to-right' else 'right'
        ok = (got == want) and assocs <= set([massoc]) | (set(['nonassoc']) if False else set())
        ctx.ob('R4.4', 'level%d:%s' % (lvl, ' '.join(sorted(want))), ok,
               'docs/writingrules.rst / libyara/grammar.y',
               'manual level %d {%s} %s; grammar declares {%s} %s at the same rank' % (
                   lvl, ' '.join(sorted(want)), assoc, ' '.join(sorted(got)),
                   '/'.join(sorted(assocs))))
    rest = [t for _, ts in gops[gi:] for t in ts]
    ctx.ob('R4.4', 'no-extra-levels', not rest, 'libyara/grammar.y',
           'grammar precedence levels not in the manual: %s' % rest if rest else
           'every grammar precedence level corresponds to a row of the manual')


def _fx(fn, **kw):
    d = {'src': 'C04/vm.c', 'run': fn,
         'texts': {'C04/grammar.y': 'libyara/grammar.y',
                   'C04/writingrules.rst': 'docs/writingrules.rst'}}
    d.update(kw)
    return d


FIXTURES = {
    'R4.1': _fx(r4_1_2, expect='OP_CCC:has-handler', expect_ok='OP_BBB:has-handler'),
    'R4.2': _fx(r4_1_2, expect='OP_AAA:operand-width', expect_ok='OP_BBB:operand-width'),
    'R4.3': _fx(r4_3, expect='OP_EEE:undefined-path-pushes-defined',
                expect_ok='OP_FFF:undefined-discipline'),
    'R4.4': _fx(r4_4, expect='level4', expect_ok='level3'),
}


NARROW_MAX = {'uint8_t': 0xff, 'uint16_t': 0xffff, 'uint32_t': 0xffffffff,
              'int8_t': 0x7f, 'int16_t': 0x7fff, 'int32_t': 0x7fffffff}
WIDE = ('uint64_t', 'int64_t', 'size_t', 'unsigned long', 'long')


def r4_6(ctx):
    """a constant is emitted in a narrower operand only under a test that it fits"""
    from .. import paths
    prog = ctx.prog
    n_casts = 0
    for f in prog.fns():
        if f.file != 'libyara/parser.c' and not ctx.fixture:
            continue
        wide = {}
        for d in f.all_nodes():
            if d['k'] == 'decl' and d.get('t') in WIDE:
                wide[d['name']] = d['t']
        for p_ in f.params:
            if p_.get('type') in WIDE:
                wide[p_['name']] = p_['type']
        casts = []
        for n in f.all_nodes():
            if n['k'] == 'cast' and n.get('t') in NARROW_MAX and not f.macros(n):
                x = cu.strip_casts(f, f.kid(n, 0))
                if x is not None and x['k'] == 'ref' and x['name'] in wide:
                    casts.append((n, x['name']))
        if not casts:
            continue
        ids = {c[0]['i']: c for c in casts}
        bad = {}

        def step(n, facts):
            if n['i'] in ids:
                c, v = ids[n['i']]
                ub = min([x[2] for x in facts if x[0] == 'ub' and x[1] == v] or [None], key=lambda z: (z is None, z))
                if ub is None or ub > NARROW_MAX[c['t']]:
                    bad.setdefault(n['i'], ub)
            if n['k'] == 'bin' and n['op'] == '=' :
                l = cu.strip_casts(f, f.kid(n, 0))
                if l is not None and l['k'] == 'ref' and l['name'] in wide:
                    return frozenset(x for x in facts if x[1] != l['name'])
            if n['k'] == 'ret':
                return None
            return facts

        def edge(b, term, cond, idx, succ, facts):
            pol = paths.branch_polarity(f, term, idx)
            if pol is None or cond is None:
                return facts
            c, p2 = paths.normalise_cond(f, cond, pol)
            if c is None or c['k'] != 'bin' or c['op'] not in ('<', '<=', '>', '>=', '=='):
                return facts
            l = cu.strip_casts(f, f.kid(c, 0))
            k = cu.const_of(cu.strip_casts(f, f.kid(c, 1)))
            if l is None or l['k'] != 'ref' or l['name'] not in wide or k is None:
                return facts
            op = c['op']
            if not p2:
                op = {'<': '>=', '<=': '>', '>': '<=', '>=': '<', '==': '!='}[op]
            ub = None
            if op == '<=':
                ub = k
            elif op == '<':
                ub = k - 1
            elif op == '==':
                ub = k
            if ub is None:
                return facts
            return frozenset(facts) | {('ub', l['name'], ub)}
        try:
            paths.explore(f, set(), step, edge, max_states=2000)
        except paths.Budget:
            continue
        for i, (c, v) in sorted(ids.items()):
            n_casts += 1
            k = sorted(ids).index(i)
            ok = i not in bad
            ctx.ob('R4.6', '%s:(%s)%s#%d:fits' % (f.name, c['t'], v, k), ok, f.loc(c),
                   '%s is narrowed to %s only where it was tested to be <= 0x%x' % (v, c['t'], NARROW_MAX[c['t']])
                   if ok else
                   '%s is narrowed to %s on a path that only established %s <= %s: a value above '
                   '0x%x is emitted truncated (the literal evaluates to something else)' % (
                       v, c['t'], v, ('0x%x' % bad[i]) if bad[i] is not None else 'nothing', NARROW_MAX[c['t']]))
    ctx.count('narrowing_emissions', n_casts)


def r4_7(ctx):
    """integer literals: the lexer decides "integer overflow" from errno == ERANGE after
    strtoll, so errno is reset in front of every conversion (idioms.errno_protocol)"""
    from ..idioms import errno_protocol
    lx = ctx.prog.fn('yara_yylex', 'libyara/lexer.c')
    ctx.require(lx is not None or ctx.fixture, 'yara_yylex not found')
    errno_protocol(ctx, 'R4.7', [lx] if lx is not None else list(ctx.prog.fns()))


def run(ctx):
    r4_1_2(ctx)
    ctx.floor('R4.1', 60)
    ctx.floor('R4.2', 60)
    r4_3(ctx)
    ctx.floor('R4.3', 30)
    r4_4(ctx)
    ctx.floor('R4.4', 8)
    # R4.5 = C12/R12.7: the quantified-set actions (`N of`, `all/any/none of`, with `in`/`at`)
    # raise the "a string must match first" pre-filter under one and the same condition
    from .C12 import r12_7
    sub = type(ctx)(ctx.prop, ctx.tier, ctx.prog, ctx.fixture)
    r12_7(sub)
    for o in sub.obls:
        ctx.ob('R4.5', o['key'], o['ok'], o['where'], o['detail'], o['data'])
    ctx.floor('R4.5', 3)
    r4_6(ctx)
    ctx.floor('R4.6', 3)
    r4_7(ctx)
    ctx.floor('R4.7', 3)

"""C19 — compiled rules do not depend on how internal storage grew.

Decides (DESIGN.md §4 C19): no raw pointer into an arena buffer is used after
a call that may grow *that* buffer — at every site, assuming every allocation
relocates (so the property's quantifier over initial capacities disappears).

  R19.1 buffer-aware valid->stale typestate on every local that holds an
        arena pointer: acquired from yr_arena_get_ptr / yr_arena_ref_to_ptr /
        _yr_compiler_get_rule_by_idx or loaded from a relocatable field of an
        arena record; any call whose may-allocate summary contains the
        pointer's buffer makes it stale; a later read of the variable is a
        violation naming acquisition, invalidating call and use;
  R19.2 no long-lived compile-time structure holds a raw arena pointer
        (YYSTYPE, YR_EXPRESSION, YR_COMPILER, YR_LOOP_CONTEXT, YR_FIXUP,
        YR_ATOM_LIST_ITEM, RE_NODE, YR_AC_STATE hold YR_ARENA_REFs).
R19.3 (pointers stored *in* the arena are registered) is C08's R8.1/R8.3.
"""
from .. import cfgutil as cu
from .. import paths
from ..callgraph import CallGraph

USES_PARSERS = True
LEVEL = 'other'
EXPLANATION = (
    'Stale-pointer typestate over clang CFG facts with bottom-up may-allocate '
    'summaries per arena buffer: each local arena pointer is tracked from its '
    'acquisition; calls that may grow its buffer invalidate it; any later read '
    'is reported. Buffers are distinct reallocations, so the analysis is '
    'buffer-aware (a YR_STRING* legitimately survives a YR_SZ_POOL write). '
    'Field-type check that long-lived compile-time structures keep references, '
    'not pointers. Decides this necessary clause for every capacity; '
    'byte-identical images are not decided.')
ASSUMPTIONS = [
    'every allocation in a buffer is assumed to relocate it',
    'all arena calls in compile-time code act on the compiler\'s arena '
    '(exec.c\'s private object arena is excluded by name)',
    'the field->buffer table FIELD_BUFFER is confirmed by C08/R8.3 provenance',
]

ALLOC_FUNCS = {
    'yr_arena_allocate_memory': 1, 'yr_arena_allocate_zeroed_memory': 1,
    'yr_arena_allocate_struct': 1, 'yr_arena_write_data': 1,
    'yr_arena_write_string': 1, 'yr_arena_write_uint32': 1,
}
ANY = '*'

COMPILE_TIME_TUS = ('libyara/compiler.c', 'libyara/parser.c', 'libyara/grammar.c',
                    'libyara/ahocorasick.c', 'libyara/re.c', 'libyara/atoms.c',
                    'libyara/base64.c', 'libyara/hex_grammar.c', 'libyara/re_grammar.c',
                    'libyara/lexer.c', 'libyara/hex_lexer.c', 'libyara/re_lexer.c')

# relocatable field -> buffer its pointer designates (names of the enum)
FIELD_BUFFER = {
    ('YR_RULE', 'identifier'): 'YR_SZ_POOL', ('YR_RULE', 'tags'): 'YR_SZ_POOL',
    ('YR_RULE', 'metas'): 'YR_METAS_TABLE', ('YR_RULE', 'strings'): 'YR_STRINGS_TABLE',
    ('YR_RULE', 'ns'): 'YR_NAMESPACES_TABLE',
    ('YR_STRING', 'string'): 'YR_SZ_POOL', ('YR_STRING', 'identifier'): 'YR_SZ_POOL',
    ('YR_STRING', 'chained_to'): 'YR_STRINGS_TABLE',
    ('YR_META', 'identifier'): 'YR_SZ_POOL', ('YR_META', 'string'): 'YR_SZ_POOL',
    ('YR_NAMESPACE', 'name'): 'YR_SZ_POOL',
    ('YR_EXTERNAL_VARIABLE', 'identifier'): 'YR_SZ_POOL',
    ('YR_AC_MATCH', 'string'): 'YR_STRINGS_TABLE',
    ('YR_AC_MATCH', 'forward_code'): 'YR_RE_CODE_SECTION',
    ('YR_AC_MATCH', 'backward_code'): 'YR_RE_CODE_SECTION',
    ('YR_AC_MATCH', 'next'): 'YR_AC_STATE_MATCHES_POOL',
}

LONG_LIVED = ('YYSTYPE', 'YR_EXPRESSION', 'YR_COMPILER', 'YR_LOOP_CONTEXT', 'YR_FIXUP',
              'YR_ATOM_LIST_ITEM', 'RE_NODE', 'YR_AC_STATE', 'YR_AC_AUTOMATON',
              'YR_LOOP_IDENTIFIER', 'YR_ENUMERATION', 'YR_MODIFIER', 'RE_AST',
              'YR_ATOM_TREE_NODE', 'YR_ATOM')

# pointer fields of long-lived structures that are allowed, with the reason
LONG_LIVED_OK = {
    ('YR_EXPRESSION', 'ptr'): 'identifier.ptr: heap copy or an object\'s identifier, never the arena (stores checked below)',
    ('YR_LOOP_IDENTIFIER', 'ptr'): 'same union as YR_EXPRESSION.identifier',
    ('YR_COMPILER', 'arena'): 'the arena object itself',
    ('YR_COMPILER', 'rules'): 'finished YR_RULES (heap)',
}

ARENA_RECORDS = ('YR_RULE', 'YR_STRING', 'YR_META', 'YR_NAMESPACE', 'YR_EXTERNAL_VARIABLE',
                 'YR_AC_MATCH', 'YR_SUMMARY', 'RE')


def buffer_ids(prog):
    ids = {}
    for k, v in prog.enums.items():
        if k.startswith('YR_') and k.endswith(('_TABLE', '_POOL', '_SECTION')):
            ids[k] = v
    for k, v in prog.macros_with_prefix('YR_').items():
        if k.endswith(('_TABLE', '_POOL', '_SECTION')) and k not in ids:
            ids[k] = v
    return ids


def alloc_summaries(ctx, cg):
    """{(tu,fn): set of buffer ids | ('p', i) | ANY} the function may grow"""
    prog = ctx.prog
    fns = [f for f in prog.fns() if f.file.startswith('libyara/') or ctx.fixture]
    S = {(f.tu.name, f.name): set() for f in fns}

    def arg_elem(f, e):
        e = cu.strip_casts(f, e)
        c = cu.const_of(e)
        if c is not None:
            return c
        if e is not None and e['k'] == 'ref' and e.get('dk') == 'param':
            pn = [p['name'] for p in f.params]
            if e['name'] in pn:
                return ('p', pn.index(e['name']))
        return ANY
    changed = True
    rounds = 0
    while changed and rounds < 20:
        changed = False
        rounds += 1
        for f in fns:
            key = (f.tu.name, f.name)
            if f.file.endswith('arena.c'):
                continue
            cur = S[key]
            for c in f.calls():
                cal = c.get('callee')
                args = f.call_args(c)
                new = set()
                if cal in ALLOC_FUNCS:
                    if args and 'obj_arena' in f.show(args[0]):
                        continue
                    new.add(arg_elem(f, args[ALLOC_FUNCS[cal]]))
                else:
                    for t in cg.targets(f, c):
                        g = prog.fn(t, f.tu)
                        if g is None:
                            continue
                        for e in S.get((g.tu.name, g.name), ()):
                            if isinstance(e, tuple):
                                new.add(arg_elem(f, args[e[1]]) if e[1] < len(args) else ANY)
                            else:
                                new.add(e)
                if not new <= cur:
                    cur |= new
                    changed = True
    return S


def ref_buffer_summaries(ctx, cg):
    """{(tu,fn): {param index: buffer}}: out-parameter YR_ARENA_REFs that the
    function fills with a reference into a known buffer"""
    prog = ctx.prog
    out = {}
    changed = True
    rounds = 0
    while changed and rounds < 8:
        changed = False
        rounds += 1
        for f in prog.fns():
            if not f.file.startswith('libyara/') and not ctx.fixture:
                continue
            key = (f.tu.name, f.name)
            pn = [p['name'] for p in f.params]
            for c in f.calls():
                cal = c.get('callee')
                args = f.call_args(c)
                pairs = []      # (ref arg, buffer element)
                if cal in ('yr_arena_allocate_struct', 'yr_arena_allocate_memory',
                           'yr_arena_allocate_zeroed_memory') and len(args) > 3:
                    pairs.append((args[3], cu.const_of(cu.strip_casts(f, args[1]))))
                elif cal in ('yr_arena_write_data',) and len(args) > 4:
                    pairs.append((args[4], cu.const_of(cu.strip_casts(f, args[1]))))
                elif cal in ('yr_arena_write_string', 'yr_arena_write_uint32') and len(args) > 3:
                    pairs.append((args[3], cu.const_of(cu.strip_casts(f, args[1]))))
                else:
                    for t in cg.targets(f, c):
                        g = prog.fn(t, f.tu)
                        if g is None:
                            continue
                        for i, b in out.get((g.tu.name, g.name), {}).items():
                            if i < len(args):
                                pairs.append((args[i], b))
                for a, b in pairs:
                    if b is None:
                        continue
                    a = cu.strip_casts(f, a)
                    if a is not None and a['k'] == 'ref' and a.get('dk') == 'param' and a['name'] in pn:
                        d = out.setdefault(key, {})
                        i = pn.index(a['name'])
                        if d.get(i) != b:
                            d[i] = b
                            changed = True
    return out


def r19_1(ctx):
    prog = ctx.prog
    cg = CallGraph(prog)
    ids = buffer_ids(prog)
    names = {v: k for k, v in ids.items()}
    S = alloc_summaries(ctx, cg)
    RB = ref_buffer_summaries(ctx, cg)
    tus = [prog.tu(t) for t in COMPILE_TIME_TUS if prog.tu(t) is not None]
    if ctx.fixture:
        tus = list(prog.tus.values())
    n_acq = 0
    occ = {}
    undecided = 0

    def call_allocs(f, c):
        cal = c.get('callee')
        args = f.call_args(c)
        out = set()
        if cal in ALLOC_FUNCS:
            if args and 'obj_arena' in f.show(args[0]):
                return out
            v = cu.const_of(cu.strip_casts(f, args[ALLOC_FUNCS[cal]]))
            out.add(v if v is not None else ANY)
            return out
        for t in cg.targets(f, c):
            g = prog.fn(t, f.tu)
            if g is None:
                continue
            for e in S.get((g.tu.name, g.name), ()):
                if isinstance(e, tuple):
                    if e[1] < len(args):
                        v = cu.const_of(cu.strip_casts(f, args[e[1]]))
                        out.add(v if v is not None else ANY)
                    else:
                        out.add(ANY)
                else:
                    out.add(e)
        return out

    def ref_buffer(f, refexpr, before_node):
        """buffer designated by a YR_ARENA_REF expression (`&ref`, `string_ref`)"""
        txt = f.show(cu.strip_casts(f, refexpr))
        best = None
        for c in f.calls():
            if c['i'] >= before_node['i'] and c.get('l', 0) > before_node.get('l', 0):
                continue
            cal = c.get('callee')
            args = f.call_args(c)
            cands = []
            if cal in ('yr_arena_allocate_struct', 'yr_arena_allocate_memory',
                       'yr_arena_allocate_zeroed_memory') and len(args) > 3:
                cands.append((args[3], cu.const_of(cu.strip_casts(f, args[1]))))
            elif cal == 'yr_arena_write_data' and len(args) > 4:
                cands.append((args[4], cu.const_of(cu.strip_casts(f, args[1]))))
            elif cal in ('yr_arena_write_string', 'yr_arena_write_uint32') and len(args) > 3:
                cands.append((args[3], cu.const_of(cu.strip_casts(f, args[1]))))
            else:
                for t in cg.targets(f, c):
                    g = prog.fn(t, f.tu)
                    if g is None:
                        continue
                    for i, b in RB.get((g.tu.name, g.name), {}).items():
                        if i < len(args):
                            cands.append((args[i], b))
            for a, b in cands:
                if b is not None and f.show(cu.strip_casts(f, a)) == txt:
                    if best is None or c.get('l', 0) >= best[0]:
                        best = (c.get('l', 0), b)
        return best[1] if best else None

    def source_buffer(f, e, at):
        """buffer(s) an arena-pointer expression designates, or None if the
        expression is not an arena pointer source"""
        e = cu.strip_casts(f, e)
        if e is None:
            return None
        if e['k'] == 'call':
            cal = e.get('callee')
            args = f.call_args(e)
            if cal == 'yr_arena_get_ptr':
                if 'obj_arena' in f.show(args[0]):
                    return None
                v = cu.const_of(cu.strip_casts(f, args[1]))
                return v if v is not None else ANY
            if cal == 'yr_arena_ref_to_ptr':
                b = ref_buffer(f, args[1], at)
                return b if b is not None else ANY
            if cal == '_yr_compiler_get_rule_by_idx':
                return ids.get('YR_RULES_TABLE', ANY)
            return None
        if e['k'] == 'member' and (e.get('rec'), e['fld']) in FIELD_BUFFER:
            # loaded from a relocatable field of a record reached by pointer
            if any(x['k'] == 'member' and x.get('arrow') for x in f.walk(e)):
                return ids.get(FIELD_BUFFER[(e['rec'], e['fld'])], ANY)
        if e['k'] == 'bin' and e['op'] in ('+', '-'):
            return source_buffer(f, f.kid(e, 0), at)
        if e['k'] == 'un' and e['op'] == '&':
            inner = cu.strip_casts(f, f.kid(e, 0))
            if inner is not None and inner['k'] == 'sub':
                return source_buffer(f, f.kid(inner, 0), at)
        if e['k'] == 'ref' and e.get('dk') in ('local', 'param') and '*' in (e.get('t') or ''):
            # a copy of another local that holds an arena pointer (prev = cur)
            bs = local_bufs.get((f.tu.name, f.name), {}).get(e['name'])
            if bs:
                return list(bs)[0] if len(bs) == 1 else ANY
        return None

    # arena pointers handed down as arguments (`&current_rule->num_atoms`):
    # the callee's parameter is tracked from its entry
    param_buf = {}
    local_bufs = {}
    for _pass in (1, 2):
      for tu in tus:
        for f in tu.fn_list:
            m = local_bufs.setdefault((f.tu.name, f.name), {})
            for n in f.all_nodes():
                var = src = None
                if n['k'] == 'decl' and n.get('c'):
                    var, src = n['name'], f.kid(n, 0)
                elif n['k'] == 'bin' and n['op'] == '=':
                    l = f.kid(n, 0)
                    if l is not None and l['k'] == 'ref' and l.get('dk') in ('local', 'param'):
                        var, src = l['name'], f.kid(n, 1)
                if var is None:
                    continue
                b = source_buffer(f, src, n)
                if b is not None:
                    m.setdefault(var, set()).add(b)
    for tu in tus:
        for f in tu.fn_list:
            m = local_bufs[(f.tu.name, f.name)]
            for c in f.calls():
                if 'callee' not in c or c['callee'] in ALLOC_FUNCS:
                    continue
                g = prog.fn(c['callee'], f.tu)
                if g is None or not g.file.startswith('libyara/') and not ctx.fixture:
                    continue
                for j, a in enumerate(f.call_args(c)):
                    a0 = cu.strip_casts(f, a)
                    if a0 is None or j >= len(g.params):
                        continue
                    if '*' not in (g.params[j].get('type') or ''):
                        continue
                    b = None
                    if a0['k'] == 'un' and a0['op'] == '&':
                        root, path = cu.member_path(f, f.kid(a0, 0))
                        if root is not None and root['k'] == 'ref' and root['name'] in m and \
                                any(x['k'] == 'member' and x.get('arrow') for x in f.walk(a0)):
                            bs = m[root['name']]
                            b = list(bs)[0] if len(bs) == 1 else ANY
                    elif a0['k'] == 'ref' and a0['name'] in m:
                        bs = m[a0['name']]
                        b = list(bs)[0] if len(bs) == 1 else ANY
                    else:
                        b = source_buffer(f, a0, c)
                    if b is not None:
                        param_buf.setdefault((g.tu.name, g.name, j), set()).add(b)
    for tu in tus:
        for f in tu.fn_list:
            if f.file.endswith('arena.c'):
                continue
            for j, prm in enumerate(f.params):
                bs = param_buf.get((f.tu.name, f.name, j))
                if not bs:
                    continue
                buf = list(bs)[0] if len(bs) == 1 else ANY
                n_acq += 1
                res = _track(ctx, f, None, prm['name'], buf, call_allocs)
                key = '%s:param:%s' % (f.name, prm['name'])
                bname = names.get(buf, 'an unknown buffer') if buf != ANY else 'an unknown buffer'
                if res is None:
                    undecided += 1
                    ctx.note('R19.1 %s: state budget exceeded (not decided)' % key)
                elif res:
                    use, inval = res
                    ctx.ob('R19.1', key, False, f.loc(use),
                           'parameter `%s` receives a pointer into %s from its callers; %s at %s '
                           'may grow that buffer; the parameter is used afterwards at %s' % (
                               prm['name'], bname, f.show(inval)[:50], f.loc(inval), f.loc(use)))
                else:
                    ctx.ob('R19.1', key, True, '%s:%s' % (f.file, f.line),
                           'parameter `%s` (into %s) is never read after a call that may grow '
                           'its buffer' % (prm['name'], bname))
    for tu in tus:
        for f in tu.fn_list:
            if f.file.endswith('arena.c'):
                continue
            acqs = []
            for n in f.all_nodes():
                var = src = None
                if n['k'] == 'decl' and n.get('c'):
                    var, src = n['name'], f.kid(n, 0)
                    isloc = True
                elif n['k'] == 'bin' and n['op'] == '=':
                    l = f.kid(n, 0)
                    if l is not None and l['k'] == 'ref' and l.get('dk') in ('local', 'param'):
                        var, src = l['name'], f.kid(n, 1)
                if var is None:
                    continue
                b = source_buffer(f, src, n)
                if b is None:
                    continue
                acqs.append((n, var, b))
            for node, var, buf in acqs:
                n_acq += 1
                res = _track(ctx, f, node, var, buf, call_allocs)
                idx = occ.setdefault((f.name, var), [0])
                idx[0] += 1
                key = '%s:%s%s' % (f.name, var, ('#%d' % idx[0]) if idx[0] > 1 else '')
                bname = names.get(buf, 'any buffer') if buf != ANY else 'an unknown buffer'
                if res is None:
                    undecided += 1
                    ctx.note('R19.1 %s: state budget exceeded (not decided)' % key)
                    continue
                if res:
                    use, inval = res
                    ctx.ob('R19.1', key, False, f.loc(use),
                           '`%s` points into %s (acquired at %s); %s at %s may grow that '
                           'buffer and move it; `%s` is used afterwards at %s without being '
                           're-fetched' % (var, bname, f.loc(node),
                                           f.show(inval)[:50], f.loc(inval), var, f.loc(use)),
                           {'acquired': f.loc(node), 'invalidated': f.loc(inval)})
                else:
                    ctx.ob('R19.1', key, True, f.loc(node),
                           '`%s` (into %s) is never read after a call that may grow its buffer' % (
                               var, bname))
    ctx.count('arena_pointer_acquisitions', n_acq)
    ctx.count('undecided', undecided)
    ctx.count('functions_with_alloc_summary', sum(1 for v in S.values() if v))


def _track(ctx, f, acq, var, buf, call_allocs):
    if acq is None:
        b0, i0 = f.entry, -1
        region_exit = None
    else:
        nb = f.block_of(acq)
        if nb is None:
            return False
        b0, i0 = nb
        from .C16 import _action_exit_block
        region_exit = _action_exit_block(f, acq)
    found = []
    stale_seen = [0]

    def step(n, facts):
        k = n['k']
        if n is acq:
            return None         # the acquisition runs again (loop): re-fetched
        if k == 'call':
            if facts:
                return facts    # already stale; keep the first invalidating call
            al = call_allocs(f, n)
            if al and (buf == ANY or buf in al or ANY in al):
                # arguments were evaluated before the call: reads inside the
                # argument list are not "after"
                stale_seen[0] += 1
                return facts | {('stale', n['i'])}
        if k == 'ref' and n['name'] == var:
            p = f.parent(n)
            is_store = p is not None and ((p['k'] == 'bin' and p['op'] == '=' and f.kid(p, 0) is n))
            if is_store:
                return facts
            st = [x for x in facts if isinstance(x, tuple) and x[0] == 'stale']
            if st:
                # comparing the pointer itself against NULL does not touch memory
                q = p
                while q is not None and q['k'] == 'cast':
                    q = f.parent(q)
                if q is not None and q['k'] == 'bin' and q['op'] in ('==', '!=') and \
                        any(cu.const_of(cu.strip_casts(f, x)) == 0 for x in f.kids(q)):
                    return facts
                found.append((n, f.nodes[st[0][1]]))
                return None
        if k == 'bin' and n['op'] == '=':
            l = f.kid(n, 0)
            if l is not None and l['k'] == 'ref' and l['name'] == var and n is not acq:
                return None     # re-assigned: a new acquisition tracks it
        if k == 'decl' and n.get('name') == var and n is not acq:
            return None
        if k == 'ret':
            return None
        return facts

    def edge(b, term, cond, idx, succ, facts):
        if region_exit is not None and succ == region_exit:
            return None
        return facts
    try:
        paths.explore(f, set(), step, edge, start_block=b0, start_index=i0 + 1, max_states=512)
    except paths.Budget:
        return None
    if stale_seen[0]:
        ctx.counts['R19.1_pointers_outliving_an_allocation'] = \
            ctx.counts.get('R19.1_pointers_outliving_an_allocation', 0) + 1
    if found:
        return found[0]
    return False


def r19_2(ctx):
    prog = ctx.prog
    n = 0
    for rec in LONG_LIVED:
        r = prog.records.get(rec)
        if r is None:
            continue
        for fld in r['fields']:
            if not fld.get('ptr'):
                continue
            pr = fld.get('prec')
            n += 1
            bad = pr in ARENA_RECORDS
            if (rec, fld['name']) in LONG_LIVED_OK:
                bad = False
            ctx.ob('R19.2', '%s.%s' % (rec, fld['name']), not bad, 'record %s' % rec,
                   'pointer field %s.%s (%s) does not designate an arena record' % (
                       rec, fld['name'], fld['type']) if not bad else
                   'long-lived compile-time structure %s keeps a raw pointer to arena record '
                   '%s in field %s: it dangles as soon as that buffer grows (use a YR_ARENA_REF)'
                   % (rec, pr, fld['name']))
    # stores into YR_EXPRESSION.identifier.ptr never take an arena pointer
    g = prog.fn('yara_yyparse', 'libyara/grammar.c')
    if g is not None:
        for a in g.all_nodes():
            if a['k'] == 'bin' and a['op'] == '=':
                l = g.kid(a, 0)
                if l is not None and l['k'] == 'member' and l['fld'] == 'ptr':
                    r = cu.strip_casts(g, g.kid(a, 1))
                    bad = r is not None and r['k'] == 'call' and r.get('callee') in (
                        'yr_arena_ref_to_ptr', 'yr_arena_get_ptr')
                    bad = bad or (r is not None and r['k'] == 'member' and
                                  (r.get('rec'), r['fld']) in FIELD_BUFFER)
                    n += 1
                    ctx.ob('R19.2', 'yyparse:identifier.ptr<-%s' % g.show(r)[:40], not bad, g.loc(a),
                           'identifier.ptr receives a heap/object identifier' if not bad else
                           'identifier.ptr receives an arena pointer and lives across actions')
    ctx.count('long_lived_pointer_fields', n)


FIXTURES = {
    'R19.1': {'src': 'C19/stale.c', 'run': r19_1, 'expect': 'stale_use:rule',
              'expect_ok': 'other_buffer:kept'},
    'R19.2': {'src': 'C19/stale.c', 'run': r19_2, 'expect': 'YR_COMPILER.cached_rule'},
}


def r19_3(ctx):
    """"does this address lie in that buffer" is decided as data <= p < data + used
    everywhere (the first byte of a buffer belongs to it: a pointer to offset 0 must
    be fixed up when the buffer moves and must convert to a reference)"""
    from .C14 import canon, rcanon
    prog = ctx.prog
    n = 0
    for f in prog.fns():
        if f.file != 'libyara/arena.c' and not ctx.fixture:
            continue
        k = 0
        for a in f.all_nodes():
            if a['k'] != 'bin' or a['op'] not in ('&&', '||'):
                continue
            l, r = cu.strip_casts(f, f.kid(a, 0)), cu.strip_casts(f, f.kid(a, 1))
            if l is None or r is None or l['k'] != 'bin' or r['k'] != 'bin':
                continue
            if l['op'] not in ('>', '>=', '<', '<=') or r['op'] not in ('>', '>=', '<', '<='):
                continue
            FLIP = {'<': '>', '<=': '>=', '>': '<', '>=': '<='}

            NEG = {'<': '>=', '>=': '<', '>': '<=', '<=': '>'}
            outside = a['op'] == '||'       # `x < lo || x >= hi` is "not inside"

            def oriented(c):
                # through locals that merely name the bounds (old_data, old_end)
                a, b = rcanon(f, f.kid(c, 0)), rcanon(f, f.kid(c, 1))
                # the tested address on the left, the buffer bound on the right
                if ('data' in a and 'data' not in b):
                    return b, a, FLIP[c['op']]
                return a, b, c['op']
            xl, bl, opl = oriented(l)
            xr, br, opr = oriented(r)
            if xl != xr:
                continue
            if outside:
                opl, opr = NEG[opl], NEG[opr]
            l = {'op': opl, 'b': bl}
            r = {'op': opr, 'b': br}
            lo, hi = (l, r) if bl.endswith('data') or bl.endswith('.data') else (r, l)
            base = lo['b']
            top = hi['b']
            if not base.endswith('data') or not top.startswith('(' + base + ' + ') or \
                    not (top.endswith('used)') or top.endswith('size)')):
                continue
            n += 1
            ok = lo['op'] == '>=' and hi['op'] == '<'
            ctx.ob('R19.3', '%s:membership%d:half-open' % (f.name, k), ok, f.loc(a),
                   '%s <= %s < %s' % (base, xl, top) if ok else
                   'buffer membership is tested as %s %s %s && %s %s %s: %s' % (
                       xl, lo['op'], base, xl, hi['op'], top,
                       'a pointer to the first byte of the buffer is treated as foreign (not fixed up '
                       'when the buffer moves / not convertible to a reference)' if lo['op'] == '>' else
                       'the address one past the used part is treated as inside'))
            k += 1
    ctx.count('buffer_membership_tests', n)


def run(ctx):
    r19_1(ctx)
    ctx.floor('R19.1', 35)
    r19_2(ctx)
    ctx.floor('R19.2', 10)
    r19_3(ctx)
    ctx.floor('R19.3', 2)

"""C16 — allocation failure anywhere is reported, never suffered.

Decides the error discipline on every path of the library (DESIGN.md §4 C16):
  R16.1 no result of a fallible function (one that can return an ERROR_* code
        other than success, computed bottom-up) is dropped;
  R16.2 the result of every allocating function is NULL-tested on every path
        before it is dereferenced;
  R16.3 no `p = yr_realloc(p, n)` (the old block is lost on failure);
  R16.4 a local that owns a resource is released or has escaped on every path
        to a return;
  R16.5 the library allocates only through mem.c (yr_malloc family).
Not decided: the outcome of any particular injection; failures of module
field setters (the module contract: failure leaves the field undefined).
"""
from .. import cfgutil as cu
from .. import paths
from ..callgraph import CallGraph, return_codes, fallible, alloc_like, TOP

USES_PARSERS = True
LEVEL = 'other'
EXPLANATION = (
    'Error-discipline analysis over all library functions: bottom-up '
    'return-code summaries give the set of fallible functions; every call site '
    'of one is classified (propagated by the repo\'s FAIL_ON_ERROR/fail_if_error '
    'idioms, tested, returned, assigned-and-consumed on every path) or reported; '
    'allocator results get a path-sensitive unchecked->checked typestate; '
    'owning locals get an owned->released/escaped typestate on every exit. '
    'Decides these structural clauses for every site, including the error '
    'paths no injection scenario reaches; not the outcome of an injection.')
ASSUMPTIONS = [
    'libc/OpenSSL behave as documented',
    'module field setters (yr_set_*/yr_object_set_* called from modules/) are '
    'exempt by the module contract and counted, not checked',
    'passing an owned pointer to a callee that stores, frees or returns that '
    'parameter (summary) counts as transfer of ownership',
]

LIB = 'libyara/'

# ---- R16.1 ---------------------------------------------------------------
SETTER_PREFIX = ('yr_object_set_', 'yr_set_')
# functions whose error result is deliberately irrelevant, with reason
IGNORABLE = {
    'yr_compiler_set_error_extra_info': 'returns void-like constant',
}


def _stmt_parent(f, n):
    """nearest ancestor that is a statement (not an expression)"""
    p = f.parent(n)
    while p is not None and p['k'] in ('cast',):
        p = f.parent(p)
    return p


EXPR_KINDS = ('bin', 'un', 'call', 'member', 'ref', 'cond', 'cast', 'sub', 'init', 'int')


def call_use(f, c):
    """how the value of call node c is used: 'discarded', 'void-cast',
    ('assigned', var) or 'used'"""
    n = c
    p = f.parent(n)
    while p is not None and p['k'] == 'cast':
        if p.get('t') == 'void':
            return 'void-cast'
        n = p
        p = f.parent(p)
    if p is None:
        return 'discarded'
    k = p['k']
    if k in ('compound', 'label', 'case', 'default', 'stmtexpr'):
        return 'discarded'
    if k == 'if':
        return 'used' if f.kid(p, 0) is n else 'discarded'
    if k in ('while', 'do'):
        # condition is used; body statement is discarded
        ks = f.kids(p)
        cond = ks[0] if k == 'while' else ks[-1]
        return 'used' if cond is n else 'discarded'
    if k == 'for':
        parts = p.get('parts', [])
        if len(parts) == 4 and parts[1] == n['i']:
            return 'used'
        return 'discarded'
    if k == 'switch':
        return 'used' if f.kid(p, 0) is n else 'discarded'
    if k == 'bin' and p['op'] == ',':
        if f.kid(p, 0) is n:
            return 'discarded'
        return call_use(f, p)
    if k == 'bin' and p['op'] == '=' and f.kid(p, 1) is n:
        l = f.kid(p, 0)
        if l is not None and l['k'] == 'ref' and l.get('dk') in ('local', 'param'):
            return ('assigned', l['name'], p)
        return 'used'       # stored in a field / out-parameter: visible to others
    if k == 'decl':
        return ('assigned', p['name'], p)
    return 'used'


def consumed_on_all_paths(f, var, assign_node, tested_only=False):
    """after `var = <call>` every path reads var before overwriting it or
    leaving the function"""
    nb = f.block_of(assign_node)
    if nb is None:
        return True, None
    b0, i0 = nb
    # start right after the element that performs the assignment
    elems = f.blocks[b0]['e']
    start_idx = i0 + 1
    bad = []

    def reads(n):
        if n['k'] == 'ref' and n['name'] == var:
            p = f.parent(n)
            if p is not None and p['k'] == 'bin' and p['op'] == '=' and f.kid(p, 0) is n:
                return False
            if tested_only:
                # the first use must be a test (comparison / condition)
                q = p
                while q is not None and q['k'] == 'cast':
                    q = f.parent(q)
                if q is None:
                    return False
                if q['k'] == 'bin' and q['op'] in ('==', '!=', '&&', '||'):
                    return True
                if q['k'] in ('if', 'while', 'cond', 'for') or (q['k'] == 'un' and q['op'] == '!'):
                    return True
                bad.append(n)
                return True
            return True
        return False

    def step(n, facts):
        if 'pending' not in facts:
            return None
        if reads(n):
            return None         # consumed: stop exploring this path
        if n['k'] == 'bin' and n['op'] == '=':
            l = f.kid(n, 0)
            if l is not None and l['k'] == 'ref' and l['name'] == var:
                # the ref on the lhs is evaluated before; the rhs was already
                # walked (it would have consumed var if it read it).
                # Overwriting with a constant error code keeps the failure.
                r = cu.strip_casts(f, f.kid(n, 1))
                c = cu.const_of(r)
                if c is not None and c != 0:
                    return None
                bad.append(n)
                return None
        if n['k'] == 'decl' and n is not assign_node and n.get('name') == var:
            return None
        if n['k'] == 'ret':
            bad.append(n)
            return None
        return facts

    def edge(b, term, cond, idx, succ, facts):
        if succ == f.exit:
            bad.append(f.node(f.blocks[b]['e'][-1]) if f.blocks[b]['e'] else assign_node)
            return None
        return facts
    try:
        paths.explore(f, {'pending'}, step, edge, start_block=b0, start_index=start_idx,
                      max_states=64)
    except paths.Budget:
        return True, None
    if bad:
        return False, bad[0]
    return True, None


def r16_1(ctx, cg, rc):
    prog = ctx.prog
    n_sites = 0
    n_exempt_setters = 0
    # C16 is about allocation failure: a callee matters when it can report
    # ERROR_INSUFFICIENT_MEMORY (directly or through what it calls)
    fal_names = set(k[1] for k, v in rc.items()
                    if fallible(v) and 'ERROR_INSUFFICIENT_MEMORY' in v)
    occ = {}
    for f in prog.fns():
        if not f.file.startswith(LIB) and not ctx.fixture:
            continue
        in_module = '/modules/' in f.file
        for c in f.calls():
            targets = cg.targets(f, c)
            if not targets:
                continue
            tfal = [t for t in targets if t in fal_names]
            if not tfal:
                continue
            name = c.get('callee') or ('(*%s)' % f.show(f.kid(c, 0))[:30])
            if 'callee' not in c and len(tfal) < len(targets):
                # indirect call where only some targets are fallible in the
                # ERROR_ domain (callbacks returning other codes): skip
                continue
            if in_module and name.startswith(SETTER_PREFIX):
                n_exempt_setters += 1
                continue
            n_sites += 1
            use = call_use(f, c)
            ok = True
            detail = 'result used'
            where = f.loc(c)
            outp = None
            if use in ('discarded', 'void-cast'):
                # accepted idiom: the callee reports through an out-parameter
                # (`f(.., &v)`) and v is tested on every path afterwards
                for a in f.call_args(c):
                    a = cu.strip_casts(f, a)
                    if a is not None and a['k'] == 'un' and a['op'] == '&':
                        v = f.kid(a, 0)
                        if v is not None and v['k'] == 'ref' and v.get('dk') == 'local':
                            good, _at = consumed_on_all_paths(f, v['name'], c, tested_only=True)
                            if good:
                                outp = v['name']
            if outp is not None:
                detail = 'result dropped, but out-parameter `%s` is tested on every path' % outp
            elif use in ('discarded', 'void-cast'):
                ok = False
                detail = ('result of %s() (can return %s) is dropped' % (
                    name, ', '.join(sorted(v for v in rc.get(_key(prog, f, name), set())
                                           if v.startswith('ERROR_') and v != 'ERROR_SUCCESS')[:3])))
            elif isinstance(use, tuple):
                good, at = consumed_on_all_paths(f, use[1], use[2])
                if not good:
                    ok = False
                    detail = ('result of %s() is assigned to `%s` but overwritten or '
                              'abandoned at %s before being tested' % (
                                  name, use[1], f.loc(at) if at is not None else '?'))
            # the instance is "the k-th call of <callee> in <function>": stable under
            # renames of the variables that appear in the arguments
            txt = name
            idx = occ.setdefault((f.name, txt), [0])
            idx[0] += 1
            key = '%s:%s%s' % (f.name, txt, ('#%d' % idx[0]) if idx[0] > 1 else '')
            ctx.ob('R16.1', key, ok, where, detail if not ok else
                   '%s() result is propagated/tested' % name)
    ctx.count('fallible_call_sites', n_sites)
    ctx.count('module_setter_sites_exempt', n_exempt_setters)
    ctx.count('fallible_functions', len(fal_names))


def _key(prog, f, name):
    g = prog.fn(name, f.tu)
    if g is None:
        return (None, name)
    return (g.tu.name, g.name)


def run(ctx):
    cg = CallGraph(ctx.prog)
    rc = return_codes(ctx.prog, cg)
    r16_1(ctx, cg, rc)


# ---- R16.2 ---------------------------------------------------------------
DEREF_ARG_FUNCS = {
    # callee -> argument positions that are dereferenced unconditionally
    'memcpy': (0, 1), 'memmove': (0, 1), 'memset': (0,), 'strcpy': (0, 1),
    'strlcpy': (0, 1), 'strcat': (0, 1), 'strlen': (0,), 'strcmp': (0, 1),
    'strncmp': (0, 1), 'sprintf': (0,), 'snprintf': (0,), 'strncpy': (0, 1),
    'memcmp': (0, 1), 'strcasecmp': (0, 1), 'strstr': (0, 1), 'strchr': (0,),
}


def _holder(f, c):
    """where the value of call c is stored: ('lvalue', text, node, is_local),
    ('ret',), ('tested',) or ('other',)"""
    n = c
    p = f.parent(n)
    while p is not None and p['k'] == 'cast':
        n = p
        p = f.parent(p)
    if p is None:
        return ('other',)
    if p['k'] == 'bin' and p['op'] == '=' and f.kid(p, 1) is n:
        l = f.kid(p, 0)
        txt = f.show(l)
        is_local = l['k'] == 'ref' and l.get('dk') in ('local', 'param')
        return ('lvalue', txt, p, is_local)
    if p['k'] == 'decl':
        return ('lvalue', p['name'], p, True)
    if p['k'] == 'ret':
        return ('ret',)
    if p['k'] == 'bin' and p['op'] in ('==', '!='):
        return ('tested',)
    if p['k'] in ('if', 'while', 'for', 'cond') or (p['k'] == 'un' and p['op'] == '!'):
        return ('tested',)
    return ('other',)


_action_exit_cache = {}


def _action_exit_block(f, node):
    """for bison parsers: the block that follows the action switch (an action
    is the unit that owns its semantic values, not the whole yyparse loop)"""
    if not f.name.endswith('yyparse'):
        return None
    for a in f.ancestors(node):
        if a['k'] == 'switch':
            c = f.kid(a, 0)
            if c is not None and c['k'] == 'ref' and c['name'] == 'yyn':
                key = (id(f), a['i'])
                if key not in _action_exit_cache:
                    from .C04 import _post_switch_block
                    _action_exit_cache[key] = _post_switch_block(f, a)
                return _action_exit_cache[key]
    return None


def null_discipline(f, key, start_node, is_local, alloc_call=None):
    """explore from the store; returns (ok, node, what)"""
    from .C14 import canon as _canon
    size_args = set()
    if alloc_call is not None:
        for a_ in f.call_args(alloc_call):
            if cu.const_of(cu.strip_casts(f, a_)) is None:
                size_args.add(_canon(f, a_))
    nb = f.block_of(start_node)
    if nb is None:
        return True, None, ''
    b0, i0 = nb
    found = []

    def is_key(n):
        n = cu.strip_casts(f, n)
        return n is not None and n['k'] in ('ref', 'member', 'sub', 'un') and f.show(n) == key

    def step(n, facts):
        k = n['k']
        facts = ct.on_step(n, facts)
        if k == 'member' and n.get('arrow') and is_key(f.kid(n, 0)):
            found.append((n, 'dereferenced (%s) before being tested for NULL' % f.show(n)))
            return None
        if k == 'un' and n['op'] == '*' and is_key(f.kid(n, 0)):
            found.append((n, 'dereferenced before being tested for NULL'))
            return None
        if k == 'sub' and is_key(f.kid(n, 0)):
            found.append((n, 'indexed before being tested for NULL'))
            return None
        if k == 'call' and n.get('callee') in DEREF_ARG_FUNCS:
            args = f.call_args(n)
            for i in DEREF_ARG_FUNCS[n['callee']]:
                if i < len(args) and is_key(args[i]):
                    found.append((n, 'passed to %s() before being tested for NULL' % n['callee']))
                    return None
        if k == 'bin' and n['op'] == '=' and n is not start_node and is_key(f.kid(n, 0)):
            return None
        # `result = slot;`: a local now holds the same pointer, a NULL test of the local
        # decides the slot
        cp_dst = cp_src = None
        if k == 'decl' and n.get('c'):
            cp_dst, cp_src = n['name'], f.kid(n, 0)
        elif k == 'bin' and n['op'] == '=':
            l_ = cu.strip_casts(f, f.kid(n, 0))
            if l_ is not None and l_['k'] == 'ref' and l_.get('dk') == 'local':
                cp_dst, cp_src = l_['name'], f.kid(n, 1)
        if cp_dst is not None:
            if cp_src is not None and is_key(cp_src):
                facts = frozenset(facts) | {('alias', cp_dst)}
            elif ('alias', cp_dst) in facts:
                facts = frozenset(facts) - {('alias', cp_dst)}
        if k == 'ret':
            e = f.kid(n, 0)
            if e is not None and is_key(e):
                return None         # handed to the caller, who must test it
            c = cu.const_of(cu.strip_casts(f, e)) if e is not None else None
            es = cu.strip_casts(f, e) if e is not None else None
            if c is None and es is not None and es['k'] == 'ref':
                # `return result;` with result known on this path (`result = ERROR_X; goto _fail;`)
                for x in facts:
                    if isinstance(x, tuple) and len(x) == 3 and x[1] == es['name']:
                        if x[0] == 'eq' and isinstance(x[2], int):
                            c = x[2]
                        elif x[0] == 'ne' and x[2] == 0:
                            c = 1
            is_err = (c is not None and c != 0 and f.ret and '*' not in f.ret) or \
                any(m.startswith(('FAIL_ON_', 'GOTO_EXIT_ON_', 'YYABORT', 'YYERROR'))
                    for m in f.macros(n))
            if not is_local and not is_err:
                found.append((n, 'stored in %s and never tested for NULL before '
                              'the function returns' % key))
            return None
        if k == 'goto' and n.get('name') in ('yyerrorlab', 'yyabortlab'):
            return None             # bison error exits
        return facts

    region_exit = _action_exit_block(f, start_node)
    rvars = set()
    for n_ in f.all_nodes():
        if n_['k'] == 'ret' and n_.get('c'):
            e_ = cu.strip_casts(f, f.kid(n_, 0))
            if e_ is not None and e_['k'] == 'ref':
                rvars.add(e_['name'])
    ct = paths.CondTracker(f, extra=([key] if not is_local else []) + sorted(rvars))

    def edge(b, term, cond, idx, succ, facts):
        facts = ct.on_edge(term, cond, idx, facts)
        if facts is None:
            return None
        # learned through a boolean that stands for the test of the slot
        if any(isinstance(x, tuple) and len(x) == 3 and x[0] in ('eq', 'ne') and x[1] == key and x[2] == 0
               for x in facts):
            return None
        # nothing was asked for: on the edge where the requested count is zero there is
        # nothing to test
        if size_args:
            pol0 = paths.branch_polarity(f, term, idx)
            if pol0 is not None and cond is not None:
                c0, p0 = paths.normalise_cond(f, cond, pol0)
                if c0 is not None and c0['k'] == 'bin' and c0['op'] in ('==', '!=', '>', '<=', '<', '>='):
                    l0, r0 = f.kid(c0, 0), f.kid(c0, 1)
                    op0 = c0['op']
                    if cu.const_of(cu.strip_casts(f, l0)) == 0 and cu.const_of(cu.strip_casts(f, r0)) is None:
                        # `0 < n`, `0 == n`: the same test with the constant on the left
                        l0, r0 = r0, l0
                        op0 = {'<': '>', '>': '<', '<=': '>=', '>=': '<='}.get(op0, op0)
                    if op0 in ('==', '!=', '>', '<=') and _canon(f, l0) in size_args and \
                            cu.const_of(cu.strip_casts(f, r0)) == 0:
                        zero = (op0 in ('==', '<=')) == p0
                        if zero:
                            return None
        if region_exit is not None and succ == region_exit:
            if not is_local:
                found.append((start_node, 'stored in %s and never tested for NULL '
                              'before the grammar action ends' % key))
            return None
        pol = paths.branch_polarity(f, term, idx)
        if pol is not None and cond is not None:
            imp_ = ct.implied(cond, pol)
            if imp_ is not None and imp_[2] == 0 and ('alias', imp_[1]) in facts:
                return None         # tested through the local that holds the same pointer
            c, _ = paths.normalise_cond(f, cond, pol)
            if c is not None:
                if is_key(c):
                    return None
                if c['k'] == 'bin' and c['op'] in ('==', '!='):
                    a, bb = f.kid(c, 0), f.kid(c, 1)
                    if (is_key(a) and cu.const_of(cu.strip_casts(f, bb)) == 0) or \
                            (is_key(bb) and cu.const_of(cu.strip_casts(f, a)) == 0):
                        return None
                # (x = alloc()) == NULL
                if c['k'] == 'bin' and c['op'] in ('==', '!='):
                    for s in (f.kid(c, 0), f.kid(c, 1)):
                        s = cu.strip_casts(f, s)
                        if s is not None and s['k'] == 'bin' and s['op'] == '=' and is_key(f.kid(s, 0)):
                            return None
        if succ == f.exit and not is_local:
            last = f.node(f.blocks[b]['e'][-1]) if f.blocks[b]['e'] else start_node
            if last is None or last['k'] != 'ret':
                found.append((start_node, 'stored in %s and never tested for NULL' % key))
            return None
        return facts
    try:
        paths.explore(f, {'unchk'} | ct.enclosing_facts(start_node), step, edge,
                      start_block=b0, start_index=i0 + 1, max_states=256)
    except paths.Budget:
        return True, None, ''
    if found:
        return False, found[0][0], found[0][1]
    return True, None, ''


def r16_2(ctx, allocs):
    prog = ctx.prog
    occ = {}
    n = 0
    for f in prog.fns():
        if not f.file.startswith(LIB) and not ctx.fixture:
            continue
        if f.name in ('yr_malloc', 'yr_calloc', 'yr_realloc', 'yr_strdup', 'yr_strndup'):
            continue
        for c in f.calls():
            if c.get('callee') not in allocs:
                continue
            h = _holder(f, c)
            n += 1
            txt = '%s=%s' % (h[1] if h[0] == 'lvalue' else h[0], c['callee'])
            idx = occ.setdefault((f.name, txt), [0])
            idx[0] += 1
            key = '%s:%s%s' % (f.name, txt, ('#%d' % idx[0]) if idx[0] > 1 else '')
            if h[0] != 'lvalue':
                ctx.ob('R16.2', key, True, f.loc(c),
                       'result of %s() is %s' % (c['callee'], {
                           'ret': 'returned to the caller', 'tested': 'tested in place',
                           'other': 'passed on'}[h[0]]))
                continue
            ok, at, what = null_discipline(f, h[1], h[2], h[3], c)
            ctx.ob('R16.2', key, ok, f.loc(at) if at is not None else f.loc(c),
                   'result of %s() %s' % (c['callee'], what) if not ok else
                   'result of %s() is tested for NULL before use' % c['callee'])
    ctx.count('allocation_sites', n)


# ---- R16.3 ---------------------------------------------------------------
def r16_3(ctx):
    prog = ctx.prog
    n = 0
    for f in prog.fns():
        if not f.file.startswith(LIB) and not ctx.fixture:
            continue
        for c in f.calls():
            if c.get('callee') != 'yr_realloc':
                continue
            n += 1
            h = _holder(f, c)
            a0 = f.call_args(c)[0]
            same = h[0] == 'lvalue' and f.show(cu.strip_casts(f, a0)) == h[1]
            if same:
                # `items = yr_realloc(items, ..)` where items is a local copy of a slot that
                # keeps the old pointer (`items = array->items`): nothing is lost as long as
                # the slot is not overwritten with the result before the result was tested
                a0s = cu.strip_casts(f, a0)
                if a0s is not None and a0s['k'] == 'ref' and a0s.get('dk') == 'local':
                    slots = []
                    for n_ in f.all_nodes():
                        src = None
                        if n_['k'] == 'decl' and n_.get('name') == a0s['name'] and n_.get('c'):
                            src = cu.strip_casts(f, f.kid(n_, 0))
                        elif n_['k'] == 'bin' and n_['op'] == '=' and n_ is not f.parent(c):
                            l_ = cu.strip_casts(f, f.kid(n_, 0))
                            if l_ is not None and l_['k'] == 'ref' and l_['name'] == a0s['name']:
                                src = cu.strip_casts(f, f.kid(n_, 1))
                                if src is not None and src['k'] == 'call':
                                    src = None if src is c or cu.strip_casts(f, f.kid(n_, 1)) is c else src
                        if src is not None and src['k'] == 'member':
                            slots.append(f.show(src))
                    if slots:
                        early = []
                        nb = f.block_of(c)
                        ctr = paths.CondTracker(f, extra=[a0s['name']])

                        def step(x, facts):
                            if x['k'] == 'bin' and x['op'] == '=' and f.show(cu.strip_casts(f, f.kid(x, 0))) in slots:
                                r_ = cu.strip_casts(f, f.kid(x, 1))
                                if r_ is not None and r_['k'] == 'ref' and r_['name'] == a0s['name']:
                                    early.append(x)
                                return None
                            if x['k'] == 'ret':
                                return None
                            return facts

                        def edge(b, term, cond, idx, succ, facts):
                            pol = paths.branch_polarity(f, term, idx)
                            if pol is not None and cond is not None:
                                imp = ctr.implied(cond, pol)
                                if imp is not None and imp[1] == a0s['name'] and imp[2] == 0:
                                    return None         # the result is being tested: stop here
                            return facts
                        try:
                            paths.explore(f, set(), step, edge, start_block=nb[0], start_index=nb[1] + 1,
                                          max_states=512)
                            if not early:
                                same = False
                        except paths.Budget:
                            pass
            ctx.ob('R16.3', '%s:%s=yr_realloc' % (f.name, h[1] if h[0] == 'lvalue' else h[0]),
                   not same, f.loc(c),
                   'p = yr_realloc(p, ..): on failure the only pointer to the old block '
                   'is overwritten with NULL (block leaked, and the owner now holds NULL '
                   'with a non-zero size)' if same else
                   'yr_realloc result kept apart from the old pointer until tested')
    ctx.count('realloc_sites', n)


# ---- R16.5 ---------------------------------------------------------------
RAW_ALLOC = ('malloc', 'calloc', 'realloc', 'strdup', 'strndup', 'free')
RAW_ALLOWED = {
    # file -> reason
    'libyara/mem.c': 'the allocator wrappers themselves',
    'libyara/proc/linux.c': 'pagemap buffer of process scanning (outside C16\'s scenarios); '
                            'uses calloc/free directly',
}


def r16_5(ctx):
    prog = ctx.prog
    n = 0
    for f in prog.fns():
        if not f.file.startswith(LIB) and not ctx.fixture:
            continue
        for c in f.calls():
            if c.get('callee') in RAW_ALLOC:
                n += 1
                flex_own = f.name.endswith(('yyalloc', 'yyrealloc', 'yyfree'))
                ok = f.file in RAW_ALLOWED or f.file.startswith('libyara/modules/pe/authenticode-parser/') \
                    or f.file.startswith('libyara/tlshc/') or flex_own
                ctx.ob('R16.5', '%s:%s' % (f.name, c['callee']), ok, f.loc(c),
                       'raw libc allocator used in %s (%s)' % (f.file, 'flex\'s own allocator, '
                           'named as an exception by the property itself' if flex_own else
                           RAW_ALLOWED.get(
                           f.file, 'vendored third-party parser, allocations not routed '
                           'through yr_malloc: outside the property\'s premise')) if ok else
                       'libc %s() called outside mem.c: the allocation bypasses the '
                       'library\'s allocator' % c['callee'])
    # bison/flex allocators are redirected
    for fname, macros in (('libyara/grammar.y', ('YYMALLOC yr_malloc', 'YYFREE yr_free')),
                          ('libyara/hex_grammar.y', ('YYMALLOC yr_malloc', 'YYFREE yr_free')),
                          ('libyara/re_grammar.y', ('YYMALLOC yr_malloc', 'YYFREE yr_free'))):
        t = prog.text(fname)
        if t is None:
            continue
        for m in macros:
            import re as _re
            ok = _re.search(r'#define\s+' + m.replace(' ', r'\s+'), t) is not None
            ctx.ob('R16.5', '%s:%s' % (fname.split('/')[-1], m.split()[0]), ok, fname,
                   'bison allocator redirected (%s)' % m if ok else
                   'bison allocator not redirected to the library allocator')
    ctx.count('raw_alloc_sites', n)


def run(ctx):
    cg = CallGraph(ctx.prog)
    rc = return_codes(ctx.prog, cg)
    r16_1(ctx, cg, rc)
    allocs = alloc_like(ctx.prog, cg)
    r16_2(ctx, allocs)
    r16_3(ctx)
    r16_5(ctx)


# ---- R16.4 ---------------------------------------------------------------
LIBC_BORROW = set('''memcpy memmove memset memcmp strlen strcmp strncmp strcasecmp strncasecmp
strcpy strncpy strlcpy strlcat strcat strchr strrchr strstr memmem snprintf sprintf fprintf printf
vsnprintf fread fwrite fseek ftell fgets fputs feof ferror fileno fflush strtol strtoll strtoul
strtoull atoi isdigit isalpha toupper tolower qsort bsearch assert __assert_fail abs llabs
yr_lowercase yr_unaligned_u16 yr_unaligned_u32 yr_unaligned_u64 xtoi strnlen_w strlen_w strcmp_w
fstat read lseek pread ftruncate'''.split())

RELEASERS = {'yr_free': 0, 'free': 0, 'fclose': 0}


def _param_aliases(f, pnames):
    """{name: param index} for the parameters and the locals that are
    (flow-insensitively) initialised or assigned from them"""
    alias = {n: i for i, n in enumerate(pnames)}
    changed = True
    while changed:
        changed = False
        for n in f.all_nodes():
            name = src = None
            if n['k'] == 'decl' and n.get('c'):
                name, src = n['name'], f.kid(n, 0)
            elif n['k'] == 'bin' and n['op'] == '=':
                l = f.kid(n, 0)
                if l is not None and l['k'] == 'ref' and l.get('dk') == 'local':
                    name, src = l['name'], f.kid(n, 1)
            src = cu.strip_casts(f, src) if src is not None else None
            if name and src is not None and src['k'] == 'ref' and src['name'] in alias \
                    and name not in alias:
                alias[name] = alias[src['name']]
                changed = True
    return alias


direct_alias = {}     # {(tu,fn): {param index}} freed only through a local alias


def param_escape_summary(prog, cg):
    """esc[(tu,fn)][i] in {'free','store'}: what the function may do with its
    i-th pointer parameter (absent = borrows it)."""
    esc = {}
    fns = list(prog.fns())
    for f in fns:
        esc[(f.tu.name, f.name)] = {}
    changed = True
    rounds = 0
    while changed and rounds < 12:
        changed = False
        rounds += 1
        for f in fns:
            key = (f.tu.name, f.name)
            pnames = [p['name'] for p in f.params]
            cur = esc[key]
            alias = _param_aliases(f, pnames)
            for n in f.all_nodes():
                k = n['k']
                if k == 'call':
                    args = f.call_args(n)
                    for j, a in enumerate(args):
                        a = cu.strip_casts(f, a)
                        if a is None or a['k'] != 'ref' or a['name'] not in alias:
                            continue
                        i = alias[a['name']]
                        kind = None
                        callee = n.get('callee')
                        if callee in RELEASERS and RELEASERS[callee] == j:
                            kind = 'free'
                            if a['name'] not in pnames:
                                # freed through a local alias of the parameter
                                # (list walkers; also flag-guarded frees)
                                direct_alias.setdefault(key, set()).add(i)
                        elif callee in LIBC_BORROW:
                            kind = None
                        else:
                            ts = cg.targets(f, n)
                            for t in ts:
                                g = prog.fn(t, f.tu)
                                if g is None:
                                    if t not in LIBC_BORROW and 'callee' in n:
                                        pass
                                    continue
                                kk = esc[(g.tu.name, g.name)].get(j)
                                if kk == 'free' or (kk == 'store' and kind is None):
                                    kind = kk
                                    if kk == 'free' and j in direct_alias.get((g.tu.name, g.name), ()):
                                        direct_alias.setdefault(key, set()).add(i)
                        if kind and cur.get(i) != 'free' and cur.get(i) != kind:
                            cur[i] = kind
                            changed = True
                elif k == 'bin' and n['op'] == '=':
                    r = cu.strip_casts(f, f.kid(n, 1))
                    if r is not None and r['k'] == 'ref' and r['name'] in alias:
                        l = f.kid(n, 0)
                        if l is not None and not (l['k'] == 'ref' and l.get('dk') == 'local'):
                            i = alias[r['name']]
                            if i not in cur:
                                cur[i] = 'store'
                                changed = True
                elif k == 'ret':
                    r = cu.strip_casts(f, f.kid(n, 0)) if n.get('c') else None
                    if r is not None and r['k'] == 'ref' and r['name'] in alias:
                        i = alias[r['name']]
                        if i not in cur:
                            cur[i] = 'store'
                            changed = True
    return esc


def creator_summary(prog, cg, allocs):
    """creates[(tu,fn)] = set of parameter indexes through which the function
    hands a freshly allocated object to its caller (`*out = new`)."""
    creates = {}
    fns = list(prog.fns())
    changed = True
    rounds = 0
    while changed and rounds < 8:
        changed = False
        rounds += 1
        for f in fns:
            key = (f.tu.name, f.name)
            pnames = [p['name'] for p in f.params]
            # locals that hold fresh objects
            fresh = set()
            owner_of = {}
            for n in f.all_nodes():
                src = None
                name = None
                if n['k'] == 'decl' and n.get('c'):
                    name, src = n['name'], f.kid(n, 0)
                elif n['k'] == 'bin' and n['op'] == '=':
                    l = f.kid(n, 0)
                    if l is not None and l['k'] == 'ref' and l.get('dk') == 'local':
                        name, src = l['name'], f.kid(n, 1)
                src = cu.strip_casts(f, src) if src is not None else None
                if src is not None and src['k'] == 'call' and src.get('callee') in allocs:
                    fresh.add(name)
                if n['k'] == 'call':
                    for t in cg.targets(f, n):
                        g = prog.fn(t, f.tu)
                        if g is None:
                            continue
                        for j in creates.get((g.tu.name, g.name), ()):
                            args = f.call_args(n)
                            if j < len(args):
                                a = cu.strip_casts(f, args[j])
                                if a is not None and a['k'] == 'un' and a['op'] == '&':
                                    v = f.kid(a, 0)
                                    if v is not None and v['k'] == 'ref' and v.get('dk') == 'local':
                                        fresh.add(v['name'])
            for n in f.all_nodes():
                # pass-through: g(.., p, ..) where g creates through that slot
                if n['k'] == 'call':
                    for t in cg.targets(f, n):
                        g = prog.fn(t, f.tu)
                        if g is None:
                            continue
                        for j in creates.get((g.tu.name, g.name), ()):
                            args = f.call_args(n)
                            if j < len(args):
                                a = cu.strip_casts(f, args[j])
                                if a is not None and a['k'] == 'ref' and a.get('dk') == 'param' \
                                        and a['name'] in pnames:
                                    i = pnames.index(a['name'])
                                    sset = creates.setdefault(key, set())
                                    if i not in sset:
                                        sset.add(i)
                                        changed = True
                if n['k'] == 'bin' and n['op'] == '=':
                    l = f.kid(n, 0)
                    if l is not None and l['k'] == 'un' and l['op'] == '*':
                        p = cu.strip_casts(f, f.kid(l, 0))
                        r = cu.strip_casts(f, f.kid(n, 1))
                        if p is not None and p['k'] == 'ref' and p.get('dk') == 'param' and \
                                r is not None and r['k'] == 'call' and r.get('callee') in allocs:
                            i = pnames.index(p['name'])
                            sset = creates.setdefault(key, set())
                            if i not in sset:
                                sset.add(i)
                                changed = True
                            continue
                        if p is not None and p['k'] == 'ref' and p.get('dk') == 'param' and \
                                r is not None and r['k'] == 'ref' and r['name'] in fresh:
                            i = pnames.index(p['name'])
                            # the same fresh object handed out through several
                            # out-parameters (list head and tail): the first owns
                            first = owner_of.setdefault(r['name'], i)
                            if first != i:
                                continue
                            s = creates.setdefault(key, set())
                            if i not in s:
                                s.add(i)
                                changed = True
    # creators that also link the new object into a structure they were given
    # (list insertion, parent attachment) do not hand ownership to the caller
    for f in fns:
        key = (f.tu.name, f.name)
        if key not in creates or f.name == 'yr_object_create':
            continue        # yr_object_create: owned iff parent == NULL (call-site test)
        pnames = [p['name'] for p in f.params]
        outs = set(pnames[i] for i in creates[key] if i < len(pnames))
        shares = False
        for n in f.all_nodes():
            if n['k'] != 'bin' or n['op'] != '=':
                continue
            l = f.kid(n, 0)
            r = cu.strip_casts(f, f.kid(n, 1))
            if l is None or r is None:
                continue
            if r['k'] == 'un' and r['op'] == '*':
                b = cu.strip_casts(f, f.kid(r, 0))
                if b is not None and b['k'] == 'ref' and b['name'] in outs:
                    if l['k'] == 'member' or (l['k'] == 'un' and l['op'] == '*'):
                        shares = True
        if shares:
            del creates[key]
    return creates


def _object_create_callers_ok(ctx, cg):
    """every call of yr_object_create passes a parent or an out-pointer"""
    n = 0
    for f in ctx.prog.fns():
        for c in f.calls():
            if c.get('callee') != 'yr_object_create':
                continue
            n += 1
            a = f.call_args(c)
            parent_null = cu.const_of(cu.strip_casts(f, a[2])) == 0
            out_null = cu.const_of(cu.strip_casts(f, a[3])) == 0
            if parent_null and out_null:
                return False
    return n > 0


OWNERSHIP_EXCEPTIONS = {
    ('yr_object_create', 'obj'): (
        'the new object is either attached to `parent` or returned through `object`; '
        'the path with both NULL would leak it', _object_create_callers_ok),
}


def r16_4(ctx, cg, rc, allocs):
    prog = ctx.prog
    esc = param_escape_summary(prog, cg)
    creates = creator_summary(prog, cg, allocs)
    fal = set(k[1] for k, v in rc.items() if fallible(v))
    n_owned = 0
    occ = {}
    for f in prog.fns():
        if not f.file.startswith(LIB) and not ctx.fixture:
            continue
        if f.name.endswith('yyparse') or f.name.endswith('yylex'):
            continue        # parser values have their own ownership rule (C07 R7.1)
        # acquisition sites: (node, var, kind, result-carrier)
        acqs = []
        for n in f.all_nodes():
            if n['k'] == 'call':
                cal = n.get('callee')
                h = _holder(f, n)
                if (cal in allocs or cal == 'fopen') and h[0] == 'lvalue' and h[3]:
                    p = h[2]
                    # only plain local variables
                    if p['k'] == 'decl' or (f.kid(p, 0) is not None and f.kid(p, 0)['k'] == 'ref'):
                        acqs.append((p, h[1], 'ptr', None))
                for t in cg.targets(f, n):
                    g = prog.fn(t, f.tu)
                    if g is None:
                        continue
                    if t == 'yr_object_create':
                        # the new object belongs to `parent` when one is given
                        pa = f.call_args(n)
                        if len(pa) < 3 or cu.const_of(cu.strip_casts(f, pa[2])) != 0:
                            continue
                    for j in creates.get((g.tu.name, g.name), ()):
                        args = f.call_args(n)
                        if j < len(args):
                            a = cu.strip_casts(f, args[j])
                            if a is not None and a['k'] == 'un' and a['op'] == '&':
                                v = f.kid(a, 0)
                                if v is not None and v['k'] == 'ref' and v.get('dk') == 'local':
                                    acqs.append((n, v['name'], 'out', None))
        for node, var, kind, _ in acqs:
            # an exception names the function and the variable as spelled when it was
            # confirmed; it applies to the (only) local of that function that owns the
            # result of an allocator call, however it is spelled now
            exc = [k for k in OWNERSHIP_EXCEPTIONS if k[0] == f.name]
            if exc and kind == 'ptr' and (exc[0][1] == var or
                                          sum(1 for a_ in acqs if a_[2] == 'ptr') == 1):
                reason, side = OWNERSHIP_EXCEPTIONS[exc[0]]
                var = exc[0][1]
                ok = side(ctx, cg)
                ctx.ob('R16.4', '%s:%s:contract' % (f.name, var), ok, f.loc(node),
                       'exception: %s — side condition %s' % (
                           reason, 'holds at every call site' if ok else 'VIOLATED at a call site'))
                continue
            n_owned += 1
            ok, at, what = ownership(ctx, f, node, var, kind, cg, esc, fal)
            idx = occ.setdefault((f.name, var), [0])
            idx[0] += 1
            key = '%s:%s%s' % (f.name, var, ('#%d' % idx[0]) if idx[0] > 1 else '')
            ctx.ob('R16.4', key, ok, f.loc(at) if at is not None else f.loc(node),
                   ('`%s` (acquired at %s) %s' % (var, f.loc(node), what)) if not ok else
                   '`%s` is released or handed over on every path to a return' % var)
    ctx.count('owning_locals', n_owned)


def _is_push_front(f, assign, var, head):
    """`head = var` completes a push in front of a list: `var-><link> = head` was
    assigned in the same statement list before it"""
    par = f.parent(assign)
    while par is not None and par['k'] not in ('compound',):
        par = f.parent(par)
    if par is None:
        return False
    for st in f.kids(par):
        if st is assign or any(x is assign for x in f.walk(st)):
            break
        for x in f.walk(st):
            if x['k'] == 'bin' and x['op'] == '=':
                l = cu.strip_casts(f, f.kid(x, 0))
                r = cu.strip_casts(f, f.kid(x, 1))
                if l is not None and l['k'] == 'member' and l.get('arrow') and r is not None and \
                        r['k'] == 'ref' and r['name'] == head:
                    b = cu.strip_casts(f, f.kid(l, 0))
                    if b is not None and b['k'] == 'ref' and b['name'] == var:
                        return True
    return False


def ownership(ctx, f, acq, var, kind, cg, esc, fal, _depth=0):
    prog = ctx.prog
    nb = f.block_of(acq)
    if nb is None:
        return True, None, ''
    b0, i0 = nb
    found = []
    handed = set()
    established = [False]
    ct = paths.CondTracker(f, extra=[var])

    def is_var(n):
        n = cu.strip_casts(f, n)
        return n is not None and n['k'] == 'ref' and n['name'] == var

    def carrier_of(call):
        """variable that receives the call's result (or '<cond>' if tested in place)"""
        u = call_use(f, call)
        if isinstance(u, tuple):
            return u[1]
        p = f.parent(call)
        while p is not None and p['k'] == 'cast':
            p = f.parent(p)
        if p is not None and p['k'] == 'bin' and p['op'] in ('==', '!='):
            return '<cond>'
        return None

    init = set(ct.enclosing_facts(acq))
    if kind == 'ptr':
        init.add('own')
    else:
        car = carrier_of(acq)
        if car and car != '<cond>' and acq.get('callee') in fal:
            init.add(('pend', car))
        elif car == '<cond>':
            init.add(('pendcond', acq['i']))
        else:
            init.add('own')

    def release(facts):
        return frozenset(x for x in facts if x != 'own' and not (isinstance(x, tuple) and x[0] in ('pend', 'xfer', 'pendcond', 'xfercond')))

    def step(n, facts):
        sp = ct.split_on_assigned_comparison(n, facts)
        if sp is not None and any(('eq', var, 0) in fs or ('ne', var, 0) in fs for fs in sp):
            # `flag = (var != NULL)`: from here on the flag says whether anything is owned
            if 'own' in facts:
                established[0] = True
            return paths.Fork([release(fs) if ('eq', var, 0) in fs else fs for fs in sp])
        facts = ct.on_step(n, facts)
        k = n['k']
        owned = 'own' in facts
        if owned:
            established[0] = True
        if k == 'call' and n is not acq:
            args = f.call_args(n)
            for j, a in enumerate(args):
                aa = cu.strip_casts(f, a)
                direct = aa is not None and aa['k'] == 'ref' and aa['name'] == var
                addr = aa is not None and aa['k'] == 'un' and aa['op'] == '&' and is_var(f.kid(aa, 0))
                if not (direct or addr):
                    continue
                if addr:
                    return release(facts)       # &v handed out: give up tracking
                callee = n.get('callee')
                if callee in RELEASERS and RELEASERS[callee] == j:
                    return release(facts)
                if callee in LIBC_BORROW:
                    continue
                ts = cg.targets(f, n)
                kinds = set()
                unknown = False
                for t in ts:
                    g = prog.fn(t, f.tu)
                    if g is None:
                        unknown = True
                        continue
                    kinds.add(esc[(g.tu.name, g.name)].get(j))
                if unknown or not ts:
                    return release(facts)
                if 'free' in kinds:
                    return release(facts)
                if 'store' in kinds:
                    car = carrier_of(n)
                    if car and car != '<cond>' and any(t in fal for t in ts):
                        return frozenset(facts) | {('xfer', car)}
                    if car == '<cond>' and any(t in fal for t in ts):
                        return frozenset(facts) | {('xfercond', n['i'])}
                    return release(facts)
        if k == 'bin' and n['op'] == '=':
            r = f.kid(n, 1)
            l = f.kid(n, 0)
            if is_var(r) and l is not None:
                # `other = var`: another local takes the resource over (a list head that
                # the new node was just linked in front of): it is that local's to release
                # or hand over from here on
                ll = cu.strip_casts(f, l)
                if owned and ll is not None and ll['k'] == 'ref' and ll.get('dk') == 'local' and \
                        ll['name'] != var and '*' in (ll.get('t') or '') and _depth < 2 and \
                        n['i'] not in handed and _is_push_front(f, n, var, ll['name']):
                    handed.add(n['i'])
                    ok2, at2, what2 = ownership(ctx, f, n, ll['name'], 'ptr', cg, esc, fal, _depth + 1)
                    if not ok2:
                        found.append((at2 if at2 is not None else n,
                                      '(taken over by `%s` at %s) %s' % (ll['name'], f.loc(n), what2)))
                return release(facts)           # stored or aliased
            if l is not None and l['k'] == 'ref' and l['name'] == var and n is not acq:
                if owned:
                    rr = cu.strip_casts(f, r)
                    if not (rr is not None and cu.const_of(rr) == 0 and False):
                        found.append((n, 'is overwritten while still owning the resource'))
                return release(facts)
        if k == 'decl' and n.get('c') and is_var(f.kid(n, 0)):
            return release(facts)
        # the result carrier is copied (`int __error = (result);`): the copy
        # carries the same pending decision
        src = dst = None
        if k == 'decl' and n.get('c'):
            dst, src = n['name'], cu.strip_casts(f, f.kid(n, 0))
        elif k == 'bin' and n['op'] == '=':
            l = f.kid(n, 0)
            if l is not None and l['k'] == 'ref':
                dst, src = l['name'], cu.strip_casts(f, f.kid(n, 1))
        if dst and src is not None and src['k'] == 'ref':
            extra = set()
            for x in facts:
                if isinstance(x, tuple) and x[0] in ('pend', 'xfer') and x[1] == src['name']:
                    extra.add((x[0], dst))
            if extra:
                facts = frozenset(facts) | extra
        if k == 'init' or k == 'cliteral':
            if any(is_var(x) for x in f.kids(n)):
                return release(facts)
        if k == 'ret':
            e = f.kid(n, 0) if n.get('c') else None
            if e is not None and any(x['k'] == 'ref' and x['name'] == var for x in f.walk(e)):
                return None
            if owned:
                found.append((n, 'is still owned at this return: not released, not stored, '
                              'not handed to a callee that keeps it'))
            return None
        return facts

    def edge(b, term, cond, idx, succ, facts):
        facts2 = ct.on_edge(term, cond, idx, facts)
        if facts2 is None:
            return None
        facts = facts2
        pol = paths.branch_polarity(f, term, idx)
        if pol is not None and cond is not None:
            c, p2 = paths.normalise_cond(f, cond, pol)
            # NULL edge of the variable itself: nothing is owned
            imp = ct.implied(cond, pol)
            if imp is not None and imp[1] == var and imp[2] == 0 and imp[0] == 'eq':
                return release(facts)
            # result carrier tests
            if imp is not None:
                for x in list(facts):
                    if isinstance(x, tuple) and x[0] in ('pend', 'xfer') and x[1] == imp[1]:
                        success = (imp[0] == 'eq' and imp[2] == 0)
                        failure = (imp[0] == 'ne' and imp[2] == 0) or (imp[0] == 'eq' and imp[2] != 0)
                        if x[0] == 'pend':
                            if success:
                                facts = (frozenset(facts) - {x}) | {'own'}
                            elif failure:
                                facts = frozenset(facts) - {x}
                        else:
                            if success:
                                facts = release(facts)
                            elif failure:
                                facts = frozenset(facts) - {x}
            # call tested in place:  if (f(&v) != ERROR_SUCCESS)
            if c is not None and c['k'] == 'bin' and c['op'] in ('==', '!='):
                for s in (f.kid(c, 0), f.kid(c, 1)):
                    s = cu.strip_casts(f, s)
                    o = f.kid(c, 1) if s is cu.strip_casts(f, f.kid(c, 0)) else f.kid(c, 0)
                    if s is not None and s['k'] == 'call' and cu.const_of(cu.strip_casts(f, o)) == 0:
                        success = (c['op'] == '==') == p2
                        for x in list(facts):
                            if isinstance(x, tuple) and x[0] == 'pendcond' and x[1] == s['i']:
                                facts = (frozenset(facts) - {x}) | ({'own'} if success else set())
                            if isinstance(x, tuple) and x[0] == 'xfercond' and x[1] == s['i']:
                                facts = release(facts) if success else frozenset(facts) - {x}
        if succ == f.exit and 'own' in facts:
            last = f.node(f.blocks[b]['e'][-1]) if f.blocks[b]['e'] else None
            if last is None or last['k'] != 'ret':
                found.append((acq, 'is still owned when the function ends'))
            return None
        return facts
    try:
        paths.explore(f, init, step, edge, start_block=b0, start_index=i0 + 1, max_states=1024)
    except paths.Budget:
        ctx.note('R16.4: %s/%s state budget exceeded (not decided)' % (f.name, var))
        return True, None, ''
    if established[0]:
        ctx.counts['R16.4_ownership_established'] = ctx.counts.get('R16.4_ownership_established', 0) + 1
    if found:
        return False, found[0][0], found[0][1]
    return True, None, ''


def _all(ctx):
    cg = CallGraph(ctx.prog)
    rc = return_codes(ctx.prog, cg)
    allocs = alloc_like(ctx.prog, cg)
    nullable = alloc_like(ctx.prog, cg, pools=True)
    return cg, rc, allocs, nullable


def refcount_functions(prog):
    """(acquirers, releasers): functions whose body increments / decrements a
    counter field of their first parameter (reference counting)"""
    acq, rel = {}, {}
    for f in prog.fns():
        if not f.params or not (f.file.startswith('libyara/') or f.file.startswith('C16/') or '/' not in f.file):
            continue
        p0 = f.params[0]['name']
        for n in f.all_nodes():
            up = None
            if n['k'] == 'un' and n['op'] in ('++', 'post++', '--', 'post--'):
                up = '+' if '+' in n['op'] else '-'
            elif n['k'] == 'bin' and n['op'] in ('+=', '-=') and \
                    cu.const_of(cu.strip_casts(f, f.kid(n, 1))) == 1:
                up = n['op'][0]             # `xrefs -= 1` is `xrefs--`
            if up is not None:
                m = cu.strip_casts(f, f.kid(n, 0))
                if m is not None and m['k'] == 'member' and 'ref' in m['fld']:
                    b = cu.strip_casts(f, f.kid(m, 0))
                    if b is not None and b['k'] == 'ref' and b['name'] == p0:
                        (acq if up == '+' else rel).setdefault(f.name, m['fld'])
    # an acquirer does nothing but count
    acq = {k: v for k, v in acq.items() if k not in rel}
    return acq, rel


def r16_6(ctx, rc=None):
    """a reference taken is given back on every failing exit"""
    prog = ctx.prog
    acq, rel = refcount_functions(prog)
    ctx.require((acq and rel) or ctx.fixture, 'no reference-counting acquire/release pair found')
    n = 0
    for f in prog.fns():
        if not f.file.startswith('libyara/') and not ctx.fixture:
            continue
        sites = [c for c in f.calls() if c.get('callee') in acq]
        for c in sites:
            n += 1
            obj = f.show(cu.strip_casts(f, f.call_args(c)[0]))
            blk = f.block_of(c)
            bad = []

            def is_err(x):
                e = cu.strip_casts(f, f.kid(x, 0)) if x.get('c') else None
                if e is None:
                    return False
                v = cu.const_of(e)
                if v is not None:
                    return v != 0
                return e['k'] == 'ref' and e['name'] in ('__error',)

            def step(x, facts):
                if x['k'] == 'call' and x.get('callee') in rel and \
                        f.show(cu.strip_casts(f, f.call_args(x)[0])) == obj:
                    return facts | {'released'}
                if x['k'] == 'ret':
                    if is_err(x) and 'released' not in facts:
                        bad.append(x)
                    return None
                return facts
            try:
                paths.explore(f, set(), step, None, start_block=blk[0], start_index=blk[1] + 1,
                              max_states=2000)
            except paths.Budget:
                continue
            ctx.ob('R16.6', '%s:%s(%s):released-on-failure' % (f.name, c['callee'], obj), not bad,
                   f.loc(bad[0]) if bad else f.loc(c),
                   'every failing return after %s(%s) gives the reference back' % (c['callee'], obj)
                   if not bad else
                   '%s returns an error here after %s(%s) without %s: the object can never be freed' % (
                       f.name, c['callee'], obj, '/'.join(sorted(rel))))
    ctx.count('reference_acquisitions', n)


def r16_7(ctx, only=None, rule='R16.7'):
    """a NULL guard (a test whose NULL edge returns) is not preceded by a
    dereference of the same pointer on every path: if it is, either the guard
    or the dereference is wrong (Engler's check-then-use contradiction)"""
    prog = ctx.prog
    n_guard = 0
    for f in prog.fns():
        if only is not None:
            if f.name not in only:
                continue
        elif not f.file.startswith('libyara/') and not ctx.fixture:
            continue
        guards = {}
        for n in f.all_nodes():
            if n['k'] != 'if' or f.macros(n):
                continue
            c0 = cu.strip_casts(f, f.kid(n, 0))
            if c0 is None:
                continue
            ks = f.kids(n)
            # `p == NULL || other` guards like `p == NULL`
            cands = []
            st = [c0]
            while st:
                y = st.pop()
                if y is None:
                    continue
                if y['k'] == 'bin' and y['op'] == '||':
                    st.append(cu.strip_casts(f, f.kid(y, 0)))
                    st.append(cu.strip_casts(f, f.kid(y, 1)))
                else:
                    cands.append((y, y is not c0))
            for c, inner in cands:
                v = None
                null_arm = None
                if c['k'] == 'bin' and c['op'] in ('==', '!='):
                    a, b = cu.strip_casts(f, f.kid(c, 0)), cu.strip_casts(f, f.kid(c, 1))
                    for x, y in ((a, b), (b, a)):
                        if x is not None and x['k'] == 'ref' and x.get('dk') in ('local', 'param') and \
                                cu.const_of(y) == 0:
                            v = x['name']
                            if c['op'] == '==':
                                null_arm = ks[1]
                            elif not inner:
                                null_arm = ks[2] if len(ks) > 2 else None
                elif c['k'] == 'un' and c['op'] == '!':
                    x = cu.strip_casts(f, f.kid(c, 0))
                    if x is not None and x['k'] == 'ref' and x.get('dk') in ('local', 'param'):
                        v, null_arm = x['name'], ks[1]
                if v is None or null_arm is None:
                    continue
                isptr = any((dd['name'] == v and ('*' in dd.get('t', '') or dd.get('prec')))
                            for dd in f.all_nodes() if dd['k'] == 'decl') or \
                    any(p_['name'] == v and ('*' in p_.get('type', '') or p_.get('prec')) for p_ in f.params)
                if not isptr:
                    continue
                # a guard: the NULL arm leaves the function
                if not any(x['k'] in ('ret', 'goto') for x in f.walk(null_arm)):
                    continue
                guards[c['i']] = (n, v)
        if not guards:
            continue
        names = set(v for _, v in guards.values())
        found = {}

        def is_deref(x, v):
            if x['k'] == 'member' and x.get('arrow'):
                b = cu.strip_casts(f, f.kid(x, 0))
                return b is not None and b['k'] == 'ref' and b['name'] == v
            if x['k'] in ('sub',) or (x['k'] == 'un' and x['op'] == '*'):
                b = cu.strip_casts(f, f.kid(x, 0))
                return b is not None and b['k'] == 'ref' and b['name'] == v
            return False

        def step(x, facts):
            for v in names:
                if is_deref(x, v):
                    facts = frozenset(y for y in facts if y[0] != v) | {(v, x.get('l', 0))}
            name = None
            if x['k'] == 'bin' and x['op'] == '=':
                l = cu.strip_casts(f, f.kid(x, 0))
                name = l['name'] if l is not None and l['k'] == 'ref' else None
            elif x['k'] == 'decl':
                name = x['name']
            elif x['k'] == 'un' and x['op'] in ('++', '--', 'post++', 'post--', '&'):
                l = cu.strip_casts(f, f.kid(x, 0))
                name = l['name'] if l is not None and l['k'] == 'ref' else None
            if name in names:
                facts = frozenset(y for y in facts if y[0] != name)
            if x['k'] == 'ret':
                return None
            return facts

        def obs(x, facts):
            if x['i'] in guards:
                g, v = guards[x['i']]
                ds = [y for y in facts if y[0] == v]
                if ds:
                    found[g['i']] = (g, v, ds[0][1])
        try:
            paths.must_flow(f, set(), step, None, obs)
        except paths.Budget:
            continue
        seen = set()
        for gi, (g, v) in guards.items():
            if g['i'] in seen:
                continue
            seen.add(g['i'])
            n_guard += 1
            bad = found.get(g['i'])
            k = sorted(set(y[0]['i'] for y in guards.values() if y[1] == v)).index(g['i'])
            ctx.ob(rule, '%s:%s#%d:guard-precedes-use' % (f.name, v, k), bad is None, f.loc(g),
                   'the NULL guard on %s is reached without %s having been dereferenced' % (v, v)
                   if bad is None else
                   '%s is tested for NULL here, but on every path to this test it was already '
                   'dereferenced (line %s): when it is NULL the process has crashed before the guard' % (
                       v, bad[2]))
    ctx.count(rule + '_null_guards', n_guard)


def container_fillers(prog, allocs):
    """{(tu, fn): set(param index)}: the function allocates and links the new
    block into the record its i-th parameter points to (it does not return it)"""
    out = {}
    for f in prog.fns():
        if not f.file.startswith('libyara/') and '/' in f.file:
            continue
        pn = [p['name'] for p in f.params]
        fresh = set()
        for n in f.all_nodes():
            r = None
            name = None
            if n['k'] == 'decl' and n.get('c'):
                r, name = cu.strip_casts(f, f.kid(n, 0)), n['name']
            elif n['k'] == 'bin' and n['op'] == '=':
                l = cu.strip_casts(f, f.kid(n, 0))
                r = cu.strip_casts(f, f.kid(n, 1))
                name = l['name'] if l is not None and l['k'] == 'ref' else None
            if r is not None and name and r['k'] == 'call' and r.get('callee') in allocs:
                fresh.add(name)
        if not fresh:
            continue
        for n in f.all_nodes():
            if n['k'] == 'bin' and n['op'] == '=':
                r = cu.strip_casts(f, f.kid(n, 1))
                if r is None or r['k'] != 'ref' or r['name'] not in fresh:
                    continue
                l = cu.strip_casts(f, f.kid(n, 0))
                root = l
                while root is not None and root['k'] in ('member', 'sub'):
                    root = cu.strip_casts(f, f.kid(root, 0))
                if l is not None and l['k'] == 'member' and root is not None and root['k'] == 'ref' and \
                        root['name'] in pn and root['name'] not in fresh:
                    # the block must not also be handed back through an out-parameter / return
                    returned = any(x['k'] == 'ret' and x.get('c') and
                                   f.show(cu.strip_casts(f, f.kid(x, 0))) == r['name'] for x in f.all_nodes())
                    if not returned:
                        out.setdefault((f.tu.name, f.name), set()).add(pn.index(root['name']))
    return out


def container_clearers(prog):
    """functions that empty the container behind their first parameter: a loop that
    frees (directly or through a popping helper) until nothing is left"""
    poppers = set()
    for f in prog.fns():
        if not f.params:
            continue
        p0 = f.params[0]['name']
        frees = [c for c in f.calls() if c.get('callee') in ('yr_free', 'free')]
        if frees and any(x['k'] == 'member' and f.show(cu.strip_casts(f, f.kid(x, 0))) == p0 for x in f.all_nodes()):
            poppers.add(f.name)
    clear = set()
    for f in prog.fns():
        if not f.params:
            continue
        for n in f.all_nodes():
            if n['k'] in ('while', 'for', 'do'):
                if any(x['k'] == 'call' and (x.get('callee') in poppers or x.get('callee') in ('yr_free', 'free'))
                       for x in f.walk(n)):
                    clear.add(f.name)
    return clear


def r16_8(ctx, allocs=None):
    """a local container filled through a helper is emptied on every failing exit"""
    prog = ctx.prog
    if allocs is None:
        cg = CallGraph(prog)
        allocs = alloc_like(prog, cg)
    fillers = container_fillers(prog, allocs)
    clearers = container_clearers(prog)
    n = 0
    for f in prog.fns():
        if not f.file.startswith('libyara/') and not ctx.fixture:
            continue
        locals_rec = set(d['name'] for d in f.all_nodes() if d['k'] == 'decl' and d.get('rec'))
        if not locals_rec:
            continue
        cont = {}
        for c in f.calls():
            g = prog.fn(c.get('callee', ''), f.tu) if c.get('callee') else None
            if g is None or (g.tu.name, g.name) not in fillers:
                continue
            args = f.call_args(c)
            for i in fillers[(g.tu.name, g.name)]:
                if i < len(args):
                    a = cu.strip_casts(f, args[i])
                    if a is not None and a['k'] == 'un' and a['op'] == '&':
                        v = cu.strip_casts(f, f.kid(a, 0))
                        if v is not None and v['k'] == 'ref' and v['name'] in locals_rec:
                            cont.setdefault(v['name'], []).append(c)
        for q, fills in sorted(cont.items()):
            n += 1
            bad = []
            fill_ids = set(c['i'] for c in fills)

            def is_err(x):
                e = cu.strip_casts(f, f.kid(x, 0)) if x.get('c') else None
                if e is None:
                    return False
                v = cu.const_of(e)
                if v is not None:
                    return v != 0
                return e['k'] == 'ref' and e['name'] in ('__error', 'result')

            def step(x, facts, q=q):
                if x['i'] in fill_ids:
                    # the container holds something new only if this call succeeds
                    return frozenset(facts) | {'justcalled'}
                if x['k'] == 'call' and x.get('callee') in clearers:
                    a = f.call_args(x)
                    if a and f.show(cu.strip_casts(f, a[0])) == '&%s' % q:
                        return frozenset()
                if x['k'] == 'ret':
                    if is_err(x) and 'filled' in facts and 'err' in facts:
                        bad.append(x)
                    return None
                return facts

            def edge(b, term, cond, idx, succ, facts):
                # the FAIL_ON_ERROR idiom: only `__error != ERROR_SUCCESS` paths are failing exits
                pol = paths.branch_polarity(f, term, idx)
                if pol is None or cond is None:
                    return facts
                c, p2 = paths.normalise_cond(f, cond, pol)
                if c is not None and c['k'] == 'bin' and c['op'] in ('!=', '==') and \
                        f.show(cu.strip_casts(f, f.kid(c, 0))) in ('__error', 'result') and \
                        cu.const_of(cu.strip_casts(f, f.kid(c, 1))) == 0:
                    failing = (c['op'] == '!=') == p2
                    out = set(x for x in facts if x not in ('err', 'justcalled'))
                    if failing:
                        out.add('err')
                    elif 'justcalled' in facts:
                        out.add('filled')
                    return frozenset(out)
                return facts
            try:
                paths.explore(f, set(), step, edge, max_states=4000)
            except paths.Budget:
                continue
            ctx.ob('R16.8', '%s:%s:emptied-on-failure' % (f.name, q), not bad, f.loc(bad[0]) if bad else f.loc(fills[0]),
                   'every failing exit after %s was filled passes a call that empties it' % q if not bad else
                   '%s returns an error here while the local container `%s` may still hold blocks '
                   'allocated by %s: they are leaked' % (f.name, q, fills[0].get('callee')))
    ctx.count('local_containers', n)


def r16_9(ctx, cg):
    """what a function hands out through an out-parameter (`T** out`) it does not release
    behind the caller's back: a call that frees `*out` is followed, on every path to a
    return, by an assignment to `*out` (NULL or a replacement).  Otherwise the caller is
    left holding a dangling pointer - and the callers of libyara's constructors clean up
    whatever the out-parameter holds when the call fails (use after free, double free)."""
    prog = ctx.prog
    from .C14 import canon
    esc = param_escape_summary(prog, cg)
    n_sites = 0
    for f in prog.fns():
        if not (f.file.startswith('libyara/') or ctx.fixture):
            continue
        outs = [p['name'] for p in f.params if p.get('type', '').replace(' ', '').endswith('**')]
        if not outs:
            continue
        sites = []
        for c in f.calls():
            callee = c.get('callee')
            for j, a in enumerate(f.call_args(c)):
                a = cu.strip_casts(f, a)
                if a is None or a['k'] != 'un' or a['op'] != '*':
                    continue
                b = cu.strip_casts(f, f.kid(a, 0))
                if b is None or b['k'] != 'ref' or b['name'] not in outs:
                    continue
                frees = callee in RELEASERS and RELEASERS[callee] == j
                if not frees:
                    for t in cg.targets(f, c):
                        g = prog.fn(t, f.tu)
                        if g is not None and esc[(g.tu.name, g.name)].get(j) == 'free':
                            frees = True
                if frees:
                    sites.append((c, b['name']))
        for k, (c, P) in enumerate(sorted(sites, key=lambda x: (x[0].get('l', 0), x[0]['i']))):
            n_sites += 1
            nb = f.block_of(c)
            bad = []
            tgt = '*%s' % P

            def step(n, facts, tgt=tgt):
                if n['k'] == 'bin' and n['op'] == '=' and canon(f, f.kid(n, 0)) == tgt:
                    return None
                if n['k'] == 'ret':
                    bad.append(n)
                    return None
                return facts
            try:
                paths.explore(f, set(), step, None, start_block=nb[0], start_index=nb[1] + 1, max_states=512)
            except paths.Budget:
                ctx.note('R16.9 %s: budget exceeded (not decided)' % f.name)
                continue
            ctx.ob('R16.9', '%s:%s(*%s)#%d:out-parameter-reset-after-release' % (f.name, c.get('callee'), P, k),
                   not bad, f.loc(bad[0]) if bad else f.loc(c),
                   '*%s is assigned again on every path after it was released' % P if not bad else
                   '%s releases *%s (at %s) and returns here with *%s still pointing to the freed object: '
                   'the caller, which cleans up what the out-parameter holds, frees it again' % (
                       f.name, P, f.loc(c), P))
    ctx.count('out_parameter_releases', n_sites)


def r16_10(ctx, cg):
    from ..effects import _via_pointer
    """a field whose pointee was released does not keep the stale pointer: after
    `yr_free(obj->field)` (or a callee that frees it) every path to a return assigns the
    field again, or releases / re-assigns the object that holds it.  A function that frees
    the old value of a field first and then fails to produce the new one must not leave the
    field pointing at the freed block - the object's destructor frees it a second time."""
    prog = ctx.prog
    from .C14 import canon
    esc = param_escape_summary(prog, cg)
    n_sites = 0
    for f in prog.fns():
        if not (f.file.startswith('libyara/') or ctx.fixture):
            continue
        sites = []
        for c in f.calls():
            callee = c.get('callee')
            for j, a in enumerate(f.call_args(c)):
                m = cu.strip_casts(f, a)
                if m is None or m['k'] != 'member' or not _via_pointer(f, m):
                    continue
                if '*' not in (m.get('t') or ''):
                    continue
                frees = callee in RELEASERS and RELEASERS[callee] == j
                if not frees and callee:
                    for t in cg.targets(f, c):
                        g = prog.fn(t, f.tu)
                        if g is not None and esc[(g.tu.name, g.name)].get(j) == 'free':
                            frees = True
                if frees:
                    sites.append((c, m))
        for k, (c, m) in enumerate(sorted(sites, key=lambda x: (x[0].get('l', 0), x[0]['i']))):
            M = canon(f, m)
            root = m
            chain = []
            while root is not None and root['k'] in ('member', 'cast', 'sub'):
                root = f.kid(root, 0)
                if root is not None and root['k'] in ('member', 'ref'):
                    chain.append(canon(f, root))
            holders = set(chain)                 # the objects on the access path of the field
            nb = f.block_of(c)
            if nb is None:
                continue
            # only functions that replace the value: the field is assigned somewhere in the
            # function (a two-step teardown that closes a handle and leaves the record to its
            # owner is not this rule's business)
            if not any(x['k'] == 'bin' and x['op'] == '=' and canon(f, f.kid(x, 0)) == M for x in f.all_nodes()):
                continue
            n_sites += 1
            bad = []

            def step(n, facts, M=M, holders=holders, c=c):
                if n['k'] == 'bin' and n['op'] == '=':
                    l = canon(f, f.kid(n, 0))
                    if l == M or l in holders:
                        return None
                if n['k'] == 'call' and n is not c:
                    callee = n.get('callee')
                    for j, a in enumerate(f.call_args(n)):
                        t_ = canon(f, a)
                        if t_ in holders:
                            if callee in RELEASERS and RELEASERS[callee] == j:
                                return None
                            for t in cg.targets(f, n):
                                g = prog.fn(t, f.tu)
                                if g is not None and esc[(g.tu.name, g.name)].get(j) in ('free', 'store'):
                                    return None
                if n['k'] == 'ret':
                    bad.append(n)
                    return None
                return facts
            try:
                paths.explore(f, set(), step, None, start_block=nb[0], start_index=nb[1] + 1, max_states=1024)
            except paths.Budget:
                ctx.note('R16.10 %s: budget exceeded (not decided)' % f.name)
                continue
            ctx.ob('R16.10', '%s:%s#%d:field-not-left-dangling' % (f.name, M, k), not bad,
                   f.loc(bad[0]) if bad else f.loc(c),
                   '%s is assigned again (or its holder released) on every path after its pointee was freed' % M
                   if not bad else
                   '%s frees what %s points to (at %s) and returns here with the field still holding the '
                   'freed pointer: the holder\'s destructor frees it again' % (f.name, M, f.loc(c)))
    ctx.count('field_releases', n_sites)


def _fx(which, **kw):
    def runner(ctx):
        cg, rc, allocs, nullable = _all(ctx)
        if which == 1:
            r16_1(ctx, cg, rc)
        elif which == 2:
            r16_2(ctx, nullable)
        elif which == 3:
            r16_3(ctx)
        elif which == 4:
            r16_4(ctx, cg, rc, allocs)
        elif which == 6:
            r16_6(ctx)
        elif which == 7:
            r16_7(ctx)
        elif which == 8:
            r16_8(ctx)
        elif which == 9:
            r16_9(ctx, cg)
        elif which == 10:
            r16_10(ctx, cg)
        else:
            r16_5(ctx)
    d = {'src': 'C16/errs.c', 'run': runner}
    d.update(kw)
    return d


FIXTURES = {
    'R16.1': _fx(1, expect='drops_error:grow', expect_ok='clean_user:grow'),
    'R16.2': _fx(2, expect='unchecked:p=yr_malloc', expect_ok='checked:p=yr_malloc'),
    'R16.3': _fx(3, expect='realloc_self:b->data=yr_realloc'),
    'R16.4': _fx(4, expect='leaks_on_error:tmp', expect_ok='no_leak:tmp'),
    'R16.5': _fx(5, expect='raw:malloc'),
    'R16.7': _fx(7, expect='guard_after_use:t#0:guard-precedes-use',
                 expect_ok='guard_before_use:t#0:guard-precedes-use'),
    'R16.6': _fx(6, expect='wrap_bad:thing_acquire(t):released-on-failure',
                 expect_ok='wrap_good:thing_acquire(t):released-on-failure'),
    'R16.9': _fx(9, expect='out_dangling:yr_free(*out)#0', expect_ok='out_reset:yr_free(*out)#0'),
    'R16.10': _fx(10, expect='replace_text_bad:h->text#0', expect_ok='replace_text_good:h->text#0'),
}


def run(ctx):
    cg, rc, allocs, nullable = _all(ctx)
    r16_1(ctx, cg, rc)
    r16_2(ctx, nullable)
    r16_3(ctx)
    r16_4(ctx, cg, rc, allocs)
    r16_5(ctx)
    r16_6(ctx)
    ctx.floor('R16.6', 1)
    r16_7(ctx)
    ctx.floor('R16.7', 200)
    r16_8(ctx, allocs)
    ctx.floor('R16.8', 3)
    r16_9(ctx, cg)
    ctx.floor('R16.9', 10)
    r16_10(ctx, cg)
    ctx.floor('R16.10', 15)
    ctx.floor('R16.1', 1200)
    ctx.floor('R16.2', 180)
    ctx.floor('R16.3', 4)
    ctx.floor('R16.4', 120)
    ctx.require(ctx.counts.get('R16.4_ownership_established', 0) >= 100 or ctx.fixture,
                'R16.4: ownership was established for only %d acquisitions' %
                ctx.counts.get('R16.4_ownership_established', 0))
    ctx.floor('R16.5', 40)

"""C07 — compiling arbitrary text never crashes; every failure is diagnosed.

Decides (DESIGN.md §4 C07):
  R7.1 bison value ownership: in every final grammar action (three grammars)
       each right-hand-side value whose symbol has a %destructor is, on every
       path to the end of the action, to YYERROR and to YYABORT, consumed
       exactly once (freed, moved into $$ / a compiler-owned slot, or handed
       to a callee that keeps it) — bison does not run destructors on the
       right-hand side of the rule whose action raises the error; a second
       consumption is a double free, a read after the free a use-after-free;
  R7.2 diagnosed before aborting: every YYERROR/YYABORT in an action is
       preceded on its path by a call of yyerror (directly or through
       fail_with_error / check_type), with compiler->last_error set;
       the public yr_compiler_add_* return the error count;
  R7.3 setjmp scaffolding: every call of a generated parser is dominated by a
       setjmp on the buffer its lexer's fatal-error handler jumps to, and the
       recovery branch returns a failure;
  R7.4 compile-time arithmetic cannot trap (= C12/R12.2, re-run here);
  R7.5 yr_compiler_destroy releases what create and the actions allocate into
       the compiler (fix-up list, file-name stack; shared with C10/R10.4);
  R7.6 every error code that can reach compiler->last_error has a case in
       yr_compiler_get_error_message.
Not decided: termination/memory safety for arbitrary bytes as a whole (flex
and bison tables, recursion depth).
"""
from .. import bison
from .. import cfgutil as cu
from .. import paths
from ..callgraph import CallGraph, return_codes, _expr_values, TOP

USES_PARSERS = True
LEVEL = 'other'
EXPLANATION = (
    'Ownership typestate over every final grammar action of grammar.y, '
    'hex_grammar.y and re_grammar.y: the grammar files are parsed for rule '
    'shapes and %destructor symbols, each action is located in the generated '
    'parser through #line, and every owned $n must be consumed exactly once '
    'on every exit of the action (normal end, YYERROR, YYABORT). Must-pass '
    'rule "yyerror before YYERROR"; dominance of setjmp over parser entry; '
    'exhaustiveness of error messages over return-code summaries.')
ASSUMPTIONS = [
    'bison semantics: YYERROR/YYABORT in an action pop the rule\'s right-hand side without '
    'running %destructor; symbols referenced from a mid-rule action stay on the stack and '
    'are destructed by error recovery',
    'a value stored into any non-local lvalue or passed to a callee whose summary says it '
    'keeps/frees that parameter counts as moved',
]

GRAMMARS = (
    ('libyara/grammar.y', 'libyara/grammar.c', 'yara_yyparse'),
    ('libyara/hex_grammar.y', 'libyara/hex_grammar.c', 'hex_yyparse'),
    ('libyara/re_grammar.y', 'libyara/re_grammar.c', 're_yyparse'),
)
FREE_FUNCS = ('yr_free', 'yr_re_node_destroy', 'yr_re_ast_destroy', 'free')


def _groups_by_line(ctx, f):
    best = None
    for sw in cu.find_switches(f):
        c = cu.switch_cond(f, sw)
        if c is not None and c['k'] == 'ref' and c['name'] == 'yyn':
            g = cu.switch_groups(f, sw)
            if best is None or len(g) > len(best[1]):
                best = (sw, g)
    ctx.require(best is not None, 'action switch not found in %s' % f.name)
    return best


def _slot_index(f, n):
    """yyvsp[k].member...: returns (k, member path text) or None"""
    root, path = cu.member_path(f, cu.strip_casts(f, n))
    if root is None or root['k'] != 'ref' or root['name'] != 'yyvsp' or not path:
        return None
    if not path[0].startswith('[') or path[0] == '[]':
        return None
    return int(path[0][1:-1]), '.'.join(path[1:])


def r7_1(ctx):
    prog = ctx.prog
    from .C16 import param_escape_summary
    cg = CallGraph(prog)
    esc = param_escape_summary(prog, cg)
    from .C04 import _post_switch_block
    total = 0
    for ypath, cpath, fname in GRAMMARS:
        text = prog.text(ypath)
        f = prog.fn(fname, cpath)
        if text is None or f is None:
            ctx.require(ctx.fixture, '%s / %s not available' % (ypath, fname))
            continue
        actions, destruct, typed = bison.parse(text)
        sw, groups = _groups_by_line(ctx, f)
        post = _post_switch_block(f, sw)
        ybase = ypath.split('/')[-1]
        # map groups to actions by the line of their first statement
        for labels, stmts in groups:
            lines = [n.get('l') for n in cu.group_nodes(f, stmts)
                     if n.get('l') and f.nfile(n).endswith(ybase)]
            if not lines:
                continue
            l0 = min(lines)
            act = None
            for a in actions:
                if a.start_line <= l0 <= a.end_line:
                    act = a
            if act is None or not act.final:
                continue
            n = act.nsyms_before
            owned = {}
            for pos, sym in enumerate(act.symbols):
                if sym in destruct:
                    owned[pos + 1 - n] = (pos + 1, sym)       # yyvsp index -> ($k, symbol)
            if not owned:
                continue
            total += 1
            _check_action(ctx, prog, cg, esc, f, labels, post, act, owned, ybase, typed)
    ctx.count('final_actions_with_owned_values', total)


MEMBER_OF_TYPE = {'c_string': 'c_string', 'sized_string': 'sized_string',
                  'modifier': 'modifier.alphabet', 're_node': 're_node', 're_class': 're_class'}


def _check_action(ctx, prog, cg, esc, f, labels, post, act, owned, ybase, typed=None):
    start = cu.label_block(f, labels[0])
    if start is None:
        return
    typed = typed or {}
    owned_member = {}
    nullable = set()
    for k, (pos, sym) in list(owned.items()):
        t = typed.get(sym)
        m = MEMBER_OF_TYPE.get(t)
        if m is None:
            del owned[k]
            continue
        owned_member[k] = m
        if t == 'modifier':
            nullable.add(k)     # alphabet is NULL unless the modifier is base64*
    if not owned:
        return
    problems = {}
    ct = paths.CondTracker(f, extra=['result'])

    def slot_of(n):
        s = _slot_index(f, n)
        if s is None:
            return None
        k, member = s
        if k in owned and member == owned_member[k]:
            return k
        return None

    def consume(facts, k, node, how):
        if ('U', k) in facts:
            return facts
        if ('C', k) in facts:
            problems.setdefault(('double', k), (node, '$%d (%s) is consumed a second time (%s) after it '
                                                'was already freed or moved' % (owned[k][0], owned[k][1], how)))
            return facts
        return frozenset(facts) | {('C', k)}

    def at_exit(facts, node, what):
        for k in owned:
            if k in nullable or ('U', k) in facts:
                continue
            if ('C', k) not in facts and ('NULLK', k) not in facts:
                problems.setdefault(('leak', k, what),
                                    (node, '$%d (%s) is neither freed nor moved when the action %s: '
                                           'bison does not run its %%destructor for the right-hand '
                                           'side of the rule being reduced' % (
                                               owned[k][0], owned[k][1], what)))

    def step(n, facts):
        facts = ct.on_step(n, facts)
        k_ = n['k']
        if k_ == 'call':
            cal = n.get('callee')
            args = f.call_args(n)
            for j, a in enumerate(args):
                k = slot_of(a)
                if k is None:
                    continue
                if cal in FREE_FUNCS:
                    facts = consume(facts, k, n, '%s()' % cal)
                    continue
                if ('C', k) in facts:
                    problems.setdefault(('uaf', k), (n, '$%d (%s) is passed to %s() after it was freed' % (
                        owned[k][0], owned[k][1], cal)))
                    continue
                kinds = set()
                unsure = False
                from .C16 import direct_alias
                for t in cg.targets(f, n):
                    g = prog.fn(t, f.tu)
                    if g is not None:
                        kk = esc[(g.tu.name, g.name)].get(j)
                        if kk == 'free' and j in direct_alias.get((g.tu.name, g.name), ()):
                            unsure = True   # freed only through an alias / under a flag
                        else:
                            kinds.add(kk)
                if 'free' in kinds or 'store' in kinds:
                    facts = consume(facts, k, n, 'ownership taken by %s()' % cal)
                elif unsure:
                    facts = frozenset(facts) | {('U', k)}
            return facts
        if k_ == 'bin' and n['op'] == '=':
            r = f.kid(n, 1)
            l = f.kid(n, 0)
            k = slot_of(r) if r is not None else None
            # whole-value copy  $$ = $1
            if k is None and r is not None:
                rr = cu.strip_casts(f, r)
                root, path = cu.member_path(f, rr) if rr is not None else (None, [])
                if root is not None and root['k'] == 'ref' and root['name'] == 'yyvsp' and \
                        len(path) <= 2 and path and path[0].startswith('[') and path[0] != '[]':
                    kk = int(path[0][1:-1])
                    if kk in owned:
                        k = kk
            if k is not None:
                return consume(facts, k, n, 'moved by assignment')
            # slot overwritten with NULL after being freed: fine
            kl = slot_of(l) if l is not None else None
            if kl is not None and cu.const_of(cu.strip_casts(f, r)) == 0:
                return frozenset(facts) | {('NULLK', kl)}
        if k_ in ('member',):
            k = slot_of(n)
            p = f.parent(n)
            # a read of the freed slot (not as the argument of the free itself)
            if k is not None and ('C', k) in facts:
                is_lhs = p is not None and p['k'] == 'bin' and p['op'] == '=' and f.kid(p, 0) is n
                pc = p
                while pc is not None and pc['k'] == 'cast':
                    pc = f.parent(pc)
                in_free = pc is not None and pc['k'] == 'call' and pc.get('callee') in FREE_FUNCS
                if not is_lhs and not in_free and ('freed', k) in facts:
                    problems.setdefault(('uaf', k), (n, '$%d (%s) is read after it was freed' % (
                        owned[k][0], owned[k][1])))
        if k_ == 'goto' and n.get('name') in ('yyerrorlab', 'yyabortlab'):
            at_exit(facts, n, 'raises %s' % ('YYERROR' if n['name'] == 'yyerrorlab' else 'YYABORT'))
            return None
        if k_ == 'ret':
            return None
        return facts

    def edge(b, term, cond, idx, succ, facts):
        facts = ct.on_edge(term, cond, idx, facts)
        if facts is None:
            return None
        if succ == post:
            last = f.node(f.blocks[b]['e'][-1]) if f.blocks[b]['e'] else labels[0]
            at_exit(facts, last if last is not None else labels[0], 'ends normally')
            return None
        # NULL test of an owned slot: on the NULL edge there is nothing to free
        pol = paths.branch_polarity(f, term, idx)
        if pol is not None and cond is not None:
            c, p2 = paths.normalise_cond(f, cond, pol)
            if c is not None and c['k'] == 'bin' and c['op'] in ('==', '!='):
                for x, y in ((f.kid(c, 0), f.kid(c, 1)), (f.kid(c, 1), f.kid(c, 0))):
                    k = slot_of(x) if x is not None else None
                    if k is not None and cu.const_of(cu.strip_casts(f, y)) == 0:
                        if (c['op'] == '==') == p2:
                            return frozenset(facts) | {('NULLK', k)}
        return facts
    try:
        paths.explore(f, set(), step, edge, start_block=start, max_states=1024)
    except paths.Budget:
        ctx.note('R7.1 %s@%d: state budget exceeded (not decided)' % (act.lhs, act.start_line))
        return
    where0 = '%s:%d' % ('libyara/' + ybase, act.start_line)
    key0 = '%s:%s#%d' % (ybase.replace('.y', ''), act.lhs, act.alt_index)
    if not problems:
        ctx.ob('R7.1', '%s:owned-values-consumed-once' % key0, True, where0,
               '%s of %s: %s consumed exactly once on every exit' % (
                   'action', act.lhs, ', '.join('$%d' % owned[k][0] for k in sorted(owned))))
        return
    for pk, (node, msg) in sorted(problems.items(), key=str):
        ctx.ob('R7.1', '%s:%s:$%d%s' % (key0, pk[0], owned[pk[1]][0],
                                        (':' + pk[2].split()[1]) if len(pk) > 2 else ''),
               False, f.loc(node), msg)


def r7_2(ctx):
    prog = ctx.prog
    for ypath, cpath, fname in GRAMMARS[:1]:
        f = prog.fn(fname, cpath)
        if f is None:
            ctx.require(ctx.fixture, 'parser %s not found' % fname)
            continue
        sw, groups = _groups_by_line(ctx, f)
        from .C04 import _post_switch_block
        post = _post_switch_block(f, sw)
        n_err = 0
        text = prog.text(ypath)
        actions, destruct, typed = bison.parse(text) if text else ([], set(), {})
        ybase = ypath.split('/')[-1]
        for labels, stmts in groups:
            gotos = [n for n in cu.group_nodes(f, stmts) if n['k'] == 'goto' and
                     n.get('name') in ('yyerrorlab', 'yyabortlab')]
            if not gotos:
                continue
            lines = [n.get('l') for n in cu.group_nodes(f, stmts)
                     if n.get('l') and f.nfile(n).endswith(ybase)]
            act = None
            for a in actions:
                if lines and a.start_line <= min(lines) <= a.end_line:
                    act = a
            if act is not None and 'error' in act.symbols:
                # error-recovery production: bison already called yyerror when
                # it detected the syntax error that selected this rule
                continue
            start = cu.label_block(f, labels[0])
            bad = []

            def step(n, facts):
                if n['k'] == 'call' and n.get('callee', '').endswith('yyerror'):
                    return facts | {'diag'}
                if n['k'] == 'bin' and n['op'] == '=':
                    l = cu.strip_casts(f, f.kid(n, 0))
                    if l is not None and l['k'] == 'member' and l['fld'] == 'last_error':
                        return facts | {'code'}
                if n['k'] == 'goto' and n.get('name') in ('yyerrorlab', 'yyabortlab'):
                    if 'diag' not in facts or 'code' not in facts:
                        bad.append(n)
                    return None
                if n['k'] == 'ret':
                    return None
                return facts

            def edge(b, term, cond, idx, succ, facts):
                if succ == post:
                    return None
                return facts
            paths.explore(f, set(), step, edge, start_block=start, max_states=64)
            n_err += len(gotos)
            line = min(g.get('l', 0) for g in gotos)
            akey = '%s#%d.%d' % (act.lhs, act.alt_index, act.pos) if act is not None else '@%s' % line
            ctx.ob('R7.2', 'grammar:%s:diagnosed-before-abort' % akey, not bad,
                   f.loc(bad[0]) if bad else f.loc(gotos[0]),
                   'every YYERROR/YYABORT of this action follows yyerror() with last_error set'
                   if not bad else
                   'a YYERROR/YYABORT is reached without yyerror() having been called (or '
                   'without compiler->last_error set): the compilation fails with no message '
                   'and no increment of the error count')
        ctx.count('yyerror_exits', n_err)
    # public add_* return the error count
    for api in ('yr_compiler_add_file', 'yr_compiler_add_fd', 'yr_compiler_add_bytes',
                'yr_compiler_add_string'):
        g = prog.fn(api)
        if g is None:
            continue
        rets = [n for n in g.all_nodes() if n['k'] == 'ret' and n.get('c')]
        lex_results = set()
        for n in g.all_nodes():
            if n['k'] == 'bin' and n['op'] == '=':
                r = cu.strip_casts(g, g.kid(n, 1))
                l = g.kid(n, 0)
                if r is not None and r['k'] == 'call' and r.get('callee', '').startswith('yr_lex_parse') \
                        and l is not None and l['k'] == 'ref':
                    lex_results.add(l['name'])
        ok = all('errors' in g.show(g.kid(n, 0)) or g.show(g.kid(n, 0)) in lex_results or
                 (g.kid(n, 0)['k'] == 'call' and g.kid(n, 0).get('callee', '').startswith('yr_lex_parse'))
                 for n in rets)
        ctx.ob('R7.2', '%s:returns-error-count' % api, ok and bool(rets), '%s:%s' % (g.file, g.line),
               'returns compiler->errors (or the parser entry\'s count) on every path' if ok else
               'a return of %s does not report the error count' % api)


SETJMP = ('setjmp', '_setjmp', '__sigsetjmp', 'sigsetjmp')
PARSERS = ('yara_yyparse', 'hex_yyparse', 're_yyparse')


def _local_writes(f, name):
    """nodes that (may) write local `name`: assignments, initialised
    declarations, ++/--, and calls that receive its address"""
    out = []
    for n in f.all_nodes():
        if n['k'] == 'decl' and n.get('name') == name and n.get('c'):
            out.append(n)
        elif n['k'] == 'bin' and n['op'].endswith('=') and n['op'] not in ('==', '!=', '<=', '>='):
            l = cu.strip_casts(f, f.kid(n, 0))
            if l is not None and l['k'] == 'ref' and l['name'] == name:
                out.append(n)
        elif n['k'] == 'un' and n['op'] in ('++', '--', 'post++', 'post--'):
            l = cu.strip_casts(f, f.kid(n, 0))
            if l is not None and l['k'] == 'ref' and l['name'] == name:
                out.append(n)
        elif n['k'] == 'un' and n['op'] == '&':
            l = cu.strip_casts(f, f.kid(n, 0))
            if l is not None and l['k'] == 'ref' and l['name'] == name:
                p = f.parent(n)
                while p is not None and p['k'] == 'cast':
                    p = f.parent(p)
                if p is not None and p['k'] == 'call':
                    out.append(p)
    return out


def r7_3(ctx):
    prog = ctx.prog
    n = 0
    for f in prog.fns():
        if not f.file.startswith('libyara/') and not ctx.fixture:
            continue
        pcalls = [c for c in f.calls() if c.get('callee', '') in PARSERS]
        if not pcalls:
            continue
        dom = cu.dominators(f)
        for c in pcalls:
            cal = c['callee']
            n += 1
            cb = f.block_of(c)
            # a setjmp whose block dominates the parser call, tested by an if
            found = None
            for s in f.calls():
                if s.get('callee') not in SETJMP:
                    continue
                sb = f.block_of(s)
                if sb is None or cb is None or sb[0] not in dom.get(cb[0], ()):
                    continue
                iff = f.parent(s)
                while iff is not None and iff['k'] != 'if':
                    iff = f.parent(iff)
                if iff is None or not f.is_ancestor(f.kid(iff, 0), s):
                    continue
                found = (s, sb, iff)
            key = '%s:%s' % (f.name, cal)
            if found is None:
                ctx.ob('R7.3', key + ':setjmp-dominates', False, f.loc(c),
                       '%s calls %s with no setjmp recovery point dominating the call: a fatal '
                       'lexer error longjmps to a stale or missing buffer' % (f.name, cal))
                continue
            s, sb, iff = found
            cond = f.kid(iff, 0)
            # which arm is the recovery arm:  setjmp(..) != 0  -> then-arm
            pol_then = True
            cc = cu.strip_casts(f, cond)
            if cc is not None and cc['k'] == 'bin' and cc['op'] == '==' and \
                    cu.const_of(cu.strip_casts(f, f.kid(cc, 1))) == 0:
                pol_then = False
            if cc is not None and cc['k'] == 'un' and cc['op'] == '!':
                pol_then = False
            ks = f.kids(iff)
            arm = ks[1] if pol_then else (ks[2] if len(ks) > 2 else None)
            fails = False
            if arm is not None:
                for r in f.walk(arm):
                    if r['k'] == 'ret' and r.get('c'):
                        v = cu.const_of(cu.strip_casts(f, f.kid(r, 0)))
                        txt = f.show(f.kid(r, 0))
                        if (v is not None and v != 0) or 'errors' in txt:
                            fails = True
            ok = arm is not None and fails and not f.is_ancestor(arm, c)
            ctx.ob('R7.3', key + ':setjmp-dominates', ok, f.loc(c),
                   'the parser runs under a dominating setjmp whose recovery branch returns a failure'
                   if ok else
                   'the setjmp recovery branch of %s does not return a failure' % f.name)
            # R7.3d: the buffer armed here is the one the lexer's fatal-error
            # handler jumps to
            fatal = None
            for g in f.tu.fn_list:
                if g.name.endswith('yyfatal'):
                    fatal = g
            if fatal is not None:
                lj = [x for x in fatal.calls() if x.get('callee') in ('longjmp', '_longjmp', 'siglongjmp')]
                sj_arg = cu.strip_casts(f, f.call_args(s)[0])
                agree = False
                how = ''
                if lj:
                    la = cu.strip_casts(fatal, fatal.call_args(lj[0])[0])
                    while la is not None and la['k'] == 'un' and la['op'] == '*':
                        la = cu.strip_casts(fatal, fatal.kid(la, 0))
                    if la is not None and la['k'] == 'member':
                        agree = sj_arg is not None and sj_arg['k'] == 'member' and \
                            sj_arg['fld'] == la['fld'] and sj_arg.get('rec') == la.get('rec')
                        how = '%s.%s' % (la.get('rec'), la['fld'])
                    elif la is not None and la['k'] == 'ref':
                        # local loaded from thread storage: same TLS key must be
                        # set to &<setjmp buffer> before the setjmp
                        keys = set()
                        for x in fatal.calls():
                            if x.get('callee') == 'yr_thread_storage_get_value':
                                keys.add(fatal.show(fatal.call_args(x)[0]))
                        for x in f.calls():
                            if x.get('callee') == 'yr_thread_storage_set_value':
                                a = f.call_args(x)
                                xb = f.block_of(x)
                                if f.show(a[0]) in keys and sj_arg is not None and \
                                        f.show(a[1]).lstrip('&') == f.show(sj_arg) and xb is not None and \
                                        ((xb[0] != sb[0] and xb[0] in dom.get(sb[0], ())) or
                                         (xb[0] == sb[0] and xb[1] < sb[1])):
                                    agree = True
                        how = 'thread storage %s' % ', '.join(sorted(keys))
                ctx.ob('R7.3', key + ':recovery-buffer-agrees', agree, f.loc(s),
                       'setjmp arms the buffer %s() jumps to (%s)' % (fatal.name, how) if agree else
                       'the buffer armed by setjmp in %s is not the one %s() longjmps to (%s): a '
                       'fatal lexer error jumps to a stale or foreign frame' % (f.name, fatal.name, how))
            if arm is None:
                continue
            # R7.3b: what the normal path releases after the parse, the
            # recovery branch releases too
            arm_rel = set()
            for x in f.walk(arm):
                if x['k'] == 'call' and (_is_releaser(x.get('callee', '')) or
                                         x.get('callee', '').endswith('yylex_destroy')):
                    arm_rel.add((x['callee'], tuple(f.show(a) for a in f.call_args(x))))
            after = []
            for b in f.reachable_blocks(cb[0]):
                for e in f.blocks[b]['e']:
                    x = f.node(e)
                    if x is None or x['k'] != 'call':
                        continue
                    if b == cb[0] and f.node_block().get(e, (b, 0))[1] <= cb[1]:
                        continue
                    if f.is_ancestor(arm, x):
                        continue
                    cl = x.get('callee', '')
                    if _is_releaser(cl) or cl.endswith('yylex_destroy'):
                        args = f.call_args(x)
                        if all(cu.strip_casts(f, a) is not None and
                               cu.strip_casts(f, a)['k'] == 'ref' for a in args):
                            after.append(x)
            for x in after:
                sig = (x['callee'], tuple(f.show(a) for a in f.call_args(x)))
                ok = sig in arm_rel
                ctx.ob('R7.3', '%s:recovery-releases:%s(%s)' % (key, sig[0], ','.join(sig[1])), ok,
                       f.loc(x) if ok else f.loc(arm),
                       'released after the parse and in the recovery branch alike' if ok else
                       '%s(%s) runs after a normal parse but not in the setjmp recovery branch: '
                       'leaked whenever the lexer reports a fatal error' % (sig[0], ', '.join(sig[1])))
            # R7.3c: locals the recovery branch reads are not written between
            # setjmp and longjmp (C11 7.13.2.1: otherwise indeterminate)
            locs = set(x['name'] for x in f.all_nodes() if x['k'] == 'decl')
            used = set()
            for x in f.walk(arm):
                if x['k'] == 'ref' and x['name'] in locs:
                    used.add(x['name'])
            for name in sorted(used):
                late = []
                for w in _local_writes(f, name):
                    wb = f.block_of(w)
                    if wb is None:
                        continue
                    before = (wb[0] != sb[0] and wb[0] in dom.get(sb[0], ())) or \
                             (wb[0] == sb[0] and wb[1] < sb[1])
                    if not before:
                        late.append(w)
                ctx.ob('R7.3', '%s:recovery-reads-settled:%s' % (key, name), not late,
                       f.loc(late[0]) if late else f.loc(arm),
                       'local %s read by the recovery branch is fully set before setjmp' % name
                       if not late else
                       'local %s is written after setjmp (here) and read in the recovery branch: '
                       'its value is indeterminate after longjmp' % name)
    ctx.count('parser_entries', n)


def r7_6(ctx):
    prog = ctx.prog
    cg = CallGraph(prog)
    rc = return_codes(prog, cg)
    E = {}
    for f in prog.fns():
        if not f.file.startswith('libyara/') and not ctx.fixture:
            continue
        stores = [n for n in f.all_nodes() if n['k'] == 'bin' and n['op'] == '=' and
                  cu.strip_casts(f, f.kid(n, 0)) is not None and
                  cu.strip_casts(f, f.kid(n, 0))['k'] == 'member' and
                  cu.strip_casts(f, f.kid(n, 0))['fld'] == 'last_error' and
                  cu.strip_casts(f, f.kid(n, 0)).get('rec') in ('YR_COMPILER', '_YR_COMPILER')]
        if not stores:
            continue
        # per grammar action: only the assignments of that action define `result`
        scopes = []
        if f.name.endswith('yyparse'):
            sw, groups = _groups_by_line(ctx, f)
            for labels, stmts in groups:
                scopes.append(list(cu.group_nodes(f, stmts)))
        else:
            scopes.append(list(f.all_nodes()))
        for nodes in scopes:
            ids = set(n['i'] for n in nodes)
            sts = [s for s in stores if s['i'] in ids]
            if not sts:
                continue
            a = {}
            for n in nodes:
                if n['k'] == 'decl' and n.get('c'):
                    a.setdefault(n['name'], []).append(f.kid(n, 0))
                elif n['k'] == 'bin' and n['op'] == '=':
                    l = f.kid(n, 0)
                    if l is not None and l['k'] == 'ref':
                        a.setdefault(l['name'], []).append(f.kid(n, 1))
            memo = {}

            def varvals(name, depth, a=a, memo=memo):
                if name in memo:
                    return memo[name]
                memo[name] = set()
                out = set()
                for rhs in a.get(name, []):
                    out |= _expr_values(prog, cg, f, rhs, rc, varvals, depth)
                if not a.get(name):
                    out.add(TOP)
                memo[name] = out
                return out
            for s in sts:
                for v in _expr_values(prog, cg, f, f.kid(s, 1), rc, varvals):
                    if v.startswith('ERROR_') and v != 'ERROR_SUCCESS':
                        E.setdefault(v, (f, s))
    g = ctx.fn('yr_compiler_get_error_message', 'libyara/compiler.c')
    M = set()
    for sw in cu.find_switches(g):
        for labels, stmts in cu.switch_groups(g, sw):
            for l in labels:
                if l['k'] == 'case' and l.get('mn'):
                    M.add(l['mn'])
    ctx.require(len(E) >= 25 or ctx.fixture, 'only %d error codes reach last_error' % len(E))
    ctx.require(len(M) >= 25 or ctx.fixture, 'only %d message cases found' % len(M))
    for e in sorted(E):
        f, s = E[e]
        ctx.ob('R7.6', '%s:has-message' % e, e in M, f.loc(s),
               '%s can reach compiler->last_error and has a message' % e if e in M else
               '%s can reach compiler->last_error (e.g. at %s) but yr_compiler_get_error_message '
               'has no case for it: the error callback receives an empty message' % (e, f.loc(s)))


R75_NOT_OWNED = {
    'rules': 'handed to the caller by yr_compiler_get_rules; docs/capi.rst makes the caller '
             'destroy it with yr_rules_destroy',
}
RELEASERS = ('yr_free', 'free')


def _is_releaser(name):
    return name in RELEASERS or name.endswith('_destroy') or name.endswith('_release')


def compiler_owned_fields(prog, cg, fixture=False):
    """fields of YR_COMPILER that receive an owning pointer anywhere in libyara"""
    from ..callgraph import alloc_like
    al = alloc_like(prog, cg)
    own = {}
    for f in prog.fns():
        if not f.file.startswith('libyara/') and not fixture:
            continue
        fresh = set()       # locals assigned from an allocator in this function
        for n in f.all_nodes():
            r = None
            if n['k'] == 'decl' and n.get('c'):
                r = cu.strip_casts(f, f.kid(n, 0))
                name = n['name']
            elif n['k'] == 'bin' and n['op'] == '=':
                l = cu.strip_casts(f, f.kid(n, 0))
                r = cu.strip_casts(f, f.kid(n, 1))
                name = l['name'] if l is not None and l['k'] == 'ref' else None
            if r is not None and r['k'] == 'call' and r.get('callee') in al and name:
                fresh.add(name)
        for n in f.all_nodes():
            if n['k'] == 'bin' and n['op'] == '=':
                l = cu.strip_casts(f, f.kid(n, 0))
                r = cu.strip_casts(f, f.kid(n, 1))
                root = l
                while root is not None and root['k'] == 'sub':
                    root = cu.strip_casts(f, f.kid(root, 0))
                if root is None or root['k'] != 'member' or \
                        root.get('rec') not in ('YR_COMPILER', '_YR_COMPILER') or r is None:
                    continue
                if (r['k'] == 'call' and r.get('callee') in al) or \
                        (r['k'] == 'ref' and r['name'] in fresh):
                    own.setdefault(root['fld'], (f, n))
            if n['k'] == 'call' and n.get('callee', '').endswith('_create'):
                for a in f.call_args(n):
                    a = cu.strip_casts(f, a)
                    if a is not None and a['k'] == 'un' and a['op'] == '&':
                        m = cu.strip_casts(f, f.kid(a, 0))
                        if m is not None and m['k'] == 'member' and \
                                m.get('rec') in ('YR_COMPILER', '_YR_COMPILER'):
                            own.setdefault(m['fld'], (f, n))
    return own


def r7_5(ctx):
    prog = ctx.prog
    cg = CallGraph(prog)
    d = ctx.fn('yr_compiler_destroy', 'libyara/compiler.c')
    own = compiler_owned_fields(prog, cg, ctx.fixture)
    ctx.require(len(own) >= 8 or ctx.fixture, 'only %d owning fields of YR_COMPILER found' % len(own))
    # fields whose value reaches a releasing call in destroy, directly or
    # through a local initialised/assigned from the field
    via = {}
    for n in d.all_nodes():
        src = None
        if n['k'] == 'decl' and n.get('c'):
            src, name = d.kid(n, 0), n['name']
        elif n['k'] == 'bin' and n['op'] == '=':
            l = cu.strip_casts(d, d.kid(n, 0))
            if l is not None and l['k'] == 'ref':
                src, name = d.kid(n, 1), l['name']
        if src is not None:
            for x in d.walk(src):
                if x['k'] == 'member' and x.get('rec') in ('YR_COMPILER', '_YR_COMPILER'):
                    via.setdefault(name, set()).add(x['fld'])
    released = set()
    for c in d.calls():
        if not _is_releaser(c.get('callee', '')):
            continue
        for a in d.call_args(c):
            for x in d.walk(a):
                if x['k'] == 'member' and x.get('rec') in ('YR_COMPILER', '_YR_COMPILER'):
                    released.add(x['fld'])
                if x['k'] == 'ref' and x['name'] in via:
                    released |= via[x['name']]
    for fld, (f, n) in sorted(own.items()):
        if fld in R75_NOT_OWNED:
            ctx.ob('R7.5', 'YR_COMPILER.%s:not-owned' % fld, True, f.loc(n),
                   'exception: ' + R75_NOT_OWNED[fld])
            continue
        ok = fld in released
        ctx.ob('R7.5', 'YR_COMPILER.%s:released-by-destroy' % fld, ok,
               '%s:%s' % (d.file, d.line),
               'compiler->%s (set at %s) reaches a releasing call in yr_compiler_destroy' % (
                   fld, f.loc(n)) if ok else
               'compiler->%s receives an owning pointer at %s but yr_compiler_destroy never '
               'passes it to a free/destroy/release call: leaked with every compiler' % (
                   fld, f.loc(n)))


STR_DST_WRITERS = ('strlcpy', 'strcpy', 'strncpy', 'snprintf', 'memset', 'vsnprintf', 'sprintf')


def _msg_fields(prog):
    out = {}
    for rn, r in prog.records.items():
        for fl in r.get('fields', []):
            if fl.get('type', '').startswith('char[') and 'message' in fl['name']:
                out.setdefault(r['name'], set()).add(fl['name'])
                out.setdefault(rn, set()).add(fl['name'])
    return out


def _is_msg_write(f, n, base_pred, flds):
    """n stores into <base>.<msg field>: `b.f[0] = ..` or a string writer whose
    destination is b.f; base_pred(node) recognises the base expression"""
    def msg_member(x):
        x = cu.strip_casts(f, x)
        if x is not None and x['k'] == 'member' and x['fld'] in flds:
            return base_pred(cu.strip_casts(f, f.kid(x, 0)))
        return False
    if n['k'] == 'bin' and n['op'] == '=':
        l = cu.strip_casts(f, f.kid(n, 0))
        if l is not None and l['k'] == 'sub' and msg_member(f.kid(l, 0)):
            return True
    if n['k'] == 'call' and n.get('callee') in STR_DST_WRITERS:
        a = f.call_args(n)
        if a and msg_member(a[0]):
            return True
    return False


class _Unwritten(object):
    """W(g, i): the return codes g can produce on a path on which the message
    buffer behind its i-th parameter was not written."""

    def __init__(self, prog, cg, rc, flds):
        self.prog, self.cg, self.rc, self.flds = prog, cg, rc, flds
        self.memo = {}

    def of(self, g, i):
        key = (g.tu.name, g.name, i)
        if key in self.memo:
            return self.memo[key]
        self.memo[key] = set()          # recursion: optimistic, no recursive forwarders here
        pname = g.params[i]['name'] if i < len(g.params) else None
        out = set()
        if pname is None:
            self.memo[key] = set([TOP])
            return self.memo[key]
        f = g

        def is_p(x):
            return x is not None and x['k'] == 'ref' and x['name'] == pname

        def forwards(call):
            for j, a in enumerate(f.call_args(call)):
                if is_p(cu.strip_casts(f, a)):
                    return j
            return None

        def src_of(e, facts):
            e = cu.strip_casts(f, e)
            if e is None:
                return ('V', frozenset([TOP]))
            if e['k'] == 'call':
                j = forwards(e)
                if j is not None:
                    w = set()
                    for t in self.cg.targets(f, e):
                        h = self.prog.fn(t, f.tu)
                        w |= self.of(h, j) if h is not None else set([TOP])
                    return ('V', frozenset(w))
            if e['k'] == 'ref':
                for x in facts:
                    if isinstance(x, tuple) and x[0] == 'src' and x[1] == e['name']:
                        return ('V', x[2])
            vals = _expr_values(self.prog, self.cg, f, e, self.rc, lambda nm, d: set([TOP]))
            return ('V', frozenset(vals))

        def step(n, facts):
            if 'w' in facts:
                return None if n['k'] == 'ret' else facts
            if _is_msg_write(f, n, is_p, self.flds):
                return frozenset(['w'])
            if n['k'] == 'decl' and n.get('c'):
                v = src_of(f.kid(n, 0), facts)
                return frozenset(x for x in facts if not (isinstance(x, tuple) and x[1] == n['name'])) | \
                    {('src', n['name'], v[1])}
            if n['k'] == 'bin' and n['op'] == '=':
                l = cu.strip_casts(f, f.kid(n, 0))
                if l is not None and l['k'] == 'ref':
                    v = src_of(f.kid(n, 1), facts)
                    return frozenset(x for x in facts if not (isinstance(x, tuple) and x[1] == l['name'])) | \
                        {('src', l['name'], v[1])}
            if n['k'] == 'ret':
                if n.get('c'):
                    out.update(src_of(f.kid(n, 0), facts)[1])
                return None
            return facts
        try:
            paths.explore(f, set(), step, None, max_states=4000)
        except paths.Budget:
            out.add(TOP)
        self.memo[key] = out
        return out


def r7_7(ctx):
    """error-message buffers living in locals are initialised before they are read"""
    prog = ctx.prog
    msg_fields = _msg_fields(prog)
    ctx.require(len(msg_fields) >= 3 or ctx.fixture, 'no record with an error-message buffer found')
    cg = CallGraph(prog)
    rc = return_codes(prog, cg)
    n = 0
    for f in prog.fns():
        if not f.file.startswith('libyara/') and not ctx.fixture:
            continue
        locs = [d for d in f.all_nodes() if d['k'] == 'decl' and not d.get('c') and
                (d.get('rec') in msg_fields or d.get('t') in msg_fields)]
        for d in locs:
            flds = msg_fields.get(d.get('rec')) or msg_fields.get(d.get('t'))
            unw = _Unwritten(prog, cg, rc, flds)

            def is_l(x, d=d):
                return x is not None and x['k'] == 'ref' and x['name'] == d['name']
            reads = []
            for m in f.all_nodes():
                if m['k'] != 'member' or m['fld'] not in flds or not is_l(cu.strip_casts(f, f.kid(m, 0))):
                    continue
                p = f.parent(m)
                while p is not None and p['k'] in ('cast', 'sub'):
                    p = f.parent(p)
                if p is not None and p['k'] == 'sizeof':
                    continue
                if p is not None and _is_msg_write(f, p, is_l, flds):
                    dst = f.call_args(p)[0] if p['k'] == 'call' else f.kid(p, 0)
                    if dst is m or cu.strip_casts(f, dst) is m or f.is_ancestor(dst, m):
                        continue
                reads.append(m['i'])
            if not reads:
                continue
            n += 1
            bad = []

            def step(nd, facts, d=d):
                if 'w' in facts:
                    return facts
                if _is_msg_write(f, nd, is_l, flds):
                    return frozenset(['w'])
                if nd['k'] == 'call':
                    # &local handed to a callee: afterwards the buffer is
                    # written unless the callee returned one of W(callee)
                    for j, a in enumerate(f.call_args(nd)):
                        a = cu.strip_casts(f, a)
                        if a is not None and a['k'] == 'un' and a['op'] == '&' and \
                                is_l(cu.strip_casts(f, f.kid(a, 0))):
                            w = set()
                            for t in cg.targets(f, nd):
                                h = prog.fn(t, f.tu)
                                w |= unw.of(h, j) if h is not None else set([TOP])
                            p = f.parent(nd)
                            while p is not None and p['k'] == 'cast':
                                p = f.parent(p)
                            var = None
                            if p is not None and p['k'] == 'bin' and p['op'] == '=':
                                l = cu.strip_casts(f, f.kid(p, 0))
                                var = l['name'] if l is not None and l['k'] == 'ref' else None
                            elif p is not None and p['k'] == 'decl':
                                var = p['name']
                            return frozenset([('may', var, frozenset(w))])
                if nd['k'] == 'member' and nd['i'] in reads:
                    may = [x for x in facts if isinstance(x, tuple) and x[0] == 'may']
                    if not may:
                        bad.append((nd, 'no store to it precedes the read'))
                    else:
                        left = set(may[0][2]) - set(['ERROR_SUCCESS', 'const:0'])
                        if left:
                            bad.append((nd, 'the callee that fills it leaves it untouched when it returns '
                                        + ', '.join(sorted(left)[:4])))
                return facts

            def edge(b, term, cond, idx, succ, facts):
                may = [x for x in facts if isinstance(x, tuple) and x[0] == 'may']
                pol = paths.branch_polarity(f, term, idx)
                if not may or pol is None or cond is None or may[0][1] is None:
                    return facts
                c, p2 = paths.normalise_cond(f, cond, pol)
                if c is None or c['k'] != 'bin' or c['op'] not in ('==', '!='):
                    return facts
                a, b2 = cu.strip_casts(f, f.kid(c, 0)), cu.strip_casts(f, f.kid(c, 1))
                if a is None or a['k'] != 'ref' or a['name'] != may[0][1] or b2 is None:
                    return facts
                mn = b2.get('mn') if cu.const_of(b2) is not None else None
                if not mn:
                    return facts
                eq = (c['op'] == '==') == p2
                cur = set(may[0][2])
                if eq:
                    new = (cur & set([mn])) | (set([mn]) if TOP in cur else set())
                else:
                    new = cur - set([mn])
                return frozenset([('may', may[0][1], frozenset(new))])
            try:
                paths.explore(f, set(), step, edge, max_states=20000)
            except paths.Budget:
                ctx.note('R7.7 %s.%s: state budget exceeded (not decided)' % (f.name, d['name']))
                continue
            ctx.ob('R7.7', '%s:%s:message-initialised' % (f.name, d['name']), not bad,
                   f.loc(bad[0][0]) if bad else f.loc(d),
                   'every read of %s.%s follows a store that initialises it (or a callee that '
                   'fills it for the return codes under which it is read)' % (
                       d['name'], '/'.join(sorted(flds))) if not bad else
                   '%s.%s is read here although %s: an error raised without a message (e.g. out '
                   'of memory) reports uninitialised stack bytes' % (
                       d['name'], '/'.join(sorted(flds)), bad[0][1]))
    ctx.count('message_buffers', n)


INT_BITS = {'char': 8, 'unsigned char': 8, 'signed char': 8, 'uint8_t': 8, 'int8_t': 8, 'BYTE': 8,
            'short': 16, 'unsigned short': 16, 'uint16_t': 16, 'int16_t': 16, 'WORD': 16}
UNSIGNED = ('unsigned char', 'uint8_t', 'BYTE', 'unsigned short', 'uint16_t', 'WORD')
COMPILE_TUS = ('libyara/lexer.c', 'libyara/hex_lexer.c', 'libyara/re_lexer.c', 'libyara/grammar.c',
               'libyara/hex_grammar.c', 'libyara/re_grammar.c', 'libyara/parser.c', 'libyara/compiler.c',
               'libyara/re.c', 'libyara/atoms.c', 'libyara/ahocorasick.c', 'libyara/base64.c',
               'libyara/sizedstr.c', 'libyara/strutils.c')


def _tname(t):
    return (t or '').replace('const ', '').replace('volatile ', '').strip()


def _tmax(t):
    t = _tname(t)
    b = INT_BITS.get(t)
    if b is None:
        return None
    return (1 << b) - 1 if t in UNSIGNED else (1 << (b - 1)) - 1


def upper_bound(f, e, depth=0):
    """a sound upper bound of an integer expression, or None (unknown / wide)"""
    e0 = e
    if e is None or depth > 8:
        return None
    cap = None
    while e is not None and e['k'] == 'cast':
        m = _tmax(e.get('t'))
        if m is not None:
            cap = m if cap is None else min(cap, m)
        e = f.kid(e, 0)
    if e is None:
        return cap
    v = cu.const_of(e)
    ub = None
    if v is not None:
        ub = v
    elif e['k'] == 'bin' and e['op'] in ('|', '&', '^'):
        a, b = upper_bound(f, f.kid(e, 0), depth + 1), upper_bound(f, f.kid(e, 1), depth + 1)
        if e['op'] == '&':
            c = [x for x in (a, b) if x is not None]
            ub = min(c) if c else None
        elif a is not None and b is not None:
            ub = (1 << max(a, b).bit_length()) - 1
    elif e['k'] == 'ref':
        d = cu.decl_of(f, e) if e.get('dk') in ('local', None) else None
        tm = _tmax(d.get('t')) if d is not None else None
        if d is not None:
            vals = []
            ok = True
            for n in f.all_nodes():
                r = None
                if n is d and n.get('c'):
                    r = f.kid(n, 0)
                elif n['k'] == 'bin' and n['op'] == '=':
                    l = cu.strip_casts(f, f.kid(n, 0))
                    if l is not None and l['k'] == 'ref' and l['name'] == e['name'] and cu.decl_of(f, l) is d:
                        r = f.kid(n, 1)
                elif n['k'] in ('bin', 'un') and n.get('op') in ('+=', '-=', '*=', '++', 'post++', '<<=', '|=') :
                    l = cu.strip_casts(f, f.kid(n, 0))
                    if l is not None and l['k'] == 'ref' and l['name'] == e['name'] and cu.decl_of(f, l) is d:
                        ok = False
                elif n['k'] == 'un' and n['op'] == '&':
                    l = cu.strip_casts(f, f.kid(n, 0))
                    if l is not None and l['k'] == 'ref' and l['name'] == e['name'] and cu.decl_of(f, l) is d:
                        ok = False      # written through a pointer
                if r is not None:
                    u = upper_bound(f, r, depth + 1)
                    if u is None:
                        ok = False
                    else:
                        vals.append(u)
            if ok and vals:
                ub = max(vals)
        if ub is None:
            ub = tm
        elif tm is not None:
            ub = min(ub, tm)
    else:
        ub = _tmax(e.get('t'))
    if cap is not None:
        ub = cap if ub is None else min(ub, cap)
    return ub


def r7_8(ctx):
    """counting loops over narrow counters terminate: `i <= bound` with a counter that
    cannot exceed the bound never becomes false"""
    prog = ctx.prog
    n_loops = 0
    for f in prog.fns():
        if f.tu.name.replace('.committed', '') not in COMPILE_TUS and not ctx.fixture:
            continue
        k = 0
        for n in f.all_nodes():
            if n['k'] not in ('for', 'while'):
                continue
            c = f.kid(n, 1) if n['k'] == 'for' else f.kid(n, 0)
            if c is None:
                continue
            for x in f.walk(c):
                if x['k'] != 'bin' or x['op'] != '<=':
                    continue
                l = cu.strip_casts(f, f.kid(x, 0))
                if l is None or l['k'] != 'ref':
                    continue
                d = cu.decl_of(f, l)
                if d is None or _tmax(d.get('t')) is None:
                    continue
                incs = [w for w in f.walk(n) if
                        (w['k'] == 'un' and w['op'] in ('++', 'post++') and
                         f.show(cu.strip_casts(f, f.kid(w, 0))) == l['name']) or
                        (w['k'] == 'bin' and w['op'] == '+=' and
                         f.show(cu.strip_casts(f, f.kid(w, 0))) == l['name'])]
                if not incs:
                    continue
                n_loops += 1
                cmax = _tmax(d.get('t'))
                ub = upper_bound(f, f.kid(x, 1))
                ok = ub is not None and ub < cmax
                ctx.ob('R7.8', '%s:loop%d(%s):counter-can-pass-bound' % (f.name, k, l['name']), ok, f.loc(x),
                       'counter %s (%s, max %d) can exceed the bound (at most %s): the loop ends' % (
                           l['name'], _tname(d.get('t')), cmax, ub) if ok else
                       'counter %s has type %s (max %d) and the bound %s can be as large as %s: '
                       '`%s <= bound` is then always true and the loop never ends' % (
                           l['name'], _tname(d.get('t')), cmax, f.show(f.kid(x, 1))[:40],
                           ub if ub is not None else 'any value', l['name']))
                k += 1
    ctx.count('narrow_counter_loops', n_loops)


def _fx(fn, **kw):
    d = {'src': 'C07/parse.c', 'run': fn, 'texts': {'C07/grammar.y': 'libyara/grammar.y'}}
    d.update(kw)
    return d


FIXTURES = {
    'R7.1': _fx(r7_1, expect='grammar:leaky#0:leak:$2', expect_ok='grammar:good#0'),
    'R7.2': _fx(r7_2, expect='diagnosed-before-abort'),
    'R7.3': _fx(r7_3, expect='entry_without_setjmp:yara_yyparse:setjmp-dominates',
                expect_ok='entry_clean:yara_yyparse:recovery-releases'),
    'R7.5': _fx(r7_5, expect='YR_COMPILER.lost_table:released-by-destroy',
                expect_ok='YR_COMPILER.table:released-by-destroy'),
    'R7.8': _fx(r7_8, expect='narrow_loop_bad:loop0(c):counter-can-pass-bound',
                expect_ok='narrow_loop_good:loop0(c):counter-can-pass-bound'),
    'R7.7': _fx(r7_7, expect='reads_unset:err:message-initialised',
                expect_ok='reads_set:err:message-initialised'),
    'R7.6': _fx(r7_6, expect='ERROR_NO_MESSAGE:has-message', expect_ok='ERROR_KNOWN:has-message'),
}


def r7_9(ctx):
    """a warning never hides an error.  The sub-lexers keep one status per parse: a
    warning routine stores a warning code in it when it is still ERROR_SUCCESS, the error
    routine stores the error unless an earlier *error* is already there.  Every code the
    warning routine of a lexer can store must therefore be one the error routine of the same
    lexer treats as "nothing worse happened yet" and overwrites; otherwise an unknown escape
    followed by a real syntax error leaves the warning as the parse's result and the caller
    goes on with a failed parse."""
    prog = ctx.prog
    n = 0
    for tu in prog.tus.values():
        warn = [f for f in tu.fn_list if f.name.endswith('yywarning')]
        err = [f for f in tu.fn_list if f.name.endswith('yyerror')]
        if not warn or not err:
            continue

        def status_stores(f):
            out = []
            for x in f.all_nodes():
                if x['k'] == 'bin' and x['op'] == '=':
                    l = cu.strip_casts(f, f.kid(x, 0))
                    if l is not None and l['k'] == 'member' and l['fld'] == 'last_error':
                        out.append((x, cu.const_of(cu.strip_casts(f, f.kid(x, 1)))))
            return out
        wcodes = set(v for _, v in status_stores(warn[0]) if v is not None)
        ef = err[0]
        for st, _ in status_stores(ef):
            # the codes under which the error routine overwrites the status
            allowed = set()
            for a in ef.ancestors(st):
                if a['k'] == 'if' and any(y is st for y in ef.walk(ef.kid(a, 1))):
                    for c in ef.walk(ef.kid(a, 0)):
                        if c['k'] == 'bin' and c['op'] == '==':
                            for x, y in ((ef.kid(c, 0), ef.kid(c, 1)), (ef.kid(c, 1), ef.kid(c, 0))):
                                xs = cu.strip_casts(ef, x)
                                if xs is not None and xs['k'] == 'member' and xs['fld'] == 'last_error':
                                    v = cu.const_of(cu.strip_casts(ef, y))
                                    if v is not None:
                                        allowed.add(v)
            n += 1
            missing = sorted(w for w in wcodes if w not in allowed and w != 0)
            ctx.ob('R7.9', '%s:warning-codes-overwritable' % ef.name, not missing, ef.loc(st),
                   'the error routine overwrites every status the warning routine can leave (%s)' %
                   sorted(wcodes) if not missing else
                   '%s can leave status %s, which %s does not overwrite: a warning followed by a syntax '
                   'error ends the parse with the warning as its result, and the caller continues with a '
                   'failed parse' % (warn[0].name, missing, ef.name))
    ctx.count('lexers_with_warnings', n)


def run(ctx):
    r7_1(ctx)
    ctx.floor('R7.1', 40)
    r7_2(ctx)
    ctx.floor('R7.2', 40)
    r7_3(ctx)
    ctx.floor('R7.3', 5)
    from .C12 import r12_1_and_2
    sub = type(ctx)(ctx.prop, ctx.tier, ctx.prog, ctx.fixture)
    r12_1_and_2(sub)
    for o in sub.obls:
        if o['rule'] == 'R12.2':
            ctx.ob('R7.4', o['key'], o['ok'], o['where'], o['detail'], o['data'])
    ctx.floor('R7.4', 6)
    r7_5(ctx)
    r7_6(ctx)
    ctx.floor('R7.6', 25)
    r7_7(ctx)
    ctx.floor('R7.7', 3)
    r7_8(ctx)
    ctx.floor('R7.8', 2)
    r7_9(ctx)
    ctx.floor('R7.9', 1)

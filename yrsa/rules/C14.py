"""C14 — hash, math and string module functions compute their definitions.

Digests and statistics are values and are not decided.  Decided is the
structure the digest cache and the range walkers rely on (DESIGN.md §4 C14):
  R14.1 cache family (every function of the hash module that consults the
        digest cache): the namespace given to get_from_cache and add_to_cache
        is the same literal and no other function uses it; the key is the pair
        of *original* arguments (variables never written after their
        initialisation) and the walk cursors start from them; one algorithm's
        init/update/final are used together, the digest length handed to
        digest_to_ascii is the standard one and fits the buffers; the string
        that is cached is the string that is returned, and a cache hit returns
        the cached string;
  R14.2 range-walker family (every function of hash.c / math.c that walks the
        memory blocks over an (offset, length) range): the argument validation
        and the NULL-block test dominate the walk; the per-block window is
        entered only under offset in [base, base+size); its length is
        min(length, size - data_offset); both cursors advance by that length;
        block bytes are read only at block_data + data_offset (+ i, i <
        data_len); an unreadable block, a gap between blocks and a range that
        meets no block all end in an undefined result.
"""
from .. import cfgutil as cu
from .. import paths

LEVEL = 'other'
EXPLANATION = (
    'Role inference over the typed AST (block variable, cursors, window '
    'offset/length, block data pointer) for every range walker and cached '
    'hasher of the hash and math modules, then per-function path-sensitive '
    'must-hold checks of the guards that dominate the window, shape checks on '
    'the clip expression and on every use of the block data pointer, and '
    'agreement of the cache key/namespace/value between the reader and the '
    'writer of the digest cache.')
ASSUMPTIONS = [
    'standard digest sizes: md5 16, sha1 20, sha256 32 bytes',
    'the argument guard (offset < 0 || length < 0 || offset < block->base) concerns the arguments as '
    'passed: facts learnt from it are kept while the cursors advance by the clipped, non-negative '
    'window length',
]
ALG_LEN = {'md5': 16, 'sha1': 20, 'sha256': 32}
MODULE_TUS = ('libyara/modules/hash/hash.c', 'libyara/modules/math/math.c')


def rcanon(f, n):
    """canon() with locals that merely name an expression (cfgutil.stable_defs)
    replaced by that expression"""
    return canon(f, n, 0, True)


def canon(f, n, depth=0, res=None):
    """cast-free rendering for structural comparison"""
    n = cu.strip_casts(f, n)
    if n is None or depth > 30:
        return '?'
    k = n['k']
    ks = f.kids(n)
    c = lambda x: canon(f, x, depth + 1, res)
    if k == 'ref':
        if res and depth < 24:
            e = cu.stable_def_of(f, n)
            if e is not None:
                return canon(f, e, depth + 1, res)
        return n['name']
    if k in ('int', 'char'):
        return str(n.get('v', '?'))
    if k == 'member':
        return '%s%s%s' % (c(ks[0]) if ks else '?', '->' if n.get('arrow') else '.', n['fld'])
    if k == 'bin':
        return '(%s %s %s)' % (c(ks[0]), n['op'], c(ks[1]))
    if k == 'un':
        return '%s%s' % (n['op'], c(ks[0]))
    if k == 'cond':
        return '(%s ? %s : %s)' % tuple(c(x) for x in ks[:3])
    if k == 'call':
        return '%s(%s)' % (n.get('callee', '*'), ', '.join(c(x) for x in f.call_args(n)))
    if k == 'sub':
        return '%s[%s]' % (c(ks[0]), c(ks[1]))
    return f.show(n)


def _linsum(f, e, depth=0):
    """e as a sum: ({term text: coefficient}, constant), looking through casts and through
    locals that merely name a sub-expression"""
    e = cu.strip_casts(f, e)
    if e is None or depth > 12:
        return None
    v = cu.const_of(e)
    if v is not None:
        return ({}, v)
    if e['k'] == 'ref':
        d = cu.stable_def_of(f, e)
        if d is not None:
            r = _linsum(f, d, depth + 1)
            if r is not None:
                return r
        return ({e['name']: 1}, 0)
    if e['k'] == 'bin' and e['op'] in ('+', '-'):
        x, y = _linsum(f, f.kid(e, 0), depth + 1), _linsum(f, f.kid(e, 1), depth + 1)
        if x is None or y is None:
            return None
        sg = 1 if e['op'] == '+' else -1
        t = dict(x[0])
        for k_, c in y[0].items():
            t[k_] = t.get(k_, 0) + sg * c
        return ({k_: c for k_, c in t.items() if c}, x[1] + sg * y[1])
    return ({canon(f, e): 1}, 0)


def _decls(f):
    return [n for n in f.all_nodes() if n['k'] == 'decl']


def _writes(f, name):
    """assignments / increments / address-of of local `name` (beyond its declaration)"""
    out = []
    for n in f.all_nodes():
        if n['k'] == 'bin' and n['op'].endswith('=') and n['op'] not in ('==', '!=', '<=', '>='):
            l = cu.strip_casts(f, f.kid(n, 0))
            if l is not None and l['k'] == 'ref' and l['name'] == name:
                out.append(n)
        elif n['k'] == 'un' and n['op'] in ('++', '--', 'post++', 'post--', '&'):
            l = cu.strip_casts(f, f.kid(n, 0))
            if l is not None and l['k'] == 'ref' and l['name'] == name:
                out.append(n)
    return out


def _desig(f, n):
    """designator of an lvalue that is a local or a member path of one
    (`offset`, `todo.offset`, `st->length`); None for anything else"""
    n = cu.strip_casts(f, n)
    if n is None:
        return None
    if n['k'] == 'ref':
        return n['name']
    if n['k'] == 'member':
        b = _desig(f, f.kid(n, 0))
        return None if b is None else '%s%s%s' % (b, '->' if n.get('arrow') else '.', n['fld'])
    return None


def _written(f, n):
    """designator written by node n (assignment, compound assignment, ++/--), else None"""
    if n['k'] == 'bin' and n['op'].endswith('=') and n['op'] not in ('==', '!=', '<=', '>='):
        return _desig(f, f.kid(n, 0))
    if n['k'] == 'un' and n['op'] in ('++', '--', 'post++', 'post--'):
        return _desig(f, f.kid(n, 0))
    return None


def _defs(f):
    """[(designator, defining node, defining expression)] in source order: initialised
    declarations (a brace-initialised record defines each of its fields) and plain
    assignments"""
    out = []
    for n in f.all_nodes():
        if n['k'] == 'decl' and n.get('c'):
            e = f.kid(n, 0)
            es = cu.strip_casts(f, e)
            if es is not None and es['k'] == 'init':
                rec = f.tu.records.get(n.get('rec') or '')
                if rec is not None:
                    for fld, x in zip(rec['fields'], f.kids(es)):
                        out.append(('%s.%s' % (n['name'], fld['name']), n, x))
                continue
            out.append((n['name'], n, e))
        elif n['k'] == 'bin' and n['op'] == '=':
            d = _desig(f, f.kid(n, 0))
            if d is not None:
                out.append((d, n, f.kid(n, 1)))
    out.sort(key=lambda x: (x[1].get('l', 0), x[1]['i']))
    return out


def _cmp_keys(f, c, pol):
    """a branch condition and its outcome as order-independent facts:
    `a < b`, `b > a`, `!(a >= b)`, `!(b <= a)` are all (('lt', a, b), True); equalities
    are (('eq', {a, b}), bool); a bare value v is `v != 0`.  Returned for the plain
    rendering and for the one that looks through locals naming a sub-expression."""
    out = []
    c = cu.strip_casts(f, c)
    if c is None:
        return out
    for cn in (canon, rcanon):
        if c['k'] == 'bin' and c['op'] in ('<', '<=', '>', '>='):
            l, r = cn(f, f.kid(c, 0)), cn(f, f.kid(c, 1))
            if c['op'] == '<':
                out.append((('lt', l, r), pol))
            elif c['op'] == '>=':
                out.append((('lt', l, r), not pol))
            elif c['op'] == '>':
                out.append((('lt', r, l), pol))
            else:
                out.append((('lt', r, l), not pol))
        elif c['k'] == 'bin' and c['op'] in ('==', '!='):
            l, r = cn(f, f.kid(c, 0)), cn(f, f.kid(c, 1))
            out.append((('eq',) + tuple(sorted([l, r])), pol if c['op'] == '==' else not pol))
        elif c['k'] in ('ref', 'member'):
            out.append((('eq',) + tuple(sorted([cn(f, c), '0'])), not pol))
    return out


class Walker(object):
    """roles of one range walker: the block variable B, the position cursor X, the
    window offset D = X - B->base, the remaining-length cursor N, the window length
    L = min(N, B->size - D), the block data pointer P = yr_fetch_block_data(B) and the
    "a block of the range was seen" flag.  Cursors may be locals or members of a local
    record; D, L and P may be initialised declarations or assigned once."""

    def __init__(self, f):
        self.f = f
        self.ok = False
        blocks = [d['name'] for d in _decls(f) if d.get('t', '').replace(' ', '') == 'YR_MEMORY_BLOCK*']
        for p in f.params:
            if p.get('type', '').replace(' ', '') == 'YR_MEMORY_BLOCK*':
                blocks.append(p['name'])
        defs = _defs(f)
        self.defs = defs
        for name, node, e0 in defs:
            e = cu.strip_casts(f, e0)
            if e is None or e['k'] != 'bin' or e['op'] != '-' or '.' in name or '->' in name:
                continue
            a, b = cu.strip_casts(f, f.kid(e, 0)), cu.strip_casts(f, f.kid(e, 1))
            if a is None or b is None or _desig(f, a) is None or b['k'] != 'member' or b['fld'] != 'base':
                continue
            bb = cu.strip_casts(f, f.kid(b, 0))
            if bb is None or bb['k'] != 'ref' or bb['name'] not in blocks:
                continue
            self.D, self.X, self.B, self.D_decl = name, _desig(f, a), bb['name'], node
            self.ok = True
            break
        if not self.ok:
            return
        self.L = self.N = self.L_decl = self.L_expr = None
        win = '(%s->size - %s)' % (self.B, self.D)
        for name, node, e0 in defs:
            e = cu.strip_casts(f, e0)
            if e is not None and e['k'] == 'cond' and win in canon(f, e) and '.' not in name and '->' not in name:
                self.L, self.L_decl, self.L_expr = name, node, e
                for arm in (f.kid(e, 1), f.kid(e, 2)):
                    if _desig(f, arm) is not None:
                        self.N = _desig(f, arm)
        self.P = self.P_decl = self.P_type = None
        for name, node, e0 in defs:
            e = cu.strip_casts(f, e0)
            if e is not None and e['k'] == 'call' and e.get('callee') == 'yr_fetch_block_data' and \
                    '.' not in name and '->' not in name:
                self.P, self.P_decl = name, node
                dl = [d for d in _decls(f) if d['name'] == name]
                self.P_type = dl[0].get('t') if dl else None
        # the "seen a block of the range" flag: assigned a non-zero constant
        # next to the window
        self.FLAG = None
        for n in f.all_nodes():
            if n['k'] == 'bin' and n['op'] == '=':
                l = cu.strip_casts(f, f.kid(n, 0))
                v = cu.const_of(cu.strip_casts(f, f.kid(n, 1)))
                if l is not None and l['k'] == 'ref' and v == 1:
                    dl = [d for d in _decls(f) if d['name'] == l['name']]
                    if dl and dl[0].get('t') in ('_Bool', 'int', 'bool'):
                        self.FLAG = l['name']

    def start_of(self, cursor):
        """what a cursor starts from: its first definition in source order"""
        for name, node, e in self.defs:
            if name == cursor:
                return canon(self.f, e)
        return None

    def aliases(self, cursor):
        """names under which the argument guard may test a cursor's starting value: the
        cursor itself and, when it is initialised from a variable that is never
        written, that variable"""
        out = [cursor]
        for name, node, e in self.defs:
            if name == cursor:
                e = cu.strip_casts(self.f, e)
                if e is not None and e['k'] == 'ref' and not _writes(self.f, e['name']):
                    out.append(e['name'])
                break
        return out

    def loop_cond_ids(self):
        """node ids of the condition of the outermost loop around the window"""
        f = self.f
        loops = [a for a in f.ancestors(self.D_decl) if a['k'] in ('for', 'while', 'do')]
        if not loops:
            return set()
        lp = loops[-1]
        cond = None
        if lp['k'] == 'for':
            parts = lp.get('parts', [])
            cond = f.node(parts[1]) if len(parts) > 1 and parts[1] >= 0 else None
        elif lp['k'] == 'while':
            cond = f.kid(lp, 0)
        else:
            ks = f.kids(lp)
            cond = ks[-1] if ks else None
        return set(x['i'] for x in f.walk(cond)) if cond is not None else set()

    def sem(self):
        """comparison key -> [(fact name, value of the fact when the comparison holds)]"""
        X, B, N, P = self.X, self.B, self.N, self.P
        base = '%s->base' % B
        ends = ['(%s->base + %s->size)' % (B, B), '(%s->size + %s->base)' % (B, B)]
        t = {}

        def add(key, name, sign):
            t.setdefault(key, []).append((name, sign))
        for x in self.aliases(X):
            add(('lt', x, '0'), 'negative-offset', True)
            add(('lt', x, base), 'offset-before-first-block', True)
        for n in self.aliases(N):
            add(('lt', n, '0'), 'negative-length', True)
        add(('lt', X, base), 'at-or-after-block-start', False)
        for e in ends:
            add(('lt', X, e), 'before-block-end', True)
        add(('eq', '0', B) if '0' < B else ('eq', B, '0'), 'no-block', True)
        if P is not None:
            add(('eq',) + tuple(sorted([P, '0'])), 'data-null', True)
        return t


def walkers(ctx):
    out = []
    for f in ctx.prog.fns():
        if f.tu.name not in MODULE_TUS and not ctx.fixture:
            continue
        w = Walker(f)
        if w.ok:
            out.append(w)
    return out


def _explore_facts(f, interest, kill_on, at_nodes):
    """must-hold comparison outcomes at given nodes. interest: set of canon
    strings of comparisons; kill_on: {var: set(canon strings to drop when var
    is written)}. Returns {node id: intersection over paths of facts}."""
    seen = {}

    def step(n, facts):
        if n['i'] in at_nodes:
            cur = seen.get(n['i'])
            seen[n['i']] = set(facts) if cur is None else (cur & set(facts))
        name = None
        if n['k'] == 'bin' and n['op'].endswith('=') and n['op'] not in ('==', '!=', '<=', '>='):
            l = cu.strip_casts(f, f.kid(n, 0))
            name = l['name'] if l is not None and l['k'] == 'ref' else None
        elif n['k'] == 'un' and n['op'] in ('++', '--', 'post++', 'post--'):
            l = cu.strip_casts(f, f.kid(n, 0))
            name = l['name'] if l is not None and l['k'] == 'ref' else None
        if name in kill_on:
            return frozenset(x for x in facts if x[1] not in kill_on[name])
        if n['k'] == 'ret':
            return None
        return facts

    def edge(b, term, cond, idx, succ, facts):
        pol = paths.branch_polarity(f, term, idx)
        if pol is None or cond is None:
            return facts
        c, p2 = paths.normalise_cond(f, cond, pol)
        if c is None:
            return facts
        s = canon(f, c)
        if s not in interest:
            s = rcanon(f, c)        # through locals that merely name a sub-expression
        if s in interest:
            return frozenset(facts) | {('T' if p2 else 'F', s)}
        return facts
    paths.explore(f, set(), step, edge, max_states=50000)
    return seen


GUARD_FACTS = ('negative-offset', 'negative-length', 'offset-before-first-block')


def _kill_names(w):
    """fact names dropped when a designator is written.  The argument-guard facts are
    never dropped (ASSUMPTIONS): they concern the arguments as passed."""
    inblk = set(['at-or-after-block-start', 'before-block-end'])
    k = {w.X: set(inblk), w.B: inblk | set(['no-block'])}
    if w.P is not None:
        k[w.P] = set(['data-null'])
    return k


def _walker_facts(w, at_nodes):
    """must-hold named facts (Walker.sem) at given nodes: {node id: intersection over
    paths of {(fact name, bool)}}"""
    f = w.f
    sem = w.sem()
    kill_on = _kill_names(w)
    seen = {}

    def record(i, facts):
        cur = seen.get(i)
        seen[i] = set(facts) if cur is None else (cur & set(facts))

    def step(n, facts):
        if n['i'] in at_nodes:
            record(n['i'], facts)
        name = _written(f, n)
        if name is not None:
            dead = set()
            for k, names in kill_on.items():
                if k == name or k.startswith(name + '.') or k.startswith(name + '->'):
                    dead |= names
            if dead:
                return frozenset(x for x in facts if x[0] not in dead)
        if n['k'] == 'ret':
            return None
        return facts

    def edge(b, term, cond, idx, succ, facts):
        if cond is not None and cond['i'] in at_nodes:
            record(cond['i'], facts)
        pol = paths.branch_polarity(f, term, idx)
        if pol is None or cond is None:
            return facts
        c, p2 = paths.normalise_cond(f, cond, pol)
        if c is None:
            return facts
        add = set()
        have_names = set(x[0] for x in facts)
        for key, val in _cmp_keys(f, c, p2):
            for name, sign in sem.get(key, ()):
                if name in GUARD_FACTS and name in have_names:
                    continue        # decided once, about the arguments as passed
                add.add((name, val == sign))
        if add:
            names = set(x[0] for x in add)
            return frozenset(x for x in facts if x[0] not in names) | add
        return facts
    paths.explore(f, set(), step, edge, max_states=50000)
    return seen


def r14_2(ctx):
    ws = walkers(ctx)
    ctx.count('range_walkers', len(ws))
    # every function of the modules that walks the blocks and fetches their data over a
    # caller-given range must be one of the recognised walkers: a walker whose shape the role
    # inference no longer understands is an analysis failure, not a silent pass
    known = set(w.f.name for w in ws)
    for f in ctx.prog.fns():
        if f.tu.name not in MODULE_TUS or ctx.fixture:
            continue
        fetches = [c for c in f.calls() if c.get('callee') == 'yr_fetch_block_data']
        in_loop = [c for c in fetches if any(a['k'] in ('for', 'while', 'do') for a in f.ancestors(c))]
        ranged = any(x['k'] == 'member' and x['fld'] == 'base' for x in f.all_nodes()) and \
            any(x['k'] == 'bin' and x['op'] == '-' and
                any(y['k'] == 'member' and y['fld'] == 'base' for y in f.walk(x)) for x in f.all_nodes())
        if in_loop and ranged:
            ctx.require(f.name in known, 'R14.2: %s walks the memory blocks over a range but its roles '
                        '(cursor, window, data pointer) are not recognised' % f.name)
    for w in ws:
        f = w.f
        key = f.name
        X, B, D = w.X, w.B, w.D
        where = f.loc(w.D_decl)
        roles_ok = w.L is not None and w.N is not None and w.P is not None
        ctx.ob('R14.2', key + ':roles', roles_ok, where,
               'walker roles: block=%s cursor=%s/%s window=%s/%s data=%s' % (B, X, w.N, D, w.L, w.P)
               if roles_ok else
               'the window of this range walker is no longer of the shape min(length, block->size - '
               'data_offset) over yr_fetch_block_data(block) (window length=%s, length cursor=%s, '
               'data=%s)' % (w.L, w.N, w.P))
        if not roles_ok:
            continue
        N, L, P = w.N, w.L, w.P
        guards = list(GUARD_FACTS)
        inblk = {'at-or-after-block-start': '%s >= %s->base' % (X, B),
                 'before-block-end': '%s < %s->base + %s->size' % (X, B, B)}
        # every place where block bytes are read: `*E`, `E[i]`, or E handed to a callee,
        # with E = P + (something).  The something must be D (the window offset) alone
        # - then the callee gets L as the length, or the read is of the window's first byte
        # under L > 0 - or D + i inside a loop that keeps i < L.  E may be spelled through
        # locals naming a sub-expression (`range_start = block_data + data_offset`).
        derefs = []
        shape_bad = []

        def in_loop_bounded(n, iname):
            for a in f.ancestors(n):
                if a['k'] not in ('for', 'while'):
                    continue
                if a['k'] == 'for':
                    parts = a.get('parts', [])
                    cnd = f.node(parts[1]) if len(parts) > 1 and parts[1] >= 0 else None
                else:
                    cnd = f.kid(a, 0)
                if cnd is None:
                    continue
                for x in f.walk(cnd):
                    for k_, val in _cmp_keys(f, x, True):
                        if k_ == ('lt', iname, L) and val:
                            return True
            return False

        def under_nonempty(n, c):
            """n sits in the then-branch of a test that makes L > c"""
            child = n
            for a in f.ancestors(n):
                if a['k'] == 'if' and len(f.kids(a)) > 1 and child is f.kids(a)[1]:
                    for x in f.walk(f.kid(a, 0)):
                        for k_, val in _cmp_keys(f, x, True):
                            if k_ == ('lt', str(c), L) and val:
                                return True
                            if c == 0 and k_ == ('eq',) + tuple(sorted([L, '0'])) and not val:
                                return True
                child = a
            return False

        # D may be a local that merely names `X - B->base`: the sums then show its
        # definition instead of its name
        d_def = None
        for nm_, nd_, e_ in w.defs:
            if nm_ == D:
                d_def = _linsum(f, e_)
                break

        def classify(n, ls, how, nxt=None):
            terms, cst = ls
            if D not in terms and d_def is not None and d_def[0] and \
                    all(terms.get(t) == c for t, c in d_def[0].items()):
                terms = dict(terms)
                for t in d_def[0]:
                    del terms[t]
                terms[D] = 1
                cst -= d_def[1]
            rest = dict((t, c) for t, c in terms.items() if t not in (P, D))
            if terms.get(P) != 1:
                return
            if terms.get(D) != 1:
                shape_bad.append((n, 'read at %s + %s, not relative to the window offset %s' % (
                    P, ' + '.join(sorted(rest)) or str(cst), D)))
                return
            derefs.append(n)
            if how == 'call':
                if rest or cst != 0 or nxt is None or canon(f, nxt) != L:
                    shape_bad.append((n, 'handed to %s() with length %s instead of %s' % (
                        n.get('callee'), canon(f, nxt) if nxt is not None else '?', L)))
                return
            if not rest:
                if cst < 0 or not under_nonempty(n, cst):
                    shape_bad.append((n, 'read at offset %d of the window without %s > %d' % (cst, L, cst)))
                return
            if cst != 0 or len(rest) != 1 or list(rest.values()) != [1] or \
                    not in_loop_bounded(n, list(rest)[0]):
                shape_bad.append((n, 'indexed by %s%s outside a loop that keeps it below %s' % (
                    ' + '.join(sorted(rest)), (' + %d' % cst) if cst else '', L)))

        def add(x, y):
            t = dict(x[0])
            for k_, c in y[0].items():
                t[k_] = t.get(k_, 0) + c
            return ({k_: c for k_, c in t.items() if c}, x[1] + y[1])
        for n in f.all_nodes():
            if n['k'] == 'un' and n['op'] == '*':
                ls = _linsum(f, f.kid(n, 0))
                if ls is not None and P in ls[0]:
                    classify(n, ls, 'deref')
            elif n['k'] == 'sub':
                lb, li = _linsum(f, f.kid(n, 0)), _linsum(f, f.kid(n, 1))
                if lb is not None and P in lb[0]:
                    if li is None:
                        shape_bad.append((n, 'indexed by %s' % canon(f, f.kid(n, 1))[:40]))
                    else:
                        classify(n, add(lb, li), 'deref')
            elif n['k'] == 'call' and n.get('callee') != 'yr_fetch_block_data':
                args = f.call_args(n)
                for j, a_ in enumerate(args):
                    at_ = cu.strip_casts(f, a_)
                    if at_ is None or '*' not in (at_.get('t') or '*'):
                        continue
                    ls = _linsum(f, a_)
                    if ls is not None and ls[0].get(P) == 1 and all(
                            '(' not in t and '[' not in t for t in ls[0]):
                        classify(n, ls, 'call', args[j + 1] if j + 1 < len(args) else None)
        # any other use of P (stored, returned, compared with something that is not NULL)
        for u in [x for x in f.all_nodes() if x['k'] == 'ref' and x['name'] == P]:
            par = f.parent(u)
            while par is not None and par['k'] == 'cast':
                par = f.parent(par)
            if par is None:
                continue
            if par['k'] == 'bin' and par['op'] in ('==', '!=', '+', '-'):
                continue
            if par['k'] == 'bin' and par['op'] == '=' and cu.strip_casts(f, f.kid(par, 0)) is u:
                continue            # the definition of P itself
            if par['k'] == 'un' and par['op'] in ('!', '*'):
                continue
            if par['k'] in ('if', 'while', 'for', 'cond', 'sub', 'call', 'decl'):
                continue
            shape_bad.append((u, 'used as %s' % canon(f, par)[:60]))
        ctx.ob('R14.2', key + ':data-read-inside-window', not shape_bad,
               f.loc(shape_bad[0][0]) if shape_bad else where,
               'block bytes are read only at %s + %s (+ i < %s), %d sites' % (P, D, L, len(derefs))
               if not shape_bad else
               'block data pointer %s is %s: bytes outside the clipped window can be read' % (
                   P, shape_bad[0][1]))
        lc = w.loop_cond_ids()
        at = set([w.D_decl['i']]) | set(d['i'] for d in derefs) | lc
        try:
            seen = _walker_facts(w, at)
        except paths.Budget:
            ctx.note('R14.2 %s: state budget exceeded (not decided)' % key)
            continue
        have = seen.get(w.D_decl['i'])
        if have is None:
            ctx.ob('R14.2', key + ':window-reachable', False, where, 'the window is unreachable')
            continue
        # the argument guard is decided where the walk starts (the condition of the loop
        # over the blocks), so that the per-block test of the same comparison does not
        # stand in for it
        entry = None
        for i in lc:
            if i in seen:
                entry = seen[i] if entry is None else (entry & seen[i])
        if entry is None:
            entry = have
        said = {'negative-offset': '%s < 0' % X, 'negative-length': '%s < 0' % N,
                'offset-before-first-block': '%s < %s->base' % (X, B)}
        for nm in guards:
            ok = (nm, False) in entry
            ctx.ob('R14.2', '%s:guard:%s' % (key, nm), ok, where,
                   '(%s) is rejected before the walk on every path' % said[nm] if ok else
                   'the walk is reached without (%s) having been tested and rejected: the range is '
                   'not validated (undefined expected)' % said[nm])
        ok = ('no-block', False) in have
        ctx.ob('R14.2', key + ':guard:no-block', ok, where,
               'a NULL first block is rejected before block->base is read' if ok else
               '%s->base is read without (%s == 0) having been rejected' % (B, B))
        for nm, s_ in sorted(inblk.items()):
            ok = (nm, True) in have
            ctx.ob('R14.2', '%s:window:%s' % (key, nm), ok, where,
                   'the window is entered only when %s' % s_ if ok else
                   'the window is computed without (%s) holding for the current block: %s wraps or '
                   'exceeds the block' % (s_, D))
        # clip
        e = w.L_expr
        t = cu.strip_casts(f, f.kid(e, 0))
        a1, a2 = canon(f, f.kid(e, 1)), canon(f, f.kid(e, 2))
        win = '(%s->size - %s)' % (B, D)
        ok = False
        if t is not None and t['k'] == 'bin' and set([a1, a2]) == set([N, win]):
            l, r = canon(f, f.kid(t, 0)), canon(f, f.kid(t, 1))
            if t['op'] in ('<', '<=') and l == a1 and r == a2:
                ok = True
            if t['op'] in ('>', '>=') and l == a2 and r == a1:
                ok = True
        ctx.ob('R14.2', key + ':window-length-is-min', ok, f.loc(w.L_decl),
               '%s = min(%s, %s)' % (L, N, win) if ok else
               '%s is %s, not min(%s, %s): the window is not clipped to the block' % (
                   L, canon(f, e)[:90], N, win))
        # cursor advance
        adv = {}
        for n in f.all_nodes():
            if n['k'] == 'bin' and n['op'] in ('+=', '-='):
                l = _desig(f, f.kid(n, 0))
                if l is not None and canon(f, f.kid(n, 1)) == L:
                    adv[l] = n['op']
        ok = adv.get(X) == '+=' and adv.get(N) == '-='
        ctx.ob('R14.2', key + ':cursors-advance-by-window', ok, f.loc(w.L_decl),
               '%s += %s and %s -= %s' % (X, L, N, L) if ok else
               'the cursors do not both advance by the window length (%s): a range spanning '
               'several blocks is hashed from the wrong position or for the wrong length' % adv)
        # unreadable block: every dereference happens with P != NULL established
        bad = [d for d in derefs if ('data-null', False) not in (seen.get(d['i']) or set())]
        ctx.ob('R14.2', key + ':data-null-checked', not bad, f.loc(bad[0]) if bad else where,
               'block data is read only after %s was found non-NULL' % P if not bad else
               '%s is dereferenced without a NULL test on this path' % P)
        pt = (w.P_type or '').replace('const ', '').replace(' ', '')
        ctx.ob('R14.2', key + ':data-read-as-unsigned', pt in ('uint8_t*', 'unsignedchar*'), f.loc(w.P_decl),
               'block bytes are read through %s' % w.P_type if pt in ('uint8_t*', 'unsignedchar*')
               else 'block bytes are read through %s: bytes >= 0x80 are sign-extended' % w.P_type)
        _gap_and_empty(ctx, w)


def _returns_in(f, node):
    return [x for x in f.walk(node) if x['k'] == 'ret']


def _gap_and_empty(ctx, w):
    f, FLAG, B, X = w.f, w.FLAG, w.B, w.X
    if FLAG is None:
        ctx.ob('R14.2', f.name + ':gap-is-undefined', False, f.loc(w.D_decl),
               'no "seen a block of the range" flag: gaps between blocks are not detected')
        return
    sem = w.sem()
    bad = []
    bad_null = []
    P = w.P

    def is_next(n):
        if n['k'] == 'bin' and n['op'] == '=':
            l = cu.strip_casts(f, f.kid(n, 0))
            r = cu.strip_casts(f, f.kid(n, 1))
            if l is not None and l['k'] == 'ref' and l['name'] == B and r is not None and r['k'] == 'call':
                m = cu.strip_casts(f, f.kid(r, 0))
                return m is not None and m['k'] == 'member' and m['fld'] == 'next'
        return False

    def step(n, facts):
        if n['k'] == 'bin' and n['op'] == '=':
            l = cu.strip_casts(f, f.kid(n, 0))
            v = cu.const_of(cu.strip_casts(f, f.kid(n, 1)))
            if l is not None and l['k'] == 'ref' and l['name'] == FLAG and v is not None:
                facts = frozenset(x for x in facts if x[0] != 'flag') | {('flag', 1 if v else 0)}
        if n['k'] == 'decl' and n['name'] == FLAG and n.get('c'):
            v = cu.const_of(cu.strip_casts(f, f.kid(n, 0)))
            if v is not None:
                facts = frozenset(x for x in facts if x[0] != 'flag') | {('flag', 1 if v else 0)}
        if is_next(n) or n['k'] == 'break':
            if ('flag', 1) in facts and ('out',) in facts:
                bad.append(n)
            if ('pnull',) in facts:
                bad_null.append(n)
            return frozenset(x for x in facts if x[0] not in ('out', 'pnull'))
        if n['k'] == 'ret':
            return None
        return facts

    def edge(b, term, cond, idx, succ, facts):
        pol = paths.branch_polarity(f, term, idx)
        if pol is None or cond is None:
            return facts
        c, p2 = paths.normalise_cond(f, cond, pol)
        if c is None:
            return facts
        s = canon(f, c)
        for k_, val in _cmp_keys(f, c, p2):
            for name, sign in sem.get(k_, ()):
                if name in ('at-or-after-block-start', 'before-block-end') and (val == sign) is False:
                    return frozenset(facts) | {('out',)}
                if name == 'data-null' and (val == sign) is True:
                    return frozenset(facts) | {('pnull',)}
        if s == FLAG:
            if ('flag', 0 if p2 else 1) in facts:
                return None
        return facts
    try:
        paths.explore(f, set(), step, edge, max_states=20000)
        ok = not bad
        ctx.ob('R14.2', f.name + ':gap-is-undefined', ok, f.loc(bad[0]) if bad else f.loc(w.D_decl),
               'once a block of the range was seen, a block outside the range ends the walk by a '
               'return' if ok else
               'the walk goes on (here) after a block of the range was seen and the current block '
               'lies outside it: a range over non-contiguous blocks silently skips the gap')
        ok = not bad_null
        ctx.ob('R14.2', f.name + ':unreadable-block-is-undefined', ok,
               f.loc(bad_null[0]) if bad_null else f.loc(w.P_decl),
               'when the data of a block in the range cannot be fetched the function returns at once'
               if ok else
               'when yr_fetch_block_data() fails the walk carries on (here): the result covers fewer '
               'bytes than were addressed (sibling walkers return undefined)')
    except paths.Budget:
        ctx.note('R14.2 %s gap rule: state budget exceeded (not decided)' % f.name)
    empty = False
    for n in f.all_nodes():
        if n['k'] not in ('if', 'cond'):
            continue
        if any(a['k'] in ('for', 'while', 'do') for a in f.ancestors(n)):
            continue
        if any(x['k'] == 'ref' and x['name'] == FLAG for x in f.walk(f.kid(n, 0))):
            empty = True
    if not empty and getattr(f, 'static', False):
        # the walk lives in a helper that hands the flag to its callers as its verdict:
        # `return <flag>;` after the loop, and no caller discards the verdict
        returned = any(n['k'] == 'ret' and n.get('c') and
                       not any(a['k'] in ('for', 'while', 'do') for a in f.ancestors(n)) and
                       any(x['k'] == 'ref' and x['name'] == FLAG for x in f.walk(f.kid(n, 0)))
                       for n in f.all_nodes())
        sites = [(g, c) for g in f.tu.fn_list for c in g.calls() if c.get('callee') == f.name]
        if returned and sites and all(paths.value_holder(g, c)[0] != 'dropped' for g, c in sites):
            empty = True
    ctx.ob('R14.2', f.name + ':no-block-is-undefined', empty, f.loc(w.D_decl),
           'after the walk the result depends on whether any block of the range was seen' if empty else
           'nothing tests %s after the walk: a range outside every block yields the '
           'digest/statistic of zero bytes' % FLAG)


# ---------------------------------------------------------------- R14.1

def _macro_algs(f, n):
    out = set()
    for m in f.macros(n):
        if m.startswith('yr_') and m.split('_')[-1] in ('init', 'update', 'final'):
            out.add((m[3:m.rindex('_')], m.split('_')[-1]))
    return out


def r14_1(ctx):
    prog = ctx.prog
    fns = [f for f in prog.fns() if (f.tu.name == MODULE_TUS[0] or ctx.fixture)]
    cached = []
    ns_users = {}
    for f in fns:
        gets = [c for c in f.calls() if c.get('callee') == 'get_from_cache']
        adds = [c for c in f.calls() if c.get('callee') == 'add_to_cache']
        if gets or adds:
            cached.append((f, gets, adds))
            for c in gets + adds:
                a = cu.strip_casts(f, f.call_args(c)[1])
                if a is not None and a['k'] == 'str':
                    ns_users.setdefault(a.get('str'), set()).add(f.name)
    ctx.count('cached_hashers', len(cached))
    for f, gets, adds in cached:
        key = f.name
        where = '%s:%s' % (f.file, f.line)
        if len(gets) != 1 or len(adds) != 1:
            ctx.ob('R14.1', key + ':one-lookup-one-store', False, where,
                   '%d cache lookups and %d cache stores: a digest is computed without being '
                   'looked up, or looked up without ever being stored' % (len(gets), len(adds)))
            continue
        g, a = gets[0], adds[0]
        ga, aa = f.call_args(g), f.call_args(a)
        nsg, nsa = cu.strip_casts(f, ga[1]), cu.strip_casts(f, aa[1])
        ok = nsg is not None and nsa is not None and nsg['k'] == 'str' and nsa['k'] == 'str' and \
            nsg.get('str') == nsa.get('str')
        ctx.ob('R14.1', key + ':namespace-agrees', ok, f.loc(a),
               'lookup and store use namespace "%s"' % nsg.get('str') if ok else
               'the digest is looked up under %s but stored under %s' % (canon(f, nsg), canon(f, nsa)))
        if ok:
            users = ns_users.get(nsg.get('str'), set())
            ctx.ob('R14.1', key + ':namespace-private', users == set([f.name]), f.loc(g),
                   'namespace "%s" is used by %s only' % (nsg.get('str'), f.name)
                   if users == set([f.name]) else
                   'namespace "%s" is shared by %s: one algorithm returns another\'s digest for the '
                   'same (offset, length)' % (nsg.get('str'), ', '.join(sorted(users))))
        # key
        kg = [canon(f, x) for x in ga[2:4]]
        ka = [canon(f, x) for x in aa[2:4]]
        same = kg == ka and all(cu.strip_casts(f, x) is not None and cu.strip_casts(f, x)['k'] == 'ref'
                                for x in ga[2:4])
        ctx.ob('R14.1', key + ':key-agrees', same, f.loc(a),
               'lookup and store use the key (%s)' % ', '.join(kg) if same else
               'the digest is looked up under (%s) but stored under (%s)' % (', '.join(kg), ', '.join(ka)))
        if same:
            written = [(v, w) for v in kg for w in _writes(f, v)]
            ctx.ob('R14.1', key + ':key-is-original-arguments', not written,
                   f.loc(written[0][1]) if written else f.loc(g),
                   'the key variables %s are never written after their initialisation' % ', '.join(kg)
                   if not written else
                   'key variable %s is modified here: the digest is stored under the walked cursor, '
                   'not under the arguments it will be looked up with' % written[0][0])
            w = Walker(f)
            if w.ok and w.N is not None:
                inits = {w.X: w.start_of(w.X), w.N: w.start_of(w.N)}
                ok2 = inits.get(w.X) == kg[0] and inits.get(w.N) == kg[1]
                ctx.ob('R14.1', key + ':cursors-start-at-key', ok2, f.loc(w.D_decl),
                       'the walk starts at (%s, %s) = the key' % (w.X, w.N) if ok2 else
                       'the walk cursors start from (%s, %s), not from the key (%s): the cached '
                       'digest does not belong to its key' % (inits.get(w.X), inits.get(w.N), ', '.join(kg)))
        # cached value = returned value, produced after final
        d2a = [c for c in f.calls() if c.get('callee') == 'digest_to_ascii']
        val = canon(f, aa[4]) if len(aa) > 4 else '?'
        ok = bool(d2a) and all(canon(f, f.call_args(c)[1]) == val for c in d2a)
        rets = []
        for c in f.calls():
            if c.get('callee') == 'yr_object_set_string' and 'return_string' in f.macros(c):
                for d in _decls(f):
                    if d['name'] == 's' and d.get('c') and f.block_of(d) is not None:
                        pass
        # the last return_string's s
        sdecls = [d for d in _decls(f) if d['name'] == 's' and d.get('c') and 'return_string' in f.macros(d)]
        returned = set(canon(f, f.kid(d, 0)) for d in sdecls)
        ok = ok and val in returned
        ctx.ob('R14.1', key + ':cached-value-is-returned-value', ok, f.loc(a),
               'the string written by digest_to_ascii (%s) is the one cached and the one returned' % val
               if ok else
               'the cached string (%s) is not the string produced by digest_to_ascii and returned '
               '(%s)' % (val, ', '.join(sorted(returned))))
        # hit path
        hit = None
        par = f.parent(g)
        while par is not None and par['k'] == 'cast':
            par = f.parent(par)
        if par is not None and par['k'] == 'bin' and par['op'] == '=':
            hit = canon(f, f.kid(par, 0))
        elif par is not None and par['k'] == 'decl':
            hit = par['name']
        ctx.ob('R14.1', key + ':hit-returns-cached', hit is not None and hit in returned, f.loc(g),
               'a cache hit returns the cached string' if hit is not None and hit in returned else
               'the result of get_from_cache is not returned on a hit')
        _algorithm(ctx, f, d2a)
    # the string_* forms also have an algorithm to keep coherent
    for f in fns:
        if any(f is c[0] for c in cached):
            continue
        d2a = [c for c in f.calls() if c.get('callee') == 'digest_to_ascii']
        if d2a:
            _algorithm(ctx, f, d2a)


def _algorithm(ctx, f, d2a):
    algs = set()
    stages = set()
    finals = []
    for c in f.calls():
        for alg, st in _macro_algs(f, c):
            algs.add(alg)
            stages.add(st)
            if st == 'final':
                finals.append(c)
    key = f.name
    where = '%s:%s' % (f.file, f.line)
    ok = len(algs) == 1 and stages == set(['init', 'update', 'final'])
    ctx.ob('R14.1', key + ':one-algorithm', ok, where,
           'init/update/final of %s are used together' % ', '.join(algs) if ok else
           'mixed or incomplete digest primitives: %s %s' % (sorted(algs), sorted(stages)))
    if not ok or not d2a:
        return
    alg = list(algs)[0]
    want = ALG_LEN.get(alg)
    if want is None:
        ctx.ob('R14.1', key + ':digest-length', False, where, 'unknown algorithm %s' % alg)
        return
    ext = {}
    for d in _decls(f):
        t = d.get('t', '')
        if t.endswith(']') and '[' in t:
            try:
                ext[d['name']] = int(t[t.index('[') + 1:-1])
            except ValueError:
                pass
    bad = None
    for c in d2a:
        a = f.call_args(c)
        n = cu.const_of(cu.strip_casts(f, a[2]))
        dg, asc = canon(f, a[0]), canon(f, a[1])
        if n != want:
            bad = 'digest_to_ascii is given %s bytes, %s has %d' % (n, alg, want)
        elif ext.get(dg, 0) < want:
            bad = '%s holds %s bytes, %s writes %d' % (dg, ext.get(dg), alg, want)
        elif ext.get(asc, 0) < 2 * want + 1:
            bad = '%s holds %s bytes, %d are written' % (asc, ext.get(asc), 2 * want + 1)
    ctx.ob('R14.1', key + ':digest-length', bad is None, f.loc(d2a[0]),
           '%s: %d digest bytes, buffers fit' % (alg, want) if bad is None else bad)


U8 = ('uint8_t', 'unsigned char', 'const uint8_t', 'const unsigned char', 'u_char')
STRING_TUS = MODULE_TUS + ('libyara/modules/string/string.c',)


def r14_3(ctx):
    """string-argument forms: exactly the given bytes, read as unsigned"""
    prog = ctx.prog
    n_fn = 0
    for f in prog.fns():
        if f.tu.name not in STRING_TUS and not ctx.fixture:
            continue
        svars = [d['name'] for d in _decls(f) if d.get('t', '').replace(' ', '') in
                 ('SIZED_STRING*', 'constSIZED_STRING*')]
        if not svars:
            continue
        uses = []
        for m in f.all_nodes():
            if m['k'] == 'member' and m['fld'] == 'c_string':
                b = cu.strip_casts(f, f.kid(m, 0))
                if b is not None and b['k'] == 'ref' and b['name'] in svars:
                    uses.append((m, b['name']))
        if not uses:
            continue
        n_fn += 1
        for m, S in uses:
            slen = '%s->length' % S
            par = f.parent(m)
            # element read: S->c_string[i]
            if par is not None and par['k'] == 'sub' and f.kid(par, 0) is m:
                idx = f.kid(par, 1)
                up = f.parent(par)
                unsigned = False
                if up is not None and up['k'] == 'cast' and up.get('t') in U8:
                    unsigned = True
                if up is not None and up['k'] == 'decl' and up.get('t') in U8:
                    unsigned = True
                if up is not None and up['k'] == 'bin' and up['op'] == '=' and f.kid(up, 1) is par:
                    l = cu.strip_casts(f, f.kid(up, 0))
                    dl = [d for d in _decls(f) if l is not None and l['k'] == 'ref' and d['name'] == l['name']]
                    if dl and dl[0].get('t') in U8:
                        unsigned = True
                key = '%s:%s[%s]@%s' % (f.name, S, canon(f, idx), _ordinal(f, uses, m))
                ctx.ob('R14.3', key + ':read-as-unsigned', unsigned, f.loc(par),
                       'the string byte is converted to uint8_t before it is used' if unsigned else
                       '%s->c_string[%s] (plain char) is used without conversion to uint8_t: bytes >= '
                       '0x80 count as negative values' % (S, canon(f, idx)))
                c = cu.const_of(cu.strip_casts(f, idx))
                bounded = False
                for a in f.ancestors(par):
                    if a['k'] == 'for' and canon(f, f.kid(a, 1)) in (
                            '(%s < %s)' % (canon(f, idx), slen), '(%s > %s)' % (slen, canon(f, idx))):
                        bounded = True
                    if a['k'] == 'while' and canon(f, f.kid(a, 0)) in (
                            '(%s < %s)' % (canon(f, idx), slen), '(%s > %s)' % (slen, canon(f, idx))):
                        bounded = True
                    if a['k'] == 'if' and c is not None and canon(f, f.kid(a, 0)) == '(%s > %d)' % (slen, c):
                        bounded = True
                # counting down: index v - 1 inside a loop that runs while v > 0, v starting at
                # the length and only ever decremented
                ix = cu.strip_casts(f, idx)
                if not bounded and ix is not None and ix['k'] == 'bin' and ix['op'] == '-' and \
                        cu.const_of(cu.strip_casts(f, f.kid(ix, 1))) == 1:
                    v = cu.strip_casts(f, f.kid(ix, 0))
                    if v is not None and v['k'] == 'ref':
                        loops = [a for a in f.ancestors(par) if a['k'] in ('while', 'for')]
                        guard = any(canon(f, f.kid(a, 0) if a['k'] == 'while' else f.kid(a, 1)) in
                                    ('(%s > 0)' % v['name'], '(%s != 0)' % v['name'], v['name'])
                                    for a in loops)
                        inits, other = [], []
                        for x in f.all_nodes():
                            if x['k'] == 'decl' and x.get('name') == v['name'] and x.get('c'):
                                inits.append(canon(f, f.kid(x, 0)))
                            elif x['k'] == 'bin' and x['op'].endswith('=') and x['op'] not in ('==', '!=', '<=', '>=') \
                                    and canon(f, f.kid(x, 0)) == v['name']:
                                if x['op'] == '=':
                                    inits.append(canon(f, f.kid(x, 1)))
                                elif not (x['op'] == '-=' and cu.const_of(cu.strip_casts(f, f.kid(x, 1))) == 1):
                                    other.append(x)
                            elif x['k'] == 'un' and x['op'] in ('++', 'post++') and canon(f, f.kid(x, 0)) == v['name']:
                                other.append(x)
                        if guard and inits and all(i_ == slen for i_ in inits) and not other:
                            bounded = True
                ctx.ob('R14.3', key + ':index-below-length', bounded, f.loc(par),
                       'the index is bounded by %s' % slen if bounded else
                       '%s->c_string[%s] is read outside a loop/test bounded by %s' % (S, canon(f, idx), slen))
                continue
            # whole buffer handed to a callee: the next argument is its length
            up = par
            while up is not None and up['k'] == 'cast':
                up = f.parent(up)
            if up is not None and up['k'] == 'call':
                args = f.call_args(up)
                idx = [i for i, a in enumerate(args) if a is m or cu.strip_casts(f, a) is m]
                nxt = args[idx[0] + 1] if idx and idx[0] + 1 < len(args) else None
                ok = nxt is not None and canon(f, nxt) == slen
                if 'YR_DEBUG_FPRINTF' in f.macros(up):
                    continue
                ctx.ob('R14.3', '%s:%s->%s' % (f.name, S, up.get('callee')) + ':length-is-string-length',
                       ok, f.loc(up),
                       '%s() receives (%s->c_string, %s)' % (up.get('callee'), S, slen) if ok else
                       '%s() receives %s->c_string with length %s instead of %s: bytes after an '
                       'embedded NUL are dropped (or bytes past the string are read)' % (
                           up.get('callee'), S, canon(f, nxt) if nxt is not None else 'none', slen))
    ctx.count('string_form_functions', n_fn)


def _ordinal(f, uses, m):
    return [u[0]['i'] for u in uses].index(m['i'])


FIXTURES = {
    'R14.1': {'src': 'C14/hashers.c', 'run': r14_1, 'expect': 'bad_md5:namespace-agrees',
              'expect_ok': 'good_md5:namespace-agrees'},
    'R14.2': {'src': 'C14/hashers.c', 'run': r14_2, 'expect': 'bad_md5:guard:negative-length',
              'expect_ok': 'good_md5:guard:negative-length'},
    'R14.3': {'src': 'C14/hashers.c', 'run': r14_3, 'expect': 'bad_string_sum:s[i]@0:read-as-unsigned',
              'expect_ok': 'good_string_sum:s[i]@0:read-as-unsigned'},
}


def r14_4(ctx):
    """a statistic computed from the byte histogram of a range is normalised by what the
    histogram holds, not by the length that was asked for: the histogram builder clips the
    range to the data, so after the call the requested length no longer says how many
    bytes were counted.  Rule: the variable passed as length to the histogram builder is
    not read again on any path after the call."""
    n = 0
    for f in ctx.prog.fns():
        if f.tu.name not in MODULE_TUS and not ctx.fixture:
            continue
        for c in f.calls():
            if c.get('callee') != 'get_distribution':
                continue
            args = f.call_args(c)
            if len(args) < 2:
                continue
            L = cu.strip_casts(f, args[1])
            if L is None or L['k'] != 'ref':
                continue
            n += 1
            name = L['name']
            nb = f.block_of(c)
            bad = []

            def step(x, facts, name=name):
                if x['k'] == 'ref' and x['name'] == name:
                    p = f.parent(x)
                    if not (p is not None and p['k'] == 'bin' and p['op'] == '=' and f.kid(p, 0) is x):
                        bad.append(x)
                        return None
                if x['k'] == 'bin' and x['op'] == '=':
                    l = f.kid(x, 0)
                    if l is not None and l['k'] == 'ref' and l['name'] == name:
                        return None      # given a new meaning
                if x['k'] == 'ret':
                    return None
                return facts
            paths.explore(f, set(), step, None, start_block=nb[0], start_index=nb[1] + 1, max_states=64)
            ctx.ob('R14.4', '%s:requested-length-not-used-after-histogram' % f.name, not bad,
                   f.loc(bad[0]) if bad else f.loc(c),
                   'after the histogram of the (clipped) range was built the requested length is not '
                   'read again' if not bad else
                   '%s reads the requested length `%s` after get_distribution() built the histogram: '
                   'the range is clipped to the data, so fewer bytes may have been counted and the '
                   'result is not the statistic of the bytes addressed' % (f.name, name))
    ctx.count('histogram_users', n)


def r14_5(ctx):
    """string.to_int: the range test of the conversion reads errno only after resetting it"""
    from ..idioms import errno_protocol
    fns = [f for f in ctx.prog.fns() if ctx.fixture or f.file.startswith('libyara/modules/')]
    errno_protocol(ctx, 'R14.5', fns)


FIXTURES['R14.5'] = {'src': 'C14/hashers.c', 'run': r14_5, 'expect': 'bad_to_int:errno-read#0',
                     'expect_ok': 'good_to_int:errno-read#0'}


def run(ctx):
    r14_1(ctx)
    ctx.floor('R14.1', 30)
    r14_2(ctx)
    ctx.floor('R14.2', 8 * 12)
    r14_3(ctx)
    ctx.floor('R14.3', 15)
    r14_4(ctx)
    ctx.floor('R14.4', 5)
    r14_5(ctx)
    ctx.floor('R14.5', 1)

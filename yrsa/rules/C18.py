"""C18 — command-line results are independent of thread count and rule form.

Decides the synchronisation structure of cli/yara.c (DESIGN.md §4 C18):
  R18.1 every access to the file queue (file_queue[], queue_head, queue_tail)
        holds queue_mutex (except the single-threaded init); producer and
        consumer pair their semaphore wait/release; file_queue_finish posts
        one token per possible thread and main bounds `threads` by the same
        constant;
  R18.2 every global written by code reachable from scanning_thread is
        written under a lock;
  R18.3 every stdout print reachable from scanning_thread holds output_mutex;
  R18.4 an error reported while scanning a directory reaches the exit status;
  R18.5 each thread gets its own scanner and callback arguments.
Not decided: equality of stdout between runs as values; yarac equivalence
(C08's declined core).
"""
from .. import cfgutil as cu
from .. import paths
from ..callgraph import CallGraph
from ..effects import Effects

LEVEL = 'other'
EXPLANATION = (
    'Must-hold lockset analysis over cli/yara.c: every access to the queue '
    'globals and every stdout print / shared-global write reachable from '
    'scanning_thread is checked against the lock that must be held there, '
    'with the lockset at function entry taken from the callers (functions '
    'called only under a lock inherit it). Semaphore pairing, token count and '
    'per-thread scanner creation are structural checks. Exit-status reachability '
    'of reported errors.')
ASSUMPTIONS = [
    'a single fprintf(stderr, ..) call is atomic per POSIX stdio locking: '
    'stderr warnings made of one call are accepted without output_mutex',
    'threads other than scanning_thread do not exist (checked: the only '
    'cli_create_thread call passes scanning_thread)',
]

QUEUE_GLOBALS = ('file_queue', 'queue_head', 'queue_tail')
LOCK = {'cli_mutex_lock': 'lock', 'cli_mutex_unlock': 'unlock',
        'pthread_mutex_lock': 'lock', 'pthread_mutex_unlock': 'unlock'}
STDOUT_PRINTS = ('printf', 'puts', 'putchar', 'yr_object_print_data', 'print_string',
                 'print_hex_string', 'print_escaped', 'print_rules_stats')
INIT_ONLY_FUNCS = ('file_queue_init', 'file_queue_destroy')


def _mutex(f, arg):
    a = cu.strip_casts(f, arg)
    if a is not None and a['k'] == 'un' and a['op'] == '&':
        a = f.kid(a, 0)
    return f.show(a) if a is not None else '?'


def cli_tu(ctx):
    tu = ctx.prog.tu('cli/yara.c')
    if tu is None and ctx.fixture:
        tu = list(ctx.prog.tus.values())[0]
    ctx.require(tu is not None, 'cli/yara.c not analysed')
    return tu


def entry_locksets(ctx, tu, cg):
    """must-hold lockset at entry of each cli function = intersection over its
    call sites of the lockset held at the call (thread entry and main: empty)"""
    fns = {f.name: f for f in tu.fn_list}
    entry = {n: None for n in fns}      # None = not yet known (top)
    for n in ('main', 'scanning_thread', 'callback'):
        if n in entry:
            entry[n] = frozenset()
    # functions whose address is taken (callbacks) start with nothing held
    for n in fns:
        if n in cg.addr_taken:
            entry[n] = frozenset()
    changed = True
    rounds = 0
    while changed and rounds < 10:
        changed = False
        rounds += 1
        for name, f in fns.items():
            e = entry[name]
            if e is None:
                continue
            at_call = {}

            def step(n, facts, f=f):
                if n['k'] == 'call' and n.get('callee') in LOCK:
                    m = _mutex(f, f.call_args(n)[0])
                    if LOCK[n['callee']] == 'lock':
                        return facts | {m}
                    return facts - {m}
                if n['k'] == 'call' and n.get('callee') in fns:
                    at_call.setdefault(n['callee'], []).append(frozenset(facts))
                if n['k'] == 'ret':
                    return None
                return facts
            try:
                paths.explore(f, set(e), step, None, max_states=128)
            except paths.Budget:
                continue
            for callee, sets in at_call.items():
                held = frozenset.intersection(*sets)
                old = entry[callee]
                new = held if old is None else (old & held)
                if new != old:
                    entry[callee] = new
                    changed = True
    for n in entry:
        if entry[n] is None:
            entry[n] = frozenset()
    return entry


def thread_reachable(ctx, tu, cg):
    root = tu.functions.get('scanning_thread')
    ctx.require(root is not None, 'scanning_thread not found')
    reach = cg.reachable([root])
    return [f for f in reach if f.tu is tu]


def r18_1(ctx, tu, entry):
    n_acc = 0
    for f in tu.fn_list:
        acc = [n for n in f.all_nodes() if n['k'] == 'ref' and n['name'] in QUEUE_GLOBALS
               and n.get('dk') in ('global', 'slocal')]
        if not acc:
            continue
        if f.name in INIT_ONLY_FUNCS:
            ctx.ob('R18.1', '%s:queue-access:single-threaded' % f.name, True,
                   '%s:%s' % (f.file, f.line),
                   'runs before any thread is created / after all were joined')
            continue
        bad = {}

        def step(n, facts, f=f):
            if n['k'] == 'call' and n.get('callee') in LOCK:
                m = _mutex(f, f.call_args(n)[0])
                return facts | {m} if LOCK[n['callee']] == 'lock' else facts - {m}
            if n['k'] == 'ref' and n['name'] in QUEUE_GLOBALS and n.get('dk') in ('global', 'slocal'):
                if 'queue_mutex' not in facts:
                    bad.setdefault(n['name'], n)
            if n['k'] == 'ret':
                return None
            return facts
        paths.explore(f, set(entry.get(f.name, ())), step, None, max_states=64)
        n_acc += len(acc)
        for g in sorted(set(n['name'] for n in acc)):
            ctx.ob('R18.1', '%s:%s:under-queue_mutex' % (f.name, g), g not in bad,
                   f.loc(bad[g]) if g in bad else '%s:%s' % (f.file, f.line),
                   'every access to %s in %s holds queue_mutex' % (g, f.name) if g not in bad else
                   '%s is accessed in %s without queue_mutex: producer and consumers race on '
                   'the queue' % (g, f.name))
    ctx.count('queue_accesses', n_acc)
    # semaphore pairing
    for fname, waits, posts in (('file_queue_put', 'unused_slots', 'used_slots'),
                                ('file_queue_get', 'used_slots', 'unused_slots')):
        f = tu.functions.get(fname)
        if f is None:
            ctx.require(ctx.fixture, '%s not found' % fname)
            continue
        bad = []
        seen_ok = [False]

        def step(n, facts, f=f, waits=waits, posts=posts):
            if n['k'] == 'call' and n.get('callee') == 'cli_semaphore_wait' and \
                    _mutex(f, f.call_args(n)[0]) == waits:
                return facts | {'waited'}
            if n['k'] == 'call' and n.get('callee') == 'cli_semaphore_release' and \
                    _mutex(f, f.call_args(n)[0]) == posts:
                return facts | {'posted'}
            if n['k'] == 'ret':
                if 'timeout' in facts:
                    return None
                if 'waited' in facts and 'posted' not in facts:
                    bad.append(n)
                if 'waited' in facts and 'posted' in facts:
                    seen_ok[0] = True
                return None
            return facts

        def edge(b, term, cond, idx, succ, facts, f=f):
            pol = paths.branch_polarity(f, term, idx)
            if pol is not None and cond is not None:
                c, pol = paths.normalise_cond(f, cond, pol)
                if c is not None and c['k'] == 'bin' and c['op'] == '==' and pol and \
                        'cli_semaphore_wait' in f.show(c):
                    return facts | {'timeout'}
            return facts
        paths.explore(f, set(), step, edge, max_states=32)
        ctx.ob('R18.1', '%s:semaphores-paired' % fname, seen_ok[0] and not bad,
               f.loc(bad[0]) if bad else '%s:%s' % (f.file, f.line),
               '%s waits on %s and posts %s on every non-timeout path' % (fname, waits, posts)
               if seen_ok[0] and not bad else
               '%s can return after taking a %s token without posting %s: slots leak and '
               'the producer or a consumer blocks forever' % (fname, waits, posts))
    # finish posts one token per possible thread; main bounds threads
    fin = tu.functions.get('file_queue_finish')
    mx = ctx.prog.macro_value('YR_MAX_THREADS')
    if fin is not None:
        ok = False
        for n in fin.all_nodes():
            if n['k'] in ('for', 'while'):
                # a counting loop with YR_MAX_THREADS iterations, whatever its spelling
                if cu.trip_count(fin, n) == mx and \
                        any(x['k'] == 'call' and x.get('callee') == 'cli_semaphore_release'
                            for x in fin.walk(n)):
                    ok = True
        ctx.ob('R18.1', 'file_queue_finish:one-token-per-possible-thread', ok,
               '%s:%s' % (fin.file, fin.line),
               'posts YR_MAX_THREADS (%s) tokens' % mx if ok else
               'no longer posts one token per possible consumer thread')
    mainf = tu.functions.get('main')
    if mainf is not None:
        ok = False
        for n in mainf.all_nodes():
            if n['k'] == 'if':
                c = mainf.kid(n, 0)
                if c is not None and c['k'] == 'bin' and c['op'] == '>' and \
                        mainf.show(mainf.kid(c, 0)) == 'threads' and \
                        cu.const_of(cu.strip_casts(mainf, mainf.kid(c, 1))) == mx:
                    ok = True
        ctx.ob('R18.1', 'main:threads-bounded-by-YR_MAX_THREADS', ok, '%s:%s' % (mainf.file, mainf.line),
               'main rejects more than YR_MAX_THREADS threads' if ok else
               'main no longer bounds the number of threads by the token count of file_queue_finish')


def r18_2_3(ctx, tu, cg, entry):
    reach = thread_reachable(ctx, tu, cg)
    globs = set(g['name'] for g in tu.globals if not g.get('const') and not g.get('extern_decl'))
    n_print = 0
    n_write = 0
    # globals written anywhere in thread-reachable code: their reads race too
    thread_written = set()
    for f in reach:
        for n in f.all_nodes():
            l = None
            if n['k'] == 'bin' and n['op'] in ('=', '+=', '-=', '|=', '&=', '^=', '*=', '/='):
                l = f.kid(n, 0)
            elif n['k'] == 'un' and n['op'] in ('++', '--', 'post++', 'post--'):
                l = f.kid(n, 0)
            l = cu.strip_casts(f, l) if l is not None else None
            if l is not None and l['k'] == 'ref' and l.get('dk') in ('global', 'slocal') \
                    and l['name'] in globs and l['name'] not in QUEUE_GLOBALS:
                thread_written.add(l['name'])
    for f in reach:
        bad_w = {}
        bad_p = []
        writes = set()

        def lhs_global(n, f=f):
            l = None
            if n['k'] == 'bin' and n['op'] in ('=', '+=', '-=', '|=', '&=', '^=', '*=', '/='):
                l = f.kid(n, 0)
            elif n['k'] == 'un' and n['op'] in ('++', '--', 'post++', 'post--'):
                l = f.kid(n, 0)
            if l is None:
                return None
            root, path = cu.member_path(f, cu.strip_casts(f, l))
            if root is not None and root['k'] == 'ref' and root.get('dk') in ('global', 'slocal') \
                    and root['name'] in globs and not any(p == '*' for p in path):
                # stores through a pointer held in a global are not stores to the global
                if path and any(x['k'] == 'member' and x.get('arrow') for x in f.walk(l)):
                    return None
                return root['name']
            return None
        prints = []

        def step(n, facts, f=f):
            if n['k'] == 'call' and n.get('callee') in LOCK:
                m = _mutex(f, f.call_args(n)[0])
                return facts | {m} if LOCK[n['callee']] == 'lock' else facts - {m}
            g = lhs_global(n)
            if g is not None and g not in QUEUE_GLOBALS:
                writes.add(g)
                if not facts:
                    bad_w.setdefault(g, n)
            if n['k'] == 'ref' and n.get('dk') in ('global', 'slocal') and \
                    n['name'] in thread_written and not facts:
                bad_w.setdefault(n['name'], n)
                writes.add(n['name'])
            if n['k'] == 'call' and n.get('callee') in STDOUT_PRINTS:
                prints.append(n)
                if 'output_mutex' not in facts:
                    bad_p.append(n)
            if n['k'] == 'ret':
                return None
            return facts
        paths.explore(f, set(entry.get(f.name, ())), step, None, max_states=256)
        n_print += len(set(p['i'] for p in prints))
        n_write += len(writes)
        for g in sorted(writes):
            ctx.ob('R18.2', '%s:writes:%s' % (f.name, g), g not in bad_w,
                   f.loc(bad_w[g]) if g in bad_w else '%s:%s' % (f.file, f.line),
                   'global %s is written by %s under a lock' % (g, f.name) if g not in bad_w else
                   'global %s is written by %s (reachable from scanning_thread) with no lock '
                   'held: a data race between scanning threads' % (g, f.name))
        if prints:
            ctx.ob('R18.3', '%s:stdout-under-output_mutex' % f.name, not bad_p,
                   f.loc(bad_p[0]) if bad_p else '%s:%s' % (f.file, f.line),
                   'every stdout print in %s holds output_mutex' % f.name if not bad_p else
                   '%s prints to stdout (%s) without output_mutex: the text can land inside '
                   'another thread\'s half-printed line' % (f.name, f.show(bad_p[0])[:50]))
    ctx.count('stdout_print_sites_in_thread_code', n_print)
    ctx.count('thread_reachable_cli_functions', len(reach))


def r18_4(ctx, tu):
    st = tu.functions.get('scanning_thread')
    mainf = tu.functions.get('main')
    if st is None or mainf is None:
        ctx.require(ctx.fixture, 'scanning_thread/main not found')
        return
    # does scanning_thread report an error?
    reports = [c for c in st.calls() if c.get('callee') in ('print_scanner_error', 'print_error')]
    # is that fact recorded anywhere main can see (a global / the thread args)?
    records = False
    for n in st.all_nodes():
        if n['k'] == 'bin' and n['op'] in ('=', '|=', '+='):
            l = cu.strip_casts(st, st.kid(n, 0))
            root, path = cu.member_path(st, l) if l is not None else (None, [])
            if root is not None and root['k'] == 'ref' and (
                    root.get('dk') in ('global', 'slocal') or root.get('name') == 'args'):
                # something derived from `result`
                if any(x['k'] == 'ref' and x['name'] == 'result' for x in st.walk(st.kid(n, 1))):
                    records = True
    rets = [n for n in st.all_nodes() if n['k'] == 'ret']
    const_ret = all(cu.const_of(cu.strip_casts(st, st.kid(n, 0))) is not None for n in rets if n.get('c'))
    ok = (not reports) or records or not const_ret
    ctx.ob('R18.4', 'scanning_thread:error-reaches-exit-status', ok,
           st.loc(reports[0]) if reports else '%s:%s' % (st.file, st.line),
           'a scan error printed by a worker is recorded where main can turn it into the exit status'
           if ok else
           'scanning_thread prints "error scanning <file>" and then drops the error: it returns a '
           'constant and stores nothing main reads, so `yara <rules> <dir>` exits 0 although an '
           'error was reported')
    # scan_dir's result
    for c in mainf.calls():
        if c.get('callee') == 'scan_dir':
            from .C16 import call_use
            u = call_use(mainf, c)
            ctx.ob('R18.4', 'main:scan_dir-result-used', u not in ('discarded', 'void-cast'),
                   mainf.loc(c),
                   'the result of scan_dir() reaches the exit status' if u not in ('discarded', 'void-cast')
                   else 'main drops the result of scan_dir(): errors while walking the directory '
                   'do not reach the exit status')


def r18_5(ctx, tu):
    mainf = tu.functions.get('main')
    if mainf is None:
        ctx.require(ctx.fixture, 'main not found')
        return
    creates = [c for c in mainf.calls() if c.get('callee') == 'cli_create_thread']
    ctx.require(creates, 'no cli_create_thread call in main')
    for c in creates:
        args = mainf.call_args(c)
        fn = cu.strip_casts(mainf, args[1])
        ok_fn = fn is not None and fn['k'] == 'ref' and fn['name'] == 'scanning_thread'
        a = mainf.show(cu.strip_casts(mainf, args[2]))
        loop = None
        for anc in mainf.ancestors(c):
            if anc['k'] == 'for':
                loop = anc
                break
        # the argument is &ARR[I] with I the variable the enclosing loop steps, and a
        # scanner is created into ARR[I].<field> in the same iteration
        per_iter = False
        own_scanner = False
        av = cu.strip_casts(mainf, args[2])
        if loop is not None and av is not None and av['k'] == 'un' and av['op'] == '&':
            sub = cu.strip_casts(mainf, mainf.kid(av, 0))
            if sub is not None and sub['k'] == 'sub':
                arr = mainf.show(mainf.kid(sub, 0))
                ivar = cu.strip_casts(mainf, mainf.kid(sub, 1))
                parts = loop.get('parts', [])
                inc = mainf.node(parts[2]) if len(parts) > 2 and parts[2] >= 0 else None
                stepped = [mainf.show(mainf.kid(x, 0)) for x in (mainf.walk(inc) if inc is not None else ())
                           if x['k'] == 'un' and x['op'] in ('++', 'post++')]
                if ivar is not None and ivar['k'] == 'ref' and ivar['name'] in stepped:
                    per_iter = True
                    want = '%s[%s].' % (arr, ivar['name'])
                    own_scanner = any(
                        x['k'] == 'call' and x.get('callee') == 'yr_scanner_create' and
                        want in mainf.show(mainf.call_args(x)[1])
                        for x in mainf.walk(loop))
        ctx.ob('R18.5', 'main:one-scanner-per-thread', ok_fn and per_iter and own_scanner,
               mainf.loc(c),
               'each thread gets &thread_args[i] with a scanner created in the same iteration'
               if ok_fn and per_iter and own_scanner else
               'threads no longer get private arguments/scanners (%s)' % a)


def _fx(which):
    def runner(ctx):
        cg = CallGraph(ctx.prog)
        tu = cli_tu(ctx)
        entry = entry_locksets(ctx, tu, cg)
        if which == 1:
            r18_1(ctx, tu, entry)
        elif which == 7:
            r18_7(ctx, tu, cg)
        else:
            r18_2_3(ctx, tu, cg, entry)
    return runner


FIXTURES = {
    'R18.1': {'src': 'C18/cli.c', 'run': _fx(1), 'expect': 'file_queue_get:queue_head:under-queue_mutex'},
    'R18.2': {'src': 'C18/cli.c', 'run': _fx(2), 'expect': 'handle:writes:total_count'},
    'R18.3': {'src': 'C18/cli.c', 'run': _fx(2), 'expect': 'handle:stdout-under-output_mutex'},
    'R18.7': {'src': 'C18/cli.c', 'run': _fx(7), 'expect': 'counting_thread:CB_ARGS.current_count:reset-for-every-file'},
}


def r18_6(ctx, tu):
    """the file queue is a ring in a global array: the index advances wrap at the array's
    extent, and, because "empty" is decided by comparing the two indices, the number of
    files the producer may have queued (the initial count of the semaphore it waits on)
    is smaller than the extent - a full ring would otherwise look empty and a consumer
    would take that for the end of the scan"""
    import re
    rings = {}      # array name -> {'extent': N, 'idx': set(index globals)}
    for f in tu.fn_list:
        for n in f.all_nodes():
            if n['k'] == 'sub':
                b = cu.strip_casts(f, f.kid(n, 0))
                i = cu.strip_casts(f, f.kid(n, 1))
                if b is not None and b['k'] == 'ref' and b.get('dk') in ('global', 'slocal') and \
                        i is not None and i['k'] == 'ref' and i.get('dk') in ('global', 'slocal'):
                    m = re.search(r'\[(\d+)\]$', b.get('t') or '')
                    if m:
                        r = rings.setdefault(b['name'], {'extent': int(m.group(1)), 'idx': set()})
                        r['idx'].add(i['name'])
    rings = {k: v for k, v in rings.items() if len(v['idx']) >= 2}
    ctx.require(rings or ctx.fixture, 'the file queue ring (a global array indexed by two globals) was not found')
    for arr, r in sorted(rings.items()):
        N = r['extent']
        # index advances:  X = (X + 1) % M
        for f in tu.fn_list:
            for n in f.all_nodes():
                if n['k'] == 'bin' and n['op'] == '=':
                    l = cu.strip_casts(f, f.kid(n, 0))
                    rhs = cu.strip_casts(f, f.kid(n, 1))
                    gfn = f
                    if rhs is not None and rhs['k'] == 'call' and rhs.get('callee'):
                        # the advance written once, in a helper that returns `(slot + 1) % M`
                        h = tu.functions.get(rhs['callee'])
                        rets = [x for x in h.all_nodes() if x['k'] == 'ret' and x.get('c')] if h is not None else []
                        if h is not None and getattr(h, 'static', False) and len(rets) == 1:
                            gfn, rhs = h, cu.strip_casts(h, h.kid(rets[0], 0))
                    if l is not None and l['k'] == 'ref' and l['name'] in r['idx'] and \
                            rhs is not None and rhs['k'] == 'bin' and rhs['op'] == '%':
                        M = cu.const_of(cu.strip_casts(gfn, gfn.kid(rhs, 1)))
                        ctx.ob('R18.6', '%s:%s:wraps-at-extent' % (f.name, l['name']), M == N, f.loc(n),
                               '%s wraps at %d = extent of %s' % (l['name'], N, arr) if M == N else
                               '%s wraps at %r but %s has %d elements' % (l['name'], M, arr, N))
        # emptiness by index comparison?
        empties = []
        for f in tu.fn_list:
            for n in f.all_nodes():
                if n['k'] == 'bin' and n['op'] in ('==', '!='):
                    a, b = cu.strip_casts(f, f.kid(n, 0)), cu.strip_casts(f, f.kid(n, 1))
                    if a is not None and b is not None and a['k'] == 'ref' and b['k'] == 'ref' and \
                            set([a['name'], b['name']]) <= r['idx'] and a['name'] != b['name']:
                        empties.append((f, n))
        # the producer: the function that stores into the array; the semaphore it waits on
        cap = None
        where = None
        for f in tu.fn_list:
            stores = [n for n in f.all_nodes() if n['k'] == 'bin' and n['op'] == '=' and
                      any(x['k'] == 'sub' and cu.strip_casts(f, f.kid(x, 0)) is not None and
                          cu.strip_casts(f, f.kid(x, 0)).get('name') == arr
                          for x in f.walk(f.kid(n, 0)))]
            if not stores:
                continue
            for c in f.calls():
                if c.get('callee') == 'cli_semaphore_wait':
                    a0 = cu.strip_casts(f, f.call_args(c)[0])
                    if a0 is not None and a0['k'] == 'un' and a0['op'] == '&':
                        sem = cu.strip_casts(f, f.kid(a0, 0))
                        if sem is not None and sem['k'] == 'ref':
                            for g in tu.fn_list:
                                for c2 in g.calls():
                                    if c2.get('callee') == 'cli_semaphore_init':
                                        b0 = cu.strip_casts(g, g.call_args(c2)[0])
                                        if b0 is not None and b0['k'] == 'un' and \
                                                cu.strip_casts(g, g.kid(b0, 0)).get('name') == sem['name']:
                                            cap = cu.const_of(cu.strip_casts(g, g.call_args(c2)[1]))
                                            where = g.loc(c2)
        ctx.require(cap is not None or ctx.fixture, 'capacity semaphore of the file queue not found')
        if cap is not None:
            need = cap < N if empties else cap <= N
            ctx.ob('R18.6', '%s:capacity-below-extent' % arr, need, where,
                   'at most %d files are queued in a ring of %d slots%s' % (
                       cap, N, ' (one spare: empty is head == tail)' if empties else '') if need else
                   'the producer may queue %d files in a ring of %d slots, and "empty" is decided by '
                   'comparing the indices: a full queue looks empty, a consumer takes that for the end '
                   'of the scan and the queued files are never scanned' % (cap, N))


def r18_7(ctx, tu, cg):
    """what the scan callback accumulates per file starts from scratch for every file: a
    field of the callback's user data that the callback side modifies (`current_count++`)
    is assigned inside the worker's per-file loop before the scan of each file.  Otherwise
    the figure printed for a file contains the matches of the files the same thread scanned
    before it - the output depends on how many threads share the work."""
    from ..effects import direct_effects
    prog = ctx.prog
    # the record handed to the scanner as callback user data
    recs = set()
    for f in tu.fn_list:
        for c in f.calls():
            if c.get('callee') == 'yr_scanner_set_callback':
                a = f.call_args(c)
                if len(a) > 2:
                    x = cu.strip_casts(f, a[2])
                    if x is not None and x['k'] == 'un' and x['op'] == '&':
                        x = cu.strip_casts(f, f.kid(x, 0))
                    t = (x.get('t') or '') if x is not None else ''
                    t = t.replace('struct ', '').replace('*', '').strip()
                    if t in prog.records or ('_' + t) in prog.records:
                        recs.add(t)
    ctx.require(recs or ctx.fixture, 'R18.7: callback user-data record not identified')
    workers = []
    for f in tu.fn_list:
        for c in f.calls():
            if c.get('callee') and any(a['k'] in ('while', 'for', 'do') for a in f.ancestors(c)):
                g = prog.fn(c['callee'], tu)
                tgt = [g] if g is not None else []
                names = set([c['callee']]) | set(h.name for h in (cg.reachable(tgt) if tgt else []))
                if any(nm.startswith('yr_scanner_scan_') or nm.startswith('yr_rules_scan_') for nm in names):
                    workers.append((f, c))
    n = 0
    for rec in sorted(recs):
        rnames = set([rec, '_' + rec, rec.lstrip('_')])
        wset = set(w[0].name for w in workers)
        written = {}
        for f in tu.fn_list:
            if f.name in wset or f.name in ('main', '_tmain', 'wmain'):
                continue
            for e, nd in direct_effects(f):
                if e[0] == 'field' and e[1] in rnames:
                    written.setdefault(e[2].split('.')[0].replace('[]', ''), (f, nd))
        for f, call in workers:
            for fld, (wf, wn) in sorted(written.items()):
                n += 1
                ok_at = {}

                def is_assign(x, fld=fld, f=f):
                    if x['k'] != 'bin' or x['op'] != '=':
                        return False
                    l = cu.strip_casts(f, f.kid(x, 0))
                    return l is not None and l['k'] == 'member' and l['fld'] == fld and l.get('rec') in rnames

                def step(x, facts):
                    if is_assign(x):
                        return frozenset(facts) | {'fresh'}
                    if x is call:
                        return frozenset(facts) - {'fresh'}
                    return facts

                def observe(x, facts):
                    if x is call:
                        ok_at[0] = 'fresh' in facts
                paths.must_flow(f, set(), step, None, observe)
                ok = ok_at.get(0, False)
                ctx.ob('R18.7', '%s:%s.%s:reset-for-every-file' % (f.name, rec, fld), ok, f.loc(call),
                       '%s (modified by %s) is assigned in front of the scan of every file' % (fld, wf.name)
                       if ok else
                       '%s.%s is modified by the callback side (%s, %s) and is not assigned between two '
                       'scans of this loop: what is reported for a file includes what accumulated for the '
                       'files this thread scanned before' % (rec, fld, wf.name, wf.loc(wn)))
    return n


def r18_8(ctx):
    """an external given with -d is defined the same way on source rules (through the
    compiler) and on compiled rules (on the loaded rule set): for every value type the
    two define calls of one branch get the same identifier and the same converted value.
    A conversion repaired or widened on one side only makes `yara rules.yar` and
    `yara -C rules.yarc` disagree for the same command line."""
    from .C14 import canon
    prog = ctx.prog
    n = 0
    for f in prog.fns():
        if not (f.file.startswith('cli/') or ctx.fixture):
            continue
        by_type = {}
        for c in f.calls():
            cal = c.get('callee') or ''
            for pre, side in (('yr_rules_define_', 'rules'), ('yr_compiler_define_', 'compiler')):
                if cal.startswith(pre) and cal.endswith('_variable'):
                    by_type.setdefault(cal[len(pre):-len('_variable')], {}).setdefault(side, []).append(c)
        for ty, sides in sorted(by_type.items()):
            if set(sides) != set(['rules', 'compiler']):
                continue
            for k, (a, b) in enumerate(zip(sides['rules'], sides['compiler'])):
                n += 1
                aa, ba = f.call_args(a), f.call_args(b)
                same = len(aa) > 2 and len(ba) > 2 and canon(f, aa[1]) == canon(f, ba[1]) and \
                    canon(f, aa[2]) == canon(f, ba[2])
                ctx.ob('R18.8', '%s:%s#%d:same-value-on-rules-and-compiler' % (f.name, ty, k), same, f.loc(b),
                       'both sides receive (%s, %s)' % (canon(f, aa[1]), canon(f, aa[2])[:40]) if same else
                       'the %s external is defined as %s on the rule set and as %s on the compiler: source '
                       'rules and compiled rules see different values for the same -d option' % (
                           ty, canon(f, aa[2])[:50] if len(aa) > 2 else '?',
                           canon(f, ba[2])[:50] if len(ba) > 2 else '?'))
    return n


def run(ctx):
    cg = CallGraph(ctx.prog)
    tu = cli_tu(ctx)
    entry = entry_locksets(ctx, tu, cg)
    r18_1(ctx, tu, entry)
    ctx.floor('R18.1', 6)
    r18_2_3(ctx, tu, cg, entry)
    ctx.floor('R18.3', 3)
    r18_4(ctx, tu)
    r18_5(ctx, tu)
    r18_6(ctx, tu)
    ctx.floor('R18.6', 3)
    r18_7(ctx, tu, cg)
    ctx.floor('R18.7', 1)
    r18_8(ctx)
    ctx.floor('R18.8', 4)

"""C02 — hex-string matches are exactly the documented occurrences.

Which offsets and lengths are reported for an arbitrary pattern and buffer is
decided by run-time data and is NOT decided here.  Decided are two structural
clauses (DESIGN.md §4 C01–C03):
  R2.1 chain-gap predicate: every test that joins a piece of a split pattern
       to the piece before it has the form
          end + S->chain_gap_max >= off  &&  end + S->chain_gap_min <= off
       with `end` = offset + match_length of the unconfirmed match of the
       preceding piece, S the later piece and `off` the offset of the later
       piece's match — the same predicate at all sites (a boundary change in
       one of them loses or invents matches whose gap is exactly a jump
       bound); unconfirmed matches are discarded only under
       end + gap_max < lowest offset;
  R2.2 fast matcher coverage: every node kind the hex grammar can create is
       translated by _yr_re_emit into opcodes that yr_re_fast_exec handles in
       both of its switches, unless the grammar action that creates it clears
       RE_FLAGS_FAST_REGEXP; jumps of hex strings are always non-greedy (the
       only form the fast matcher implements).
"""
from .. import bison
from .. import cfgutil as cu
from .C14 import canon
from .C03 import writer_layouts, reader_cases, _opcodes_of

LEVEL = 'other'
USES_PARSERS = True
EXPLANATION = (
    'Shape and role agreement of the chain-gap predicate at all of its sites '
    'in scan.c; exhaustiveness of the fast matcher over the opcodes that the '
    'node kinds created by hex_grammar.y translate to, with the grammar '
    'actions that clear the fast flag as the only exemption.')
ASSUMPTIONS = ['the hex grammar is read with yrsa/bison.py and matched to hex_yyparse through #line']


_MIRROR = {'<': '>', '>': '<', '<=': '>=', '>=': '<=', '==': '==', '!=': '!='}
_NEGATE = {'<': '>=', '>=': '<', '>': '<=', '<=': '>', '==': '!=', '!=': '=='}


def _gap_sites(f):
    """comparisons between `end + S->chain_gap_{max,min}` and an offset, whichever side the
    sum is written on: [(node, kind, end text, S text, rel, off text)] with rel the relation
    `end + gap  rel  off`"""
    from .C14 import _linsum
    out = []
    for n in f.all_nodes():
        if n['k'] != 'bin' or n['op'] not in _MIRROR:
            continue
        sides = [cu.strip_casts(f, f.kid(n, 0)), cu.strip_casts(f, f.kid(n, 1))]
        for i in (0, 1):
            g, o = sides[i], sides[1 - i]
            if g is None or o is None:
                continue
            gaps = [x for x in f.walk(g) if x['k'] == 'member' and x['fld'] in ('chain_gap_max', 'chain_gap_min')]
            if len(gaps) != 1 or any(x['k'] == 'member' and x['fld'].startswith('chain_gap') for x in f.walk(o)):
                continue
            ls = _linsum(f, g)
            if ls is None:
                continue
            gtxt = canon(f, gaps[0])
            if ls[0].get(gtxt) != 1 or ls[1] != 0:
                continue
            rest = sorted(t for t in ls[0] if t != gtxt)
            if len(rest) != len([t for t in rest if ls[0][t] == 1]):
                continue
            rel = n['op'] if i == 0 else _MIRROR[n['op']]
            out.append((n, 'max' if gaps[0]['fld'] == 'chain_gap_max' else 'min', ' + '.join(rest),
                        canon(f, f.kid(gaps[0], 0)), rel, canon(f, o)))
            break
    return out


def r2_1(ctx):
    """the two pieces of a split string are joined under exactly
    end + gap_max >= off && end + gap_min <= off, however the test is written: something
    in the function is reached only with both relations established (as one `&&`, as two
    early `continue`s, with the operands on either side); an unconfirmed match is dropped
    only under end + gap_max < off"""
    from .. import paths
    from .C14 import rcanon
    prog = ctx.prog
    n_sites = 0
    for f in prog.fns():
        if f.file != 'libyara/scan.c' and not ctx.fixture:
            continue
        sites = _gap_sites(f)
        if not sites:
            continue
        def loop_of(n):
            for a in f.ancestors(n):
                if a['k'] in ('while', 'for', 'do'):
                    return a['i']
            return -1
        # one group per (end, string, offset) and enclosing loop: the same test may guard two
        # different passes over the list
        sites = [s_[:2] + (s_[2], s_[3], s_[4], s_[5]) + (loop_of(s_[0]),) for s_ in sites]
        groups = {}
        for s_ in sites:
            groups.setdefault((s_[2], s_[3], s_[5], s_[6]), []).append(s_)
        by_node = {s_[0]['i']: s_ for s_ in sites}
        best = {}

        def step(n, facts):
            if n['k'] in ('call', 'ret') or (n['k'] == 'bin' and n['op'] == '='):
                for x in facts:
                    best.setdefault((x[0], x[1]), set())
                have = {}
                for x in facts:
                    have.setdefault(x[0], set()).add((x[1], x[2]))
                for g_, rels in have.items():
                    if ('max', '>=') in rels and ('min', '<=') in rels:
                        best.setdefault(g_, set()).add(n['i'])
            if n['k'] == 'bin' and n['op'].endswith('=') and n['op'] not in ('==', '!=', '<=', '>='):
                l = canon(f, f.kid(n, 0))
                return frozenset(x for x in facts if l not in (x[0][0].split(' + ') + [x[0][2]]) and
                                 not x[0][0].startswith(l + '->'))
            if n['k'] == 'ret':
                return None
            return facts

        def edge(b, term, cond, idx, succ, facts):
            pol = paths.branch_polarity(f, term, idx)
            if pol is None or cond is None:
                return facts
            c, p2 = paths.normalise_cond(f, cond, pol)
            c = cu.strip_casts(f, c) if c is not None else None
            if c is None or c['i'] not in by_node:
                return facts
            s_ = by_node[c['i']]
            rel = s_[4] if p2 else _NEGATE[s_[4]]
            g_ = (s_[2], s_[3], s_[5], s_[6])
            return frozenset(x for x in facts if not (x[0] == g_ and x[1] == s_[1])) | {(g_, s_[1], rel)}
        joins_ok = set()
        try:
            paths.explore(f, set(), step, edge, max_states=20000)
            joins_ok = set(g_ for g_, nodes in best.items() if isinstance(g_, tuple) and len(g_) == 4 and nodes)
        except paths.Budget:
            ctx.note('R2.1 %s: state budget exceeded' % f.name)
        k = 0
        for g_, members in sorted(groups.items(), key=lambda kv: min(m[0].get('l', 0) for m in kv[1])):
            kinds = set(m[1] for m in members)
            end, S, off = g_[:3]
            node = members[0][0]
            if kinds == set(['max', 'min']):
                n_sites += 1
                key = '%s:join%d' % (f.name, k)
                k += 1
                ok = g_ in joins_ok
                ctx.ob('R2.1', key + ':predicate', ok, f.loc(node),
                       '%s + %s->chain_gap_max >= %s && %s + %s->chain_gap_min <= %s guards the join' % (
                           end, S, off, end, S, off) if ok else
                       'the chain-gap tests here are %s: nothing is reached under exactly end + gap_max >= '
                       'off && end + gap_min <= off over the same end, string and offset' % ' ; '.join(
                           '%s + %s->chain_gap_%s %s %s' % (m[2], m[3], m[1], m[4], m[5]) for m in members))
                if not ok:
                    continue
                # `end` is offset + match_length of the iterated unconfirmed match
                defs = [n for n in f.all_nodes() if ((n['k'] == 'bin' and n['op'] == '=' and
                                                      canon(f, f.kid(n, 0)) == end) or
                                                     (n['k'] == 'decl' and n['name'] == end and n.get('c')))]
                good = bool(defs)
                M = None
                parts = end.split(' + ')
                if not defs and len(parts) == 2:
                    # the sum itself (a local naming it was looked through)
                    heads = set(p_.rsplit('->', 1)[0] for p_ in parts if '->' in p_)
                    flds = set(p_.rsplit('->', 1)[1] for p_ in parts if '->' in p_)
                    if len(heads) == 1 and flds == set(['offset', 'match_length']):
                        good, M = True, list(heads)[0]
                for d in defs:
                    r = cu.strip_casts(f, f.kid(d, 1) if d['k'] == 'bin' else f.kid(d, 0))
                    if r is None or r['k'] != 'bin' or r['op'] != '+':
                        good = False
                        continue
                    a_, b_ = cu.strip_casts(f, f.kid(r, 0)), cu.strip_casts(f, f.kid(r, 1))
                    if a_ is None or b_ is None or a_['k'] != 'member' or b_['k'] != 'member' or \
                            set([a_['fld'], b_['fld']]) != set(['offset', 'match_length']) or \
                            canon(f, f.kid(a_, 0)) != canon(f, f.kid(b_, 0)):
                        good = False
                    else:
                        M = canon(f, f.kid(a_, 0))
                ctx.ob('R2.1', key + ':end-is-offset-plus-length', good, f.loc(defs[0]) if defs else f.loc(node),
                       '%s = %s->offset + %s->match_length' % (end, M, M) if good else
                       '%s is not computed as offset + match_length of one match at every definition' % end)
                # the iterated match comes from the unconfirmed list of S->chained_to
                src = [n for n in f.all_nodes() if n['k'] == 'bin' and n['op'] == '=' and M and
                       canon(f, f.kid(n, 0)) == M and 'unconfirmed_matches' in canon(f, f.kid(n, 1))]
                ok2 = bool(src) and any(('[%s->chained_to->idx]' % S) in rcanon(f, f.kid(n, 1)) for n in src)
                ctx.ob('R2.1', key + ':joins-preceding-piece', ok2, f.loc(src[0]) if src else f.loc(node),
                       '%s walks the unconfirmed matches of %s->chained_to' % (M, S) if ok2 else
                       'the match compared against %s does not come from unconfirmed_matches[%s->chained_to->idx]'
                       % (S, S))
            else:
                for m in members:
                    n_sites += 1
                    key = '%s:discard' % f.name
                    # the edge on which the match is dropped: the comparison as written, taken true
                    ok = m[1] == 'max' and m[4] == '<'
                    ctx.ob('R2.1', key + ':only-when-out-of-reach', ok, f.loc(m[0]),
                           'an unconfirmed match is dropped only when %s + %s->chain_gap_max < %s' % (m[2], m[3], m[5])
                           if ok else
                           'an unconfirmed match is dropped under %s + %s->chain_gap_%s %s %s: matches still '
                           'reachable by a later piece are lost' % (m[2], m[3], m[1], m[4], m[5]))
    ctx.count('chain_gap_sites', n_sites)
    ctx.require(n_sites >= 4 or ctx.fixture, 'only %d chain-gap tests found in scan.c' % n_sites)


def r2_2(ctx):
    prog = ctx.prog
    text = prog.text('libyara/hex_grammar.y')
    p = prog.fn('hex_yyparse', 'libyara/hex_grammar.c')
    emit = prog.fn('_yr_re_emit', 'libyara/re.c')
    fast = prog.fn('yr_re_fast_exec', 'libyara/re.c')
    if text is None or p is None or emit is None or fast is None:
        ctx.require(ctx.fixture, 'hex grammar / emitter / fast matcher not available')
        return
    actions, destruct, typed = bison.parse(text)
    # node kinds per grammar action, and whether the action clears the fast flag
    fast_flag = prog.macro_value('RE_FLAGS_FAST_REGEXP')
    from .C07 import _groups_by_line
    sw, groups = _groups_by_line(ctx, p)
    created = {}
    for labels, stmts in groups:
        nodes = list(cu.group_nodes(p, stmts))
        lines = [n.get('l') for n in nodes if n.get('l') and p.nfile(n).endswith('hex_grammar.y')]
        if not lines:
            continue
        act = None
        for a in actions:
            if a.start_line <= min(lines) <= a.end_line:
                act = a
        clears = any(n['k'] == 'bin' and n['op'] == '&=' and canon(p, f_kid(p, n, 0)).endswith('->flags')
                     and cu.const_of(cu.strip_casts(p, p.kid(n, 1))) is not None and
                     fast_flag is not None and
                     (cu.const_of(cu.strip_casts(p, p.kid(n, 1))) & fast_flag) == 0 for n in nodes)
        for n in nodes:
            if n['k'] == 'call' and n.get('callee') == 'yr_re_node_create':
                a = cu.strip_casts(p, p.call_args(n)[0])
                if a is not None and a.get('mn', '').startswith('RE_NODE_'):
                    created.setdefault(a['mn'], []).append((n, act, clears))
    ctx.require(len(created) >= 7 or ctx.fixture, 'only %d node kinds created by the hex grammar' % len(created))
    # greedy is forced to false for every range of a hex string
    ranges = [a for a in actions if 'range' in a.symbols and a.final]
    forced = False
    for labels, stmts in groups:
        nodes = list(cu.group_nodes(p, stmts))
        lines = [n.get('l') for n in nodes if n.get('l') and p.nfile(n).endswith('hex_grammar.y')]
        if not lines:
            continue
        for a in ranges:
            if a.start_line <= min(lines) <= a.end_line:
                if any(n['k'] == 'bin' and n['op'] == '=' and canon(p, p.kid(n, 0)).endswith('->greedy') and
                       cu.const_of(cu.strip_casts(p, p.kid(n, 1))) == 0 for n in nodes):
                    forced = True
    users = set((a.lhs, a.alt_index) for a in actions if 'range' in a.symbols)
    ok = forced and len(users) == 1
    ctx.ob('R2.2', 'hex:ranges-are-non-greedy', ok, 'libyara/hex_grammar.y',
           'the only production that uses `range` (%s) sets ->greedy = false' % sorted(users) if ok else
           'a jump of a hex string can reach the emitter with greedy set (productions using `range`: '
           '%s): the fast matcher only implements the non-greedy jump' % sorted(users))
    # opcodes per node kind
    per_kind = {}
    for sw2 in cu.find_switches(emit):
        c = cu.switch_cond(emit, sw2)
        if c is None or not canon(emit, c).endswith('->type'):
            continue
        for labels, stmts in cu.switch_groups(emit, sw2):
            kinds = [l.get('mn') for l in labels if l['k'] == 'case' and l.get('mn')]
            ops = set()
            for n in cu.group_nodes(emit, stmts):
                if n['k'] == 'call' and n.get('callee', '').startswith('_yr_emit_'):
                    o = cu.strip_casts(emit, emit.call_args(n)[1])
                    if o is not None and o['k'] == 'cond' and canon(emit, emit.kid(o, 0)).endswith('->greedy') \
                            and ok:
                        ops |= set(_opcodes_of(emit, emit.kid(o, 2)))     # greedy == false arm
                    else:
                        ops |= set(_opcodes_of(emit, o))
            for kd in kinds:
                per_kind[kd] = ops
    fast_cases = [set(), set()]
    groups_f = [g for g in reader_cases(ctx, fast)]
    sws = []
    from .C03 import opcode_switches
    for sw3 in opcode_switches(ctx, fast):
        if True:
            s = set()
            for labels, stmts in cu.switch_groups(fast, sw3):
                s |= set(l.get('mn') for l in labels if l['k'] == 'case' and l.get('mn') and
                         l.get('v') == prog.macro_value(l['mn']))
            sws.append(s)
    ctx.require(len(sws) == 2 or ctx.fixture, 'yr_re_fast_exec has %d opcode switches, expected 2 '
                '(execution and instruction-pointer advance)' % len(sws))
    for kd, lst in sorted(created.items()):
        n, act, clears = lst[0]
        all_clear = all(x[2] for x in lst)
        ops = per_kind.get(kd)
        if ops is None:
            ctx.ob('R2.2', 'hex:%s:emitted' % kd, kd in ('RE_NODE_EMPTY',), p.loc(n),
                   '%s has no case in _yr_re_emit' % kd)
            continue
        missing = sorted(o for o in ops if o and any(o not in s for s in sws))
        if all_clear:
            ctx.ob('R2.2', 'hex:%s:clears-fast-flag' % kd, True, p.loc(n),
                   'every action creating %s clears RE_FLAGS_FAST_REGEXP: the general executor runs' % kd)
            continue
        ctx.ob('R2.2', 'hex:%s:fast-matcher-handles' % kd, not missing, p.loc(n),
               '%s -> %s, all handled by both switches of yr_re_fast_exec' % (
                   kd, ', '.join(sorted(o for o in ops if o)) or 'no opcode') if not missing else
               '%s is created by the hex grammar without clearing RE_FLAGS_FAST_REGEXP, it is '
               'emitted as %s, which yr_re_fast_exec does not handle: the fast matcher aborts on '
               'this pattern' % (kd, ', '.join(missing)))
    # MATCH terminator
    ctx.ob('R2.2', 'hex:RE_OPCODE_MATCH:fast-matcher-handles', all('RE_OPCODE_MATCH' in s for s in sws[:1]),
           '%s:%s' % (fast.file, fast.line), 'the terminating RE_OPCODE_MATCH is handled')


def r2_3(ctx):
    """a fiber that moves past a jump instruction leaves its repetition counter
    reset: the counter belongs to the jump it was spinning in, the next jump must
    start counting from zero"""
    prog = ctx.prog
    f = prog.fn('_yr_re_fiber_sync', 'libyara/re.c')
    if f is None:
        ctx.require(ctx.fixture, '_yr_re_fiber_sync not found')
        return
    n = 0
    for ops, nodes, labels in reader_cases(ctx, f):
        if not any(o and 'REPEAT_ANY' in o for o in ops):
            continue
        for x in nodes:
            if x['k'] == 'bin' and x['op'] == '+=':
                l = cu.strip_casts(f, f.kid(x, 0))
                if l is None or l['k'] != 'member' or l['fld'] != 'ip':
                    continue
                if cu.const_of(cu.strip_casts(f, f.kid(x, 1))) is None:
                    continue
                fib = canon(f, f.kid(l, 0))
                blk = None
                for a in f.ancestors(x):
                    if a['k'] == 'compound':
                        blk = a
                        break
                reset = blk is not None and any(
                    y['k'] == 'bin' and y['op'] == '=' and canon(f, f.kid(y, 0)) == '%s->rc' % fib and
                    cu.const_of(cu.strip_casts(f, f.kid(y, 1))) == -1 for y in f.walk(blk))
                ctx.ob('R2.3', '_yr_re_fiber_sync:%s-leaves-jump#%d:counter-reset' % (fib, n), reset, f.loc(x),
                       '%s moves past the jump with rc = -1' % fib if reset else
                       '%s->ip moves past the jump instruction here but %s->rc keeps the number of bytes '
                       'already skipped: the next jump on that path starts counting from there and its '
                       'bounds shift' % (fib, fib))
                n += 1
    ctx.count('jump_exits', n)


def _bit_test(f, c):
    """(lvalue text, mask) when c is `X & CONST`"""
    c = cu.strip_casts(f, c)
    if c is None or c['k'] != 'bin' or c['op'] != '&':
        return None
    m = cu.const_of(cu.strip_casts(f, f.kid(c, 1)))
    if m is None:
        return None
    return canon(f, f.kid(c, 0)), m


def r2_4(ctx):
    """what a string's parser decides about the whole expression reaches the scanner: the
    scanner rebuilds the flags it hands to the regexp VM from the string's flags
    (`if (STRING_IS_DOT_ALL(s)) flags |= RE_FLAGS_DOT_ALL`), so for every such pair whose
    regexp flag a parser can put on the AST, yr_parser_reduce_string_declaration sets the
    string flag on every path that ran that parser - unconditionally, or under a test of the
    AST flag.  Hex strings are DOT_ALL by construction (`??` and jumps match every byte);
    if the string flag is lost, `{ 11 ( 22 | 33 ) ?? 44 }` stops matching when the wildcard
    byte is a newline."""
    from .. import paths
    prog = ctx.prog
    sc = [g for g in prog.fns() if g.file == 'libyara/scan.c' or ctx.fixture]
    pairs = {}
    for g in sc:
        for n in g.all_nodes():
            if n['k'] != 'if':
                continue
            bt = _bit_test(g, g.kid(n, 0))
            if bt is None or not bt[0].endswith('->flags'):
                continue
            then = g.kids(n)[1] if len(g.kids(n)) > 1 else None
            for x in (g.walk(then) if then is not None else ()):
                if x['k'] == 'bin' and x['op'] == '|=':
                    r = cu.strip_casts(g, g.kid(x, 1))
                    if r is not None and (r.get('mn') or '').startswith('RE_FLAGS_'):
                        pairs[cu.const_of(r)] = (bt[1], r['mn'])
        # the same as a conditional expression: (STRING_IS_X(s) ? RE_FLAGS_Y : 0)
        for n in g.all_nodes():
            if n['k'] != 'cond':
                continue
            bt = _bit_test(g, g.kid(n, 0))
            if bt is None or not bt[0].endswith('->flags'):
                continue
            a1, a2 = cu.strip_casts(g, g.kid(n, 1)), cu.strip_casts(g, g.kid(n, 2))
            if a1 is not None and (a1.get('mn') or '').startswith('RE_FLAGS_') and cu.const_of(a2) == 0:
                pairs[cu.const_of(a1)] = (bt[1], a1['mn'])
    ctx.require(len(pairs) >= 2 or ctx.fixture, 'scanner-side flag reconstruction not found')
    # which parser entry can put which RE_FLAGS_* on the AST
    red = prog.fn('yr_parser_reduce_string_declaration', 'libyara/parser.c')
    ctx.require(red is not None or ctx.fixture, 'yr_parser_reduce_string_declaration not found')
    if red is None:
        return 0
    from ..callgraph import CallGraph
    cg = CallGraph(prog)
    entries = {}
    for c in red.calls():
        cal = c.get('callee') or ''
        if not cal.startswith('yr_re_parse'):
            continue
        g0 = prog.fn(cal)
        if g0 is None:
            continue
        sets = set()
        for h in cg.reachable([g0]):
            for n in h.all_nodes():
                if n['k'] == 'bin' and n['op'] == '|=':
                    l = cu.strip_casts(h, h.kid(n, 0))
                    r = cu.strip_casts(h, h.kid(n, 1))
                    if l is not None and l['k'] == 'member' and l['fld'] == 'flags' and \
                            l.get('rec') in ('RE_AST', '_RE_AST') and r is not None and cu.const_of(r) in pairs:
                        sets.add(cu.const_of(r))
        entries[c['i']] = (cal, sets)
    ctx.require(entries or ctx.fixture, 'no call of a string parser in yr_parser_reduce_string_declaration')
    sinks = [c for c in red.calls() if c.get('callee') == '_yr_parser_write_string']
    ctx.require(sinks or ctx.fixture, 'no call of _yr_parser_write_string')
    missing = {}

    def bits_after(facts, X, op, K):
        out = set()
        for x in facts:
            if x[0] == 'bit' and x[1] == X:
                if op == '|=' and K is not None:
                    if x[2] & K == 0:
                        out.add(x)
                    elif x[2] & K == x[2]:
                        out.add(('bit', X, x[2], True))
                    continue
                if op == '&=' and K is not None:
                    if x[2] & ~K == 0:
                        out.add(x)
                    continue
                continue
            out.add(x)
        return out

    def step(n, facts):
        if n['k'] == 'bin' and n['op'].endswith('=') and n['op'] not in ('==', '!=', '<=', '>='):
            X = canon(red, red.kid(n, 0))
            K = cu.const_of(cu.strip_casts(red, red.kid(n, 1)))
            facts = frozenset(bits_after(facts, X, n['op'], K))
            if n['op'] == '|=' and K is not None and X.endswith('flags'):
                for rv, (sv, rn) in pairs.items():
                    if K & sv == sv and 're_ast' not in X and 'RE_AST' not in (cu.strip_casts(red, red.kid(n, 0)).get('rec') or ''):
                        facts = facts | {('set', rv)}
        if n['k'] == 'call' and n['i'] in entries:
            facts = frozenset(x for x in facts if x[0] != 'ran') | {('ran', n['i'])}
        if n['k'] == 'call' and n.get('callee') == '_yr_parser_write_string':
            ran = [x[1] for x in facts if x[0] == 'ran']
            for e in ran:
                for rv in entries[e][1]:
                    if ('set', rv) not in facts and ('noast', rv) not in facts:
                        missing.setdefault((entries[e][0], rv), n)
        if n['k'] == 'ret':
            return None
        return facts

    def edge(b, term, cond, idx, succ, facts):
        pol = paths.branch_polarity(red, term, idx)
        if pol is None or cond is None:
            return facts
        bo = paths.bit_test_outcome(red, cond, pol)
        if bo is None:
            return facts
        X, m, p2 = canon(red, bo[0]), bo[1], bo[2]
        for x in facts:
            if x[0] == 'bit' and x[1] == X and x[2] == m and x[3] != p2:
                return None                     # the same bit was found the other way round
        facts = frozenset(facts) | {('bit', X, m, p2)}
        if not p2 and m in pairs and ('re_ast' in X or 'ast' in X.lower()):
            facts = facts | {('noast', m)}
        return facts
    try:
        paths.explore(red, set(), step, edge, max_states=200000)
    except paths.Budget:
        ctx.require(False, 'R2.4: state budget exceeded')
    n = 0
    for e, (cal, sets) in sorted(entries.items()):
        for rv in sorted(sets):
            n += 1
            sv, rn = pairs[rv]
            bad = missing.get((cal, rv))
            ctx.ob('R2.4', '%s:%s:reaches-the-string-flags' % (cal, rn), bad is None,
                   red.loc(bad) if bad is not None else red.loc(red.node(e)),
                   'on every path through %s the string flag the scanner turns into %s is set, or the AST '
                   'was found not to carry it' % (cal, rn) if bad is None else
                   '%s can put %s on the AST, the scanner rebuilds it from the string flag 0x%x, and a path '
                   'from that parser to the writing of the string sets neither: the VM runs the string '
                   'without %s' % (cal, rn, sv, rn))
    return n


def f_kid(f, n, i):
    return f.kid(n, i)


FIXTURES = {
    'R2.1': {'src': 'C02/chain.c', 'run': r2_1, 'expect': 'confirm_bad:join0:predicate',
             'expect_ok': 'confirm_good:join0:predicate'},
}


def run(ctx):
    r2_1(ctx)
    ctx.floor('R2.1', 4)
    r2_2(ctx)
    ctx.floor('R2.2', 9)
    r2_3(ctx)
    ctx.floor('R2.3', 2)
    r2_4(ctx)
    ctx.floor('R2.4', 2)

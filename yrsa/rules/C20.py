"""C20 — external variables are typed, scoped and isolated.

Decides (DESIGN.md §4 C20):
  R20.1 in every define function (4 rules-level, 4 scanner-level, the
        compiler-level helper and its 4 front ends) the store of the value is
        reached only after the type comparison for that API's type succeeded;
        the failing edge returns ERROR_INVALID_EXTERNAL_VARIABLE_TYPE; the
        not-found exit returns ERROR_INVALID_ARGUMENT; the compiler level
        rejects duplicates before it allocates anything; nothing is stored
        before the checks ("change nothing");
  R20.2 everything reachable from yr_scanner_define_* writes no shared
        rule-data record (only the scanner's own objects);
  R20.3 yr_scanner_create snapshots every external by value (shared with C09);
  R20.4 each define front end stores into the union member and sets the type
        constant that belong to its API type (sibling table).
Overlap: the compile-time freeze of externals is C12/R12.3; the save crash
after a rules-level string define is C08/R8.3.
Not decided: precedence among the three levels as a history property.
"""
from .. import cfgutil as cu
from .. import paths
from ..callgraph import CallGraph
from ..effects import Effects
from .C09 import SHARED_TYPES, r9_4

LEVEL = 'other'
EXPLANATION = (
    'Path-sensitive must-pass rule over the define functions: the value store '
    'is reachable only through the edge on which the stored type equals the '
    'API\'s type; effect analysis of the scanner-level defines against the '
    'shared record types; sibling table of type constant vs union member.')
ASSUMPTIONS = ['boolean externals are integers at scanner level (both OBJECT_TYPE_INTEGER): '
               'recorded as information, the scanner level cannot tell them apart']

RULES_LEVEL = {
    'yr_rules_define_integer_variable': (('EXTERNAL_VARIABLE_TYPE_INTEGER',), 'i'),
    'yr_rules_define_boolean_variable': (('EXTERNAL_VARIABLE_TYPE_BOOLEAN',), 'i'),
    'yr_rules_define_float_variable': (('EXTERNAL_VARIABLE_TYPE_FLOAT',), 'f'),
    'yr_rules_define_string_variable': (('EXTERNAL_VARIABLE_TYPE_STRING',
                                         'EXTERNAL_VARIABLE_TYPE_MALLOC_STRING'), 's'),
}
SCANNER_LEVEL = {
    'yr_scanner_define_integer_variable': (('OBJECT_TYPE_INTEGER',), 'yr_object_set_integer'),
    'yr_scanner_define_float_variable': (('OBJECT_TYPE_FLOAT',), 'yr_object_set_float'),
    'yr_scanner_define_string_variable': (('OBJECT_TYPE_STRING',), 'yr_object_set_string'),
}
COMPILER_LEVEL = {
    'yr_compiler_define_integer_variable': ('EXTERNAL_VARIABLE_TYPE_INTEGER', 'i'),
    'yr_compiler_define_boolean_variable': ('EXTERNAL_VARIABLE_TYPE_BOOLEAN', 'i'),
    'yr_compiler_define_float_variable': ('EXTERNAL_VARIABLE_TYPE_FLOAT', 'f'),
    'yr_compiler_define_string_variable': ('EXTERNAL_VARIABLE_TYPE_STRING', 's'),
}


def _lookup_helper_summary(ctx, h, type_field_rec):
    """h is a static helper that looks an object up and checks its type against one
    of its parameters: returns {'type_param': index, 'mismatch_ok', 'unknown_ok'} when
    every path returning 0 established `<obj>->type == <param>`, else None"""
    prog = ctx.prog
    EINV = prog.macro_value('ERROR_INVALID_EXTERNAL_VARIABLE_TYPE')
    EARG = prog.macro_value('ERROR_INVALID_ARGUMENT')
    pn = [p['name'] for p in h.params]
    succ_params = []
    mismatch = {'seen': False, 'bad': False}
    unknown = {'seen': False, 'bad': False}

    def is_type(n):
        n = cu.strip_casts(h, n)
        return n is not None and n['k'] == 'member' and n['fld'] == 'type' and n.get('rec') in type_field_rec

    def step(n, facts):
        if n['k'] == 'ret':
            v = cu.const_of(cu.strip_casts(h, h.kid(n, 0))) if n.get('c') else None
            if v == 0:
                succ_params.append(set(x[1] for x in facts if isinstance(x, tuple) and x[0] == 'teqp'))
            if any(isinstance(x, tuple) and x[0] == 'tnep' for x in facts):
                mismatch['seen'] = True
                if v != EINV:
                    mismatch['bad'] = True
            if 'null' in facts:
                unknown['seen'] = True
                if v != EARG:
                    unknown['bad'] = True
            return None
        return facts

    def edge(b, term, cond, idx, succ, facts):
        pol = paths.branch_polarity(h, term, idx)
        if pol is None or cond is None:
            return facts
        c, pol = paths.normalise_cond(h, cond, pol)
        if c is None or c['k'] != 'bin' or c['op'] not in ('==', '!='):
            return facts
        a, bb = h.kid(c, 0), h.kid(c, 1)
        for x, y in ((a, bb), (bb, a)):
            ys = cu.strip_casts(h, y)
            if is_type(x) and ys is not None and ys['k'] == 'ref' and ys['name'] in pn:
                eq = (c['op'] == '==') == pol
                return frozenset(facts) | {('teqp' if eq else 'tnep', ys['name'])}
            xs = cu.strip_casts(h, x)
            if xs is not None and xs['k'] in ('ref', 'un') and cu.const_of(ys) == 0 and \
                    ('*' in (xs.get('t') or '') or xs['k'] == 'un'):
                if (c['op'] == '==') == pol:
                    return frozenset(facts) | {'null'}
        return facts
    try:
        paths.explore(h, set(), step, edge, max_states=256)
    except paths.Budget:
        return None
    if not succ_params:
        return None
    common = set.intersection(*succ_params)
    if len(common) != 1:
        return None
    return {'type_param': pn.index(list(common)[0]), 'mismatch_ok': mismatch['seen'] and not mismatch['bad'],
            'unknown_ok': unknown['seen'] and not unknown['bad'], 'fn': h}


def _type_guarded_store(ctx, f, is_store, allowed_vals, type_field_rec):
    """explore f: returns (stores seen, bad stores, wrong-type exits)"""
    prog = ctx.prog
    EINV = prog.macro_value('ERROR_INVALID_EXTERNAL_VARIABLE_TYPE')
    bad = []
    stores = []
    wrong_exit = []
    seen_mismatch = [False]
    helpers = {}
    for c in f.calls():
        h = f.tu.functions.get(c.get('callee', '')) if c.get('callee') else None
        if h is not None and getattr(h, 'static', False):
            sm = _lookup_helper_summary(ctx, h, type_field_rec)
            if sm is not None:
                a = f.call_args(c)
                v = cu.const_of(cu.strip_casts(f, a[sm['type_param']])) if sm['type_param'] < len(a) else None
                if v is not None:
                    helpers[c['i']] = (sm, v)
    _type_guarded_store.helpers = helpers

    def helper_of(expr):
        e = cu.strip_casts(f, expr)
        if e is not None and e['k'] == 'call' and e['i'] in helpers:
            return helpers[e['i']]
        if e is not None and e['k'] == 'ref':
            for d in f.all_nodes():
                if d['k'] == 'decl' and d['name'] == e['name'] and d.get('c'):
                    r0 = cu.strip_casts(f, f.kid(d, 0))
                    if r0 is not None and r0['k'] == 'call' and r0['i'] in helpers:
                        return helpers[r0['i']]
        return None

    def step(n, facts):
        if is_store(n):
            stores.append(n)
            ok = any(isinstance(x, tuple) and x[0] == 'teq' and x[1] in allowed_vals for x in facts)
            if not ok:
                bad.append(n)
            return facts
        if n['k'] == 'ret':
            if 'tne' in facts:
                seen_mismatch[0] = True
                v = cu.const_of(cu.strip_casts(f, f.kid(n, 0))) if n.get('c') else None
                if v != EINV:
                    wrong_exit.append(n)
            return None
        return facts

    def is_type(n):
        n = cu.strip_casts(f, n)
        return n is not None and n['k'] == 'member' and n['fld'] == 'type' and \
            n.get('rec') in type_field_rec

    def edge(b, term, cond, idx, succ, facts):
        pol = paths.branch_polarity(f, term, idx)
        if pol is None or cond is None:
            return facts
        c, pol = paths.normalise_cond(f, cond, pol)
        if c is None or c['k'] != 'bin' or c['op'] not in ('==', '!='):
            return facts
        a, bb = f.kid(c, 0), f.kid(c, 1)
        # FAIL_ON_ERROR(helper(.., TYPE, &obj)): on the success edge the helper compared the type
        hp = helper_of(a)
        if hp is not None and cu.const_of(cu.strip_casts(f, bb)) == 0:
            if (c['op'] == '==') == pol:
                return frozenset(z for z in facts if z != 'tne') | {('teq', hp[1])}
            return facts        # the helper's own error code is propagated
        for x, y in ((a, bb), (bb, a)):
            if is_type(x):
                v = cu.const_of(cu.strip_casts(f, y))
                if v is None:
                    continue
                eq = (c['op'] == '==') == pol
                if eq:
                    return frozenset(z for z in facts if z != 'tne' and not (
                        isinstance(z, tuple) and z[0] == 'tneq')) | {('teq', v)}
                # not equal to v: a mismatch once every allowed value is excluded
                ne = set(z[1] for z in facts if isinstance(z, tuple) and z[0] == 'tneq') | {v}
                out = frozenset(facts) | {('tneq', v)}
                if set(allowed_vals) <= ne:
                    out = out | {'tne'}
                return out
        return facts
    paths.explore(f, set(), step, edge, max_states=128)
    return stores, bad, wrong_exit, seen_mismatch[0]


def r20_1(ctx):
    prog = ctx.prog
    EARG = prog.macro_value('ERROR_INVALID_ARGUMENT')
    for fname, (types, member) in sorted(RULES_LEVEL.items()):
        f = ctx.fn(fname, 'libyara/rules.c')
        vals = [prog.macro_value(t) for t in types]
        ctx.require(None not in vals, 'type constants of %s not evaluable' % fname)

        def is_store(n, f=f):
            if n['k'] == 'bin' and n['op'] == '=':
                l = cu.strip_casts(f, f.kid(n, 0))
                if l is not None and l['k'] == 'member':
                    root, path = cu.member_path(f, l)
                    if root is not None and 'YR_EXTERNAL_VARIABLE' in (root.get('t') or '') and \
                            path and path[0] in ('value', 'type'):
                        return True
            if n['k'] == 'call' and n.get('callee') == 'yr_free':
                return True
            return False
        stores, bad, wrong, mism = _type_guarded_store(ctx, f, is_store, vals, ('YR_EXTERNAL_VARIABLE',))
        if not stores:
            # the function stores nothing itself: it may hand the definition to a sibling
            # API function, which is correct only if that sibling admits exactly this
            # function's types (the scanner-level boolean does this: OBJECT_TYPE_INTEGER
            # is the scanner's representation of both)
            sib = [c for c in f.calls() if c.get('callee') in RULES_LEVEL and c['callee'] != fname]
            if sib:
                stypes = RULES_LEVEL[sib[0]['callee']][0]
                same = set(stypes) == set(types)
                ctx.ob('R20.1', '%s:type-check-dominates-store' % fname, same, f.loc(sib[0]),
                       'delegates to %s, which admits the same stored types' % sib[0]['callee'] if same else
                       '%s hands the definition to %s, which compares the stored type with %s, not '
                       'with %s: a definition of the right type is rejected and one of the wrong '
                       'type is accepted' % (fname, sib[0]['callee'], '/'.join(stypes), '/'.join(types)))
                continue
        ctx.require(stores, '%s: no value store recognised' % fname)
        ctx.ob('R20.1', '%s:type-check-dominates-store' % fname, not bad,
               f.loc(bad[0]) if bad else '%s:%s' % (f.file, f.line),
               'every store of the value is reached only after the stored type was compared '
               'equal to %s' % '/'.join(types) if not bad else
               '%s modifies the external on a path where its type was not compared with %s: '
               'a definition with an incompatible type is not rejected (or changes something '
               'before being rejected)' % (f.show(bad[0])[:50], '/'.join(types)))
        ctx.ob('R20.1', '%s:mismatch-returns-type-error' % fname, mism and not wrong,
               f.loc(wrong[0]) if wrong else '%s:%s' % (f.file, f.line),
               'a type mismatch returns ERROR_INVALID_EXTERNAL_VARIABLE_TYPE' if mism and not wrong
               else 'the type-mismatch exit does not return ERROR_INVALID_EXTERNAL_VARIABLE_TYPE')
        # unknown identifier: the fall-through return
        last = [n for n in f.all_nodes() if n['k'] == 'ret']
        last.sort(key=lambda n: n.get('l', 0))
        v = cu.const_of(cu.strip_casts(f, f.kid(last[-1], 0))) if last else None
        ctx.ob('R20.1', '%s:unknown-identifier-returns-invalid-argument' % fname, v == EARG,
               f.loc(last[-1]) if last else f.file,
               'an identifier that is not found returns ERROR_INVALID_ARGUMENT' if v == EARG else
               'the not-found exit returns %r' % v)
    if ctx.fixture:
        return
    for fname, (types, setter) in sorted(SCANNER_LEVEL.items()):
        f = ctx.fn(fname, 'libyara/scanner.c')
        vals = [prog.macro_value(t) for t in types]

        def is_store(n, f=f):
            return n['k'] == 'call' and n.get('callee', '').startswith('yr_object_set_')
        stores, bad, wrong, mism = _type_guarded_store(ctx, f, is_store, vals,
                                                       ('YR_OBJECT',))
        ctx.require(stores, '%s: no value store recognised' % fname)
        right_setter = all(s.get('callee') == setter for s in stores)
        ctx.ob('R20.1', '%s:type-check-dominates-store' % fname, not bad and right_setter,
               f.loc(bad[0]) if bad else '%s:%s' % (f.file, f.line),
               'the object is set only after its type was compared equal to %s' % '/'.join(types)
               if not bad and right_setter else
               'the scanner object is set without its type having been compared with %s%s' % (
                   '/'.join(types), '' if right_setter else ' (or through the wrong setter)'))
        hs = list(getattr(_type_guarded_store, 'helpers', {}).values())
        if hs and not mism:
            mism = all(h_[0]['mismatch_ok'] for h_ in hs)
        ctx.ob('R20.1', '%s:mismatch-returns-type-error' % fname, mism and not wrong,
               f.loc(wrong[0]) if wrong else '%s:%s' % (f.file, f.line),
               'a type mismatch returns ERROR_INVALID_EXTERNAL_VARIABLE_TYPE' if mism and not wrong
               else 'the type-mismatch exit does not return ERROR_INVALID_EXTERNAL_VARIABLE_TYPE')
        # unknown identifier: obj == NULL -> ERROR_INVALID_ARGUMENT
        ok = bool(hs) and all(h_[0]['unknown_ok'] for h_ in hs)
        # the looked-up object: the variable that receives the table lookup's result
        lks = [c_ for c_ in f.calls() if (c_.get('callee') or '').startswith('yr_hash_table_lookup')]
        objv = None
        if lks:
            hold = paths.value_holder(f, lks[0])
            objv = hold[1] if hold[0] == 'var' else None
        for n in f.all_nodes():
            if n['k'] == 'if' and objv is not None:
                c = cu.strip_casts(f, f.kid(n, 0))
                isnull = False
                if c is not None and c['k'] == 'bin' and c['op'] == '==':
                    for x, y in ((f.kid(c, 0), f.kid(c, 1)), (f.kid(c, 1), f.kid(c, 0))):
                        xs = cu.strip_casts(f, x)
                        if xs is not None and xs['k'] == 'ref' and xs['name'] == objv and \
                                cu.const_of(cu.strip_casts(f, y)) == 0:
                            isnull = True
                elif c is not None and c['k'] == 'un' and c['op'] == '!':
                    xs = cu.strip_casts(f, f.kid(c, 0))
                    isnull = xs is not None and xs['k'] == 'ref' and xs['name'] == objv
                if isnull:
                    for r in f.walk(f.kid(n, 1)):
                        if r['k'] == 'ret' and cu.const_of(cu.strip_casts(f, f.kid(r, 0))) == EARG:
                            ok = True
        ctx.ob('R20.1', '%s:unknown-identifier-returns-invalid-argument' % fname, ok,
               '%s:%s' % (f.file, f.line),
               'an identifier that is not in the scanner\'s table returns ERROR_INVALID_ARGUMENT'
               if ok else 'unknown identifiers are no longer rejected with ERROR_INVALID_ARGUMENT')
    # boolean delegates to integer
    fb = ctx.fn('yr_scanner_define_boolean_variable', 'libyara/scanner.c')
    callees = [c.get('callee') for c in fb.calls()]
    ctx.ob('R20.1', 'yr_scanner_define_boolean_variable:delegates', callees == [
        'yr_scanner_define_integer_variable'], '%s:%s' % (fb.file, fb.line),
        'boolean definitions go through the checked integer path')
    # compiler level: duplicate check before anything is allocated
    g = ctx.fn('_yr_compiler_define_variable', 'libyara/compiler.c')
    EDUP = prog.macro_value('ERROR_DUPLICATED_EXTERNAL_VARIABLE')
    bad = []
    dup_ret = [False]
    ALLOC = ('yr_arena_', '_yr_compiler_store', 'yr_hash_table_add', 'yr_object_from_external')
    # static helpers of the function that allocate (directly or through each other)
    allocating = set()
    fam = cu.family(prog, g)
    changed = True
    while changed:
        changed = False
        for h in fam[1:]:
            if h.name not in allocating and any(
                    (c.get('callee') or '').startswith(ALLOC) or c.get('callee') in allocating
                    for c in h.calls()):
                allocating.add(h.name)
                changed = True
    lookups = [c for c in g.calls() if (c.get('callee') or '').startswith('yr_hash_table_lookup')]
    ctx.require(lookups or ctx.fixture, 'no table lookup in _yr_compiler_define_variable')
    lk = lookups[0] if lookups else None
    hold = paths.value_holder(g, lk) if lk is not None else ('dropped', None)
    lvar = hold[1] if hold[0] == 'var' else None

    def is_lookup_value(x):
        x = cu.strip_casts(g, x)
        while x is not None and x['k'] == 'paren':
            x = cu.strip_casts(g, g.kid(x, 0))
        return x is not None and (x is lk or (lvar is not None and x['k'] == 'ref' and x['name'] == lvar))

    def step(n, facts):
        if n['k'] == 'call' and ((n.get('callee') or '').startswith(ALLOC) or n.get('callee') in allocating):
            if 'unique' not in facts:
                bad.append(n)
            return facts
        if n['k'] == 'ret':
            if 'dup' in facts and cu.const_of(cu.strip_casts(g, g.kid(n, 0))) == EDUP:
                dup_ret[0] = True
            return None
        return facts

    def edge(b, term, cond, idx, succ, facts):
        pol = paths.branch_polarity(g, term, idx)
        if pol is None or cond is None:
            return facts
        c, p2 = paths.normalise_cond(g, cond, pol)
        while c is not None and c['k'] == 'paren':
            c = cu.strip_casts(g, g.kid(c, 0))
        isnull = None
        if c is not None and c['k'] == 'bin' and c['op'] in ('==', '!='):
            for x, y in ((g.kid(c, 0), g.kid(c, 1)), (g.kid(c, 1), g.kid(c, 0))):
                if is_lookup_value(x) and cu.const_of(cu.strip_casts(g, y)) == 0:
                    isnull = (c['op'] == '==') == p2
        elif c is not None and is_lookup_value(c):
            isnull = not p2
        if isnull is not None and 'unique' not in facts and 'dup' not in facts:
            return facts | ({'unique'} if isnull else {'dup'})
        return facts
    paths.explore(g, set(), step, edge, max_states=64)
    ctx.ob('R20.1', '_yr_compiler_define_variable:duplicate-check-first', not bad and dup_ret[0],
           g.loc(bad[0]) if bad else '%s:%s' % (g.file, g.line),
           'nothing is allocated before the identifier was looked up and found new; a '
           'duplicate returns ERROR_DUPLICATED_EXTERNAL_VARIABLE' if not bad and dup_ret[0] else
           'the compiler-level define allocates before checking for a duplicate, or a '
           'duplicate is not reported')


def r20_2(ctx):
    prog = ctx.prog
    cg = CallGraph(prog)
    E = Effects(prog, cg)
    roots = [n for n in list(SCANNER_LEVEL) + ['yr_scanner_define_boolean_variable']
             if prog.fn(n) is not None]
    reach = cg.reachable(roots)
    ctx.require(len(reach) >= 6 or ctx.fixture, 'scanner-level define reach set too small')
    for f in reach:
        bad = [(e, n) for e, n in E.direct[(f.tu.name, f.name)]
               if e[0] in ('field', 'mem') and e[1] in SHARED_TYPES]
        ctx.ob('R20.2', '%s:writes-no-shared-data' % f.name, not bad,
               f.loc(bad[0][1]) if bad else '%s:%s' % (f.file, f.line),
               'reachable from yr_scanner_define_*; writes only scanner-owned objects' if not bad
               else 'a scanner-level definition reaches %s, which writes shared rule data (%s)' % (
                   f.name, f.show(bad[0][1])[:60]))


def r20_4(ctx):
    prog = ctx.prog
    for fname, (tconst, member) in sorted(COMPILER_LEVEL.items()):
        f = ctx.fn(fname, 'libyara/compiler.c')
        tval = prog.macro_value(tconst)
        got_t = None
        got_m = None
        for a in f.all_nodes():
            if a['k'] == 'bin' and a['op'] == '=':
                l = cu.strip_casts(f, f.kid(a, 0))
                root, path = cu.member_path(f, l) if l is not None else (None, [])
                if root is not None and 'YR_EXTERNAL_VARIABLE' in (root.get('t') or ''):
                    if path == ['type']:
                        got_t = cu.const_of(cu.strip_casts(f, f.kid(a, 1)))
                    if len(path) == 2 and path[0] == 'value':
                        got_m = path[1]
        if got_t is None and got_m is None:
            # the record is filled by a static helper that receives the type tag
            for c in f.calls():
                h = f.tu.functions.get(c.get('callee') or '')
                if h is None or h is f or not getattr(h, 'static', False):
                    continue
                hp = [p_['name'] for p_ in h.params]
                args = f.call_args(c)
                for a in h.all_nodes():
                    if a['k'] == 'bin' and a['op'] == '=':
                        l = cu.strip_casts(h, h.kid(a, 0))
                        root, path = cu.member_path(h, l) if l is not None else (None, [])
                        if root is not None and 'YR_EXTERNAL_VARIABLE' in (root.get('t') or ''):
                            r = cu.strip_casts(h, h.kid(a, 1))
                            if path == ['type']:
                                if r is not None and r['k'] == 'ref' and r['name'] in hp and \
                                        hp.index(r['name']) < len(args):
                                    got_t = cu.const_of(cu.strip_casts(f, args[hp.index(r['name'])]))
                                else:
                                    got_t = cu.const_of(r)
                            if len(path) == 2 and path[0] == 'value':
                                got_m = path[1]
                if got_t is not None or got_m is not None:
                    break
        ok = got_t == tval and got_m == member
        ctx.ob('R20.4', '%s:type-and-member' % fname, ok, '%s:%s' % (f.file, f.line),
               'sets type %s and stores value.%s' % (tconst, member) if ok else
               'sets type %r and stores value.%s; expected %s and value.%s' % (
                   got_t, got_m, tconst, member))
    for fname, (types, member) in sorted(RULES_LEVEL.items()):
        f = ctx.fn(fname, 'libyara/rules.c')
        members = set()
        for a in f.all_nodes():
            if a['k'] == 'bin' and a['op'] == '=':
                l = cu.strip_casts(f, f.kid(a, 0))
                root, path = cu.member_path(f, l) if l is not None else (None, [])
                if root is not None and 'YR_EXTERNAL_VARIABLE' in (root.get('t') or '') and len(path) == 2 \
                        and path[0] == 'value':
                    members.add(path[1])
        ctx.ob('R20.4', '%s:stores-value.%s' % (fname, member), members == set([member]),
               '%s:%s' % (f.file, f.line),
               'stores into value.%s' % member if members == set([member]) else
               'stores into value.{%s}; expected value.%s' % (','.join(sorted(members)), member))


def r20_5(ctx):
    """every dispatch on the type of an external variable handles every type that
    can be stored in one"""
    prog = ctx.prog
    produced = {}
    for f in prog.fns():
        for n in f.all_nodes():
            if n['k'] == 'bin' and n['op'] == '=':
                l = cu.strip_casts(f, f.kid(n, 0))
                r = cu.strip_casts(f, f.kid(n, 1))
                if l is not None and l['k'] == 'member' and l['fld'] == 'type' and \
                        l.get('rec') in ('YR_EXTERNAL_VARIABLE', '_YR_EXTERNAL_VARIABLE') and \
                        r is not None and r.get('mn', '').startswith('EXTERNAL_VARIABLE_TYPE_') and \
                        r['mn'] != 'EXTERNAL_VARIABLE_TYPE_NULL':
                    produced.setdefault(r['mn'], (f, n))
    ctx.require(len(produced) >= 3 or ctx.fixture, 'only %d external types are ever stored' % len(produced))
    n_sw = 0
    for f in prog.fns():
        k = 0
        for sw in cu.find_switches(f):
            c = cu.strip_casts(f, cu.switch_cond(f, sw))
            if c is None or c['k'] != 'member' or c['fld'] != 'type' or \
                    c.get('rec') not in ('YR_EXTERNAL_VARIABLE', '_YR_EXTERNAL_VARIABLE'):
                continue
            n_sw += 1
            cases = set()
            has_default = False
            for labels, stmts in cu.switch_groups(f, sw):
                for l in labels:
                    if l['k'] == 'default':
                        has_default = True
                    elif l.get('mn') and l.get('v') == prog.macro_value(l['mn']):
                        cases.add(l['mn'])
            missing = sorted(t for t in produced if t not in cases)
            ok = not missing or has_default
            ctx.ob('R20.5', '%s:switch%d:handles-every-external-type' % (f.name, k), ok, f.loc(sw),
                   'handles %s%s' % (', '.join(sorted(cases)), ' and has a default' if has_default else '')
                   if ok else
                   'this switch on the type of an external variable has no case for %s (stored e.g. at '
                   '%s) and no default: a variable of that type is silently left without its value' % (
                       ', '.join(missing), produced[missing[0]][0].loc(produced[missing[0]][1])))
            k += 1
    ctx.count('external_type_switches', n_sw)


BULK_WRITERS = {'memcpy': 0, 'memmove': 0, 'strcpy': 0, 'strncpy': 0, 'strlcpy': 0}


def r20_6(ctx):
    """a sized string's bytes and its length are written together: a function that fills
    `s->c_string` with a bulk copy also assigns `s->length` on every path on which the copy
    happens.  String values (module strings, string externals) are compared, searched and
    matched by length; a copy into an existing sized string that leaves the old length in
    place makes the variable read as the new bytes followed by the tail of the old ones."""
    from .C14 import canon
    prog = ctx.prog
    n = 0
    for f in prog.fns():
        if not (f.file.startswith('libyara/') or ctx.fixture):
            continue
        writes = []
        for c in f.calls():
            if c.get('callee') not in BULK_WRITERS:
                continue
            a = f.call_args(c)
            d = cu.strip_casts(f, a[BULK_WRITERS[c['callee']]]) if a else None
            if d is None or d['k'] != 'member' or d['fld'] != 'c_string' or \
                    d.get('rec') not in ('SIZED_STRING', '_SIZED_STRING'):
                continue
            writes.append((c, canon(f, f.kid(d, 0))))
        for k, (c, X) in enumerate(sorted(writes, key=lambda x: (x[0].get('l', 0), x[0]['i']))):
            n += 1
            bad = []
            wid = c['i']

            def step(x, facts, X=X, wid=wid):
                if x['k'] == 'bin' and x['op'] == '=':
                    l = canon(f, f.kid(x, 0))
                    if l == '%s->length' % X or l == '(*%s).length' % X:
                        return frozenset(facts) | {'len'}
                    if l == X:
                        return frozenset()          # X designates another string from here on
                if x['i'] == wid:
                    return frozenset(facts) | {'wrote'}
                if x['k'] == 'ret':
                    if 'wrote' in facts and 'len' not in facts:
                        bad.append(x)
                    return None
                return facts
            try:
                paths.explore(f, set(), step, None, max_states=4096)
            except paths.Budget:
                ctx.note('R20.6 %s: budget exceeded (not decided)' % f.name)
                continue
            ctx.ob('R20.6', '%s:%s#%d:length-written-with-bytes' % (f.name, X, k), not bad,
                   f.loc(bad[0]) if bad else f.loc(c),
                   '%s->length is assigned on every path on which %s->c_string is filled' % (X, X) if not bad else
                   '%s->c_string is overwritten (at %s) and the function returns here without having '
                   'assigned %s->length on this path: the string keeps its old length' % (X, f.loc(c), X))
    return n


DECIMAL_CONVERTERS = ('atoi', 'atol', 'atoll')
RADIX_CONVERTERS = ('strtol', 'strtoll', 'strtoul', 'strtoull', 'strtoimax', 'strtoumax')


def r20_7(ctx):
    """the text of a `-d` integer is converted in base 10: the command line recognises an
    integer by its decimal digits (is_integer), and an integer external must have the value
    the same digits have as a literal in a rule (the lexer reads literals in base 10; octal
    needs the 0o prefix).  Decided on every conversion whose result is handed to a
    define_integer_variable call, directly or through a local; a conversion with base 0
    reads `0100` as 64 and `09` as 0."""
    from .C14 import canon
    prog = ctx.prog
    n = 0
    for f in prog.fns():
        if not (f.file.startswith('cli/') or ctx.fixture):
            continue
        k = 0
        seen = set()
        for c in sorted(f.calls(), key=lambda x: (x.get('l', 0), x['i'])):
            cal = c.get('callee') or ''
            if not (cal.endswith('_define_integer_variable') or (ctx.fixture and cal == 'define_int')):
                continue
            a = f.call_args(c)
            if len(a) < 3:
                continue
            v = cu.strip_casts(f, a[2])
            convs = []
            if v is not None and v['k'] == 'call':
                convs = [v]
            elif v is not None and v['k'] == 'ref':
                for x in f.all_nodes():
                    src = None
                    if x['k'] == 'decl' and x.get('name') == v['name'] and x.get('c'):
                        src = cu.strip_casts(f, f.kid(x, 0))
                    elif x['k'] == 'bin' and x['op'] == '=':
                        l = cu.strip_casts(f, f.kid(x, 0))
                        if l is not None and l['k'] == 'ref' and l['name'] == v['name']:
                            src = cu.strip_casts(f, f.kid(x, 1))
                    if src is not None and src['k'] == 'call':
                        convs.append(src)
            for x in convs:
                cv = x.get('callee')
                if cv not in DECIMAL_CONVERTERS and cv not in RADIX_CONVERTERS:
                    continue
                if x['i'] in seen:
                    continue
                seen.add(x['i'])
                n += 1
                xa = f.call_args(x)
                ok = cv in DECIMAL_CONVERTERS or (len(xa) > 2 and cu.const_of(cu.strip_casts(f, xa[2])) == 10)
                ctx.ob('R20.7', '%s:integer-conversion#%d:decimal' % (f.name, k), ok, f.loc(x),
                       'the integer external is converted in base 10 (%s)' % cv if ok else
                       'the text of an integer external is converted with %s: a leading zero changes the '
                       'value, the external no longer equals the literal with the same spelling' % canon(f, x)[:50])
                k += 1
    return n


FIXTURES = {
    'R20.5': {'src': 'C20/define.c', 'run': r20_5, 'expect': 'to_object_bad:switch0:handles-every-external-type',
              'expect_ok': 'to_object_good:switch0:handles-every-external-type'},
    'R20.1': {'src': 'C20/define.c', 'run': r20_1,
              'expect': 'yr_rules_define_integer_variable:type-check-dominates-store',
              'expect_ok': 'yr_rules_define_string_variable:type-check-dominates-store'},
    'R20.6': {'src': 'C20/define.c', 'run': r20_6, 'expect': 'ss_overwrite_bad:s#0:length-written-with-bytes',
              'expect_ok': 'ss_overwrite_good:s#0:length-written-with-bytes'},
    'R20.7': {'src': 'C20/define.c', 'run': r20_7, 'expect': 'cli_int_bad:integer-conversion#0:decimal',
              'expect_ok': 'cli_int_good:integer-conversion#0:decimal'},
}


def run(ctx):
    r20_1(ctx)
    ctx.floor('R20.1', 20)
    r20_2(ctx)
    ctx.floor('R20.2', 6)
    r9_4(ctx)       # R20.3 = the snapshot obligations shared with C09
    r20_4(ctx)
    ctx.floor('R20.4', 8)
    r20_5(ctx)
    ctx.floor('R20.5', 1)
    r20_6(ctx)
    ctx.floor('R20.6', 4)
    r20_7(ctx)
    ctx.floor('R20.7', 1)

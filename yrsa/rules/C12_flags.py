def run(ctx):
    pass

"""R12.4 — shortcut-flag discipline (part of C12).

STRING_FLAGS_SINGLE_MATCH lets fast mode stop after the first match of a
string; STRING_FLAGS_FIXED_OFFSET makes the scanner verify the string only at
string->fixed_offset. Both are set for every string when it is declared and
must be cleared whenever the condition uses the string in a way the shortcut
cannot serve:

  use of string S by instruction I                 must hold at success exit
  ------------------------------------------------ ---------------------------
  any I other than OP_FOUND                        SINGLE_MATCH cleared on S
  any I other than OP_FOUND_AT with offset equal   FIXED_OFFSET cleared on S
  to the recorded one

Decided path-sensitively over the CFG of the two parser.c functions that
push strings, tracking the facts {pushed, cleared-SM, cleared-FO, I==FOUND,
I==FOUND_AT, offset==recorded}; plus who-may-set and read-only-with-flag
rules for the three shortcut flags.
"""
from .. import cfgutil as cu
from .. import paths

STRING_T = 'YR_STRING *'
COND_FACTS = ('isFOUND', 'notFOUND', 'isFOUND_AT', 'notFOUND_AT')


def _flag_clear(fn, n, flag_vals, track):
    """n is `X->flags &= ~K` on the tracked variable -> flag names"""
    if n['k'] != 'bin' or n['op'] != '&=':
        return None
    lhs = fn.kid(n, 0)
    root, path = cu.member_path(fn, lhs)
    if root is None or root['k'] != 'ref' or root['name'] != track or path != ['flags']:
        return None
    rhs = cu.strip_casts(fn, fn.kid(n, 1))
    v = cu.const_of(rhs)
    if v is None:
        return None
    out = []
    for name, bit in flag_vals.items():
        if (v & bit) == 0:
            out.append(name)
    return out


def _assigns_tracked(fn, n, track):
    """does evaluating n (re)bind the tracked string variable"""
    if n['k'] == 'bin' and n['op'] == '=':
        l = fn.kid(n, 0)
        if l is not None and l['k'] == 'ref' and l['name'] == track:
            return True
    if n['k'] == 'un' and n['op'] == '&':
        l = fn.kid(n, 0)
        if l is not None and l['k'] == 'ref' and l['name'] == track:
            return True
    return False


def _string_vars(f):
    out = [p['name'] for p in f.params if p.get('type') == STRING_T]
    for n in f.all_nodes():
        if n['k'] == 'decl' and n.get('t') == STRING_T and n.get('name') not in out:
            out.append(n['name'])
    return out


def _conflict(facts):
    return ('isFOUND' in facts and 'notFOUND' in facts) or \
        ('isFOUND_AT' in facts and 'notFOUND_AT' in facts) or \
        ('isFOUND' in facts and 'isFOUND_AT' in facts)


class _Analysis(object):
    """the flag discipline of one function with respect to one YR_STRING*
    variable.  Roles are derived, not named: the instruction is whichever
    parameter is compared with OP_FOUND / OP_FOUND_AT, the offset whichever
    parameter is compared with <string>->fixed_offset."""

    def __init__(self, ctx, f, track, mode, consts, summaries):
        self.ctx, self.f, self.track, self.mode = ctx, f, track, mode
        self.flag_vals, self.op_found, self.op_found_at, self.op_push = consts
        self.summaries = summaries
        self.reports = {}
        self.uses = 0
        self.exits = set()
        self.instr_params = set()
        self.off_params = set()
        self.is_param = track in [p['name'] for p in f.params]

    def in_loop_over_strings(self, n):
        f = self.f
        for a in f.ancestors(n):
            if a['k'] == 'for' and 'yr_rule_strings_foreach' in f.macros(a):
                return True
        return False

    def check(self, facts, where_node, what):
        if 'pushed' not in facts:
            return
        sm_ok = 'clrSM' in facts or 'isFOUND' in facts
        fo_ok = 'clrFO' in facts or ('isFOUND_AT' in facts and 'offEq' in facts)
        if not sm_ok:
            self.reports.setdefault('SINGLE_MATCH', (self.f, where_node, what, sorted(facts)))
        if not fo_ok:
            self.reports.setdefault('FIXED_OFFSET', (self.f, where_node, what, sorted(facts)))

    def step(self, n, facts):
        f, track = self.f, self.track
        k = n['k']
        if _assigns_tracked(f, n, track):
            # the variable is about to denote another string: the obligations
            # of the previous one must be settled here
            self.check(facts, n, 'next string')
            facts = facts - {'pushed', 'clrSM', 'clrFO', 'offEq'}
            if self.mode == 'anon+named' and self.in_loop_over_strings(n):
                # `$` inside a loop stands for every string of the rule
                facts = facts | {'pushed'}
                self.uses += 1
            return facts
        if k == 'call' and n.get('callee') == 'yr_parser_emit_with_arg_reloc':
            args = f.call_args(n)
            if len(args) >= 3 and cu.const_of(args[1]) == self.op_push:
                a = cu.strip_casts(f, args[2])
                if a is not None and a['k'] == 'ref' and a['name'] == track:
                    self.uses += 1
                    return facts | {'pushed'}
        if k == 'call' and n.get('callee') in self.summaries:
            # a helper of this translation unit that receives the tracked string
            args = f.call_args(n)
            for (hname, pidx), summ in self.summaries[n['callee']].items():
                if pidx >= len(args):
                    continue
                a = cu.strip_casts(f, args[pidx])
                if a is None or a['k'] != 'ref' or a['name'] != track:
                    continue
                out = paths.Fork()
                for o in summ['outcomes']:
                    keep = set(o)
                    ii, io = summ['instr'], summ['off']
                    # the helper's knowledge about its instruction / offset
                    # parameters is knowledge about ours only when our own
                    # instruction / offset variables are what is passed
                    ia = cu.strip_casts(f, args[ii]) if ii is not None and ii < len(args) else None
                    if ia is not None and cu.const_of(ia) is not None:
                        v = cu.const_of(ia)
                        impossible = ('isFOUND' in keep and v != self.op_found) or \
                            ('notFOUND' in keep and v == self.op_found) or \
                            ('isFOUND_AT' in keep and v != self.op_found_at) or \
                            ('notFOUND_AT' in keep and v == self.op_found_at)
                        if impossible:
                            continue
                    elif ia is None or ia['k'] != 'ref' or ia.get('dk') != 'param':
                        keep -= set(COND_FACTS)
                    else:
                        self.instr_params.add(ia['name'])
                    oa = cu.strip_casts(f, args[io]) if io is not None and io < len(args) else None
                    if 'offEq' in keep and (oa is None or oa['k'] != 'ref' or oa.get('dk') != 'param'):
                        keep.discard('offEq')
                    nf = frozenset(facts | keep)
                    if _conflict(nf):
                        continue
                    if nf not in out:
                        out.append(nf)
                return out
        cl = _flag_clear(f, n, self.flag_vals, track)
        if cl:
            return facts | set('clr' + c for c in cl)
        if k == 'ret':
            v = f.kid(n, 0)
            c = cu.const_of(v) if v is not None else None
            if any(m.startswith(('FAIL_ON_', 'GOTO_EXIT_ON_')) for m in f.macros(n)):
                return facts        # error return of the repo's FAIL_ON_* idiom
            if self.is_param:
                self.exits.add(frozenset(facts))
            elif c is None or c == 0:
                self.check(facts, n, 'success return')
            return facts
        return facts

    def edge(self, b, term, cond, idx, succ, facts):
        f, track = self.f, self.track
        pol = paths.branch_polarity(f, term, idx)
        if pol is None or cond is None:
            return facts
        c, pol = paths.normalise_cond(f, cond, pol)
        if c is None or c['k'] != 'bin' or c['op'] not in ('==', '!='):
            return facts
        a, bb = cu.strip_casts(f, f.kid(c, 0)), cu.strip_casts(f, f.kid(c, 1))
        eq = (c['op'] == '==') == pol       # this edge means a == b
        # string == NULL: the loop over strings is over, nothing is denoted
        for x, y in ((a, bb), (bb, a)):
            if x is not None and x['k'] == 'ref' and x['name'] == track and \
                    cu.const_of(y) == 0 and eq:
                return facts - {'pushed', 'clrSM', 'clrFO', 'offEq'}
        # <instruction parameter> == OP_X
        for x, y in ((a, bb), (bb, a)):
            if x is not None and x['k'] == 'ref' and x.get('dk') == 'param' and \
                    (x['name'] in self.instr_params or x['name'] == 'instruction' or
                     y is not None and y.get('mn') in ('OP_FOUND', 'OP_FOUND_AT')):
                v = cu.const_of(y)
                if v in (self.op_found, self.op_found_at):
                    self.instr_params.add(x['name'])
                if v == self.op_found:
                    if eq:
                        if 'notFOUND' in facts:
                            return None
                        return facts | {'isFOUND'}
                    if 'isFOUND' in facts:
                        return None
                    return facts | {'notFOUND'}
                if v == self.op_found_at:
                    if eq:
                        if 'notFOUND_AT' in facts or 'isFOUND' in facts:
                            return None
                        return facts | {'isFOUND_AT'}
                    if 'isFOUND_AT' in facts:
                        return None
                    return facts | {'notFOUND_AT'}
        # string->fixed_offset == <offset parameter>

        def is_fixed(n):
            r, p = cu.member_path(f, n)
            return r is not None and r['k'] == 'ref' and r['name'] == track and p == ['fixed_offset']
        for x, y in ((a, bb), (bb, a)):
            if is_fixed(x) and y is not None and y['k'] == 'ref' and y.get('dk') == 'param':
                self.off_params.add(y['name'])
                if eq:
                    return facts | {'offEq'}
        return facts

    def run(self):
        f = self.f
        try:
            ins = paths.explore(f, set(), self.step, self.edge)
        except paths.Budget as e:
            self.ctx.require(False, str(e))
        if self.is_param and f.exit is not None:
            # falling off the end of a void helper
            for fs in ins.get(f.exit, ()):
                self.exits.add(frozenset(fs))
        return self


def check_function(ctx, fname, mode):
    prog = ctx.prog
    root = ctx.fn(fname, 'libyara/parser.c')
    flag_vals = {'SM': prog.macro_value('STRING_FLAGS_SINGLE_MATCH'),
                 'FO': prog.macro_value('STRING_FLAGS_FIXED_OFFSET')}
    ctx.require(None not in flag_vals.values(), 'shortcut flag macros not evaluable')
    consts = (flag_vals, prog.macro_value('OP_FOUND'), prog.macro_value('OP_FOUND_AT'),
              prog.macro_value('OP_PUSH'))
    fam = cu.family(prog, root)
    # summaries of helpers that take the string as a parameter, innermost first
    summaries = {}
    for h in reversed(fam[1:]):
        pnames = [p['name'] for p in h.params]
        for pidx, p in enumerate(h.params):
            if p.get('type') != STRING_T:
                continue
            an = _Analysis(ctx, h, p['name'], mode, consts, summaries).run()
            keep = ('clrSM', 'clrFO', 'offEq') + COND_FACTS
            outcomes = set(frozenset(x for x in fs if x in keep) for fs in an.exits)
            instr = [pnames.index(x) for x in an.instr_params if x in pnames]
            off = [pnames.index(x) for x in an.off_params if x in pnames]
            summaries.setdefault(h.name, {})[(h.name, pidx)] = {
                'outcomes': outcomes, 'instr': instr[0] if instr else None,
                'off': off[0] if off else None}
    reports = {}
    uses = 0
    for g in fam:
        gp = [p['name'] for p in g.params]
        for v in _string_vars(g):
            if v in gp:
                continue            # summarised above, judged at the call sites
            an = _Analysis(ctx, g, v, mode, consts, summaries).run()
            uses += an.uses
            for k, r in an.reports.items():
                reports.setdefault(k, r)
    ctx.require(uses > 0, 'R12.4: no string use site recognised in ' + fname)
    for flag in ('SINGLE_MATCH', 'FIXED_OFFSET'):
        key = '%s:%s-cleared-or-served' % (fname, flag)
        if flag in reports:
            g, n, what, facts = reports[flag]
            ctx.ob('R12.4', key, False, g.loc(n),
                   'a path reaches the %s with a string pushed for use but '
                   'STRING_FLAGS_%s neither cleared nor served by the instruction '
                   '(facts on that path: %s)' % (what, flag, ', '.join(facts)))
        else:
            ctx.ob('R12.4', key, True, '%s:%s' % (root.file, root.line),
                   'every path that pushes a string clears STRING_FLAGS_%s unless '
                   'the instruction is served by the shortcut' % flag)


WHO_MAY_SET = {
    # flag -> functions allowed to set it (|=) and why
    'STRING_FLAGS_SINGLE_MATCH': {'yr_parser_reduce_string_declaration':
                                  'set for every new string before any use'},
    'STRING_FLAGS_FIXED_OFFSET': {'yr_parser_reduce_string_declaration':
                                  'set for every new string before any use'},
    'STRING_FLAGS_FITS_IN_ATOM': {'_yr_parser_write_string':
                                  'set only when the whole literal is the atom'},
}


def who_may_set(ctx):
    prog = ctx.prog
    vals = {k: prog.macro_value(k) for k in WHO_MAY_SET}
    ctx.require(None not in vals.values(), 'flag macros not evaluable')
    seen = {k: 0 for k in WHO_MAY_SET}
    for f in prog.fns():
        if not f.file.startswith('libyara/'):
            continue
        for n in f.all_nodes():
            if n['k'] != 'bin' or n['op'] not in ('|=', '='):
                continue
            lhs = f.kid(n, 0)
            if lhs is None or lhs['k'] != 'member' or lhs['fld'] != 'flags':
                continue
            if lhs.get('rec') not in ('YR_STRING', 'YR_MODIFIER'):
                continue
            rhs = cu.strip_casts(f, f.kid(n, 1))
            v = cu.const_of(rhs)
            if v is None or n['op'] == '=':
                continue
            for name, bit in vals.items():
                if v & bit:
                    seen[name] += 1
                    ok = f.name in WHO_MAY_SET[name]
                    ctx.ob('R12.4w', '%s:sets:%s' % (f.name, name), ok, f.loc(n),
                           ('allowed setter: ' + WHO_MAY_SET[name][f.name]) if ok else
                           '%s is set outside the function that establishes its '
                           'precondition' % name)
    for name, c in seen.items():
        ctx.require(c > 0 or ctx.fixture, 'R12.4w: no site sets %s' % name)
    # FITS_IN_ATOM only under the max_string_len <= YR_MAX_ATOM_LENGTH test
    f = prog.fn('_yr_parser_write_string', 'libyara/parser.c')
    if f is not None:
        bit = vals['STRING_FLAGS_FITS_IN_ATOM']
        for n in f.all_nodes():
            if n['k'] == 'bin' and n['op'] == '|=' and \
                    (cu.const_of(cu.strip_casts(f, f.kid(n, 1))) or 0) & bit:
                guarded = False
                for a in f.ancestors(n):
                    if a['k'] == 'if':
                        c = f.kid(a, 0)
                        txt = f.show(c)
                        if 'max_string_len' in txt and '<=' in txt:
                            guarded = True
                ctx.ob('R12.4w', '_yr_parser_write_string:FITS_IN_ATOM-guarded', guarded,
                       f.loc(n), 'FITS_IN_ATOM set under max_string_len <= YR_MAX_ATOM_LENGTH'
                       if guarded else 'FITS_IN_ATOM set without the length test')
    # fixed_offset is written only by the parser
    for f in prog.fns():
        if not f.file.startswith('libyara/'):
            continue
        for n in f.all_nodes():
            if n['k'] == 'bin' and n['op'] == '=':
                lhs = f.kid(n, 0)
                if lhs is not None and lhs['k'] == 'member' and lhs['fld'] == 'fixed_offset' \
                        and lhs.get('rec') == 'YR_STRING':
                    ok = f.file.endswith('parser.c')
                    ctx.ob('R12.4w', '%s:writes-fixed_offset' % f.name, ok, f.loc(n),
                           'fixed_offset written by the parser' if ok else
                           'fixed_offset written outside the parser')


def reads_with_flag(ctx):
    """scan-time readers use a shortcut only together with its flag"""
    prog = ctx.prog
    sm = prog.macro_value('STRING_FLAGS_SINGLE_MATCH')
    fo = prog.macro_value('STRING_FLAGS_FIXED_OFFSET')
    fast = prog.macro_value('SCAN_FLAGS_FAST_MODE')
    n_reads = 0
    for f in prog.fns():
        if not f.file.startswith('libyara/') or f.file.endswith(('parser.c', 'grammar.c', 'grammar.y')):
            continue
        for n in f.all_nodes():
            # read of string->fixed_offset
            if n['k'] == 'member' and n['fld'] == 'fixed_offset' and n.get('rec') == 'YR_STRING':
                p = f.parent(n)
                if p is not None and p['k'] == 'bin' and p['op'] == '=' and f.kid(p, 0) is n:
                    continue
                n_reads += 1
                # must be inside a condition that also tests FIXED_OFFSET
                ok = False
                for a in f.ancestors(n):
                    if a['k'] == 'bin' and a['op'] == '&&':
                        txt = [x for x in f.walk(a) if x['k'] == 'bin' and x['op'] == '&'
                               and cu.const_of(cu.strip_casts(f, f.kid(x, 1))) == fo]
                        if txt:
                            ok = True
                ctx.ob('R12.4r', '%s:fixed_offset-read-with-flag' % f.name, ok, f.loc(n),
                       'fixed_offset consulted only when STRING_FLAGS_FIXED_OFFSET is set'
                       if ok else 'fixed_offset consulted without testing its flag')
            # test of SINGLE_MATCH
            if n['k'] == 'bin' and n['op'] == '&' and \
                    cu.const_of(cu.strip_casts(f, f.kid(n, 1))) == sm:
                l = f.kid(n, 0)
                if l is None or l['k'] != 'member' or l['fld'] != 'flags' or l.get('rec') != 'YR_STRING':
                    continue
                n_reads += 1
                ok = False
                for a in f.ancestors(n):
                    if a['k'] == 'bin' and a['op'] == '&&':
                        if any(x['k'] == 'bin' and x['op'] == '&' and
                               cu.const_of(cu.strip_casts(f, f.kid(x, 1))) == fast
                               for x in f.walk(a)):
                            ok = True
                ctx.ob('R12.4r', '%s:single_match-only-in-fast-mode' % f.name, ok, f.loc(n),
                       'SINGLE_MATCH shortcut taken only in fast mode' if ok else
                       'SINGLE_MATCH shortcut taken without SCAN_FLAGS_FAST_MODE')
                # what lets the shortcut skip the verification: besides the two flags, the
                # chain may rest only on a confirmed match of this very string being recorded
                # (context->matches[string->idx].head); any other evidence - a candidate in the
                # unconfirmed list, another string's matches - can be withdrawn later
                top = None
                for a in f.ancestors(n):
                    if a['k'] == 'bin' and a['op'] == '&&':
                        top = a
                if top is None:
                    continue
                from .C14 import canon
                sroot = canon(f, f.kid(l, 0))
                conj, stack = [], [top]
                while stack:
                    x = cu.strip_casts(f, stack.pop())
                    if x is not None and x['k'] == 'bin' and x['op'] == '&&':
                        stack.extend([f.kid(x, 1), f.kid(x, 0)])
                    elif x is not None:
                        conj.append(x)
                evid = [x for x in conj if not any(
                    y['k'] == 'bin' and y['op'] == '&' and cu.const_of(cu.strip_casts(f, f.kid(y, 1))) in (sm, fast)
                    for y in f.walk(x))]
                # the two flag tests may be named by a local (`one_match_suffices = fast && single`):
                # the evidence then stands next to the uses of that local
                par_ = f.parent(top)
                while par_ is not None and par_['k'] == 'cast':
                    par_ = f.parent(par_)
                bname = None
                if par_ is not None and par_['k'] == 'decl':
                    bname = par_['name']
                elif par_ is not None and par_['k'] == 'bin' and par_['op'] == '=':
                    l_ = cu.strip_casts(f, f.kid(par_, 0))
                    bname = l_['name'] if l_ is not None and l_['k'] == 'ref' else None
                if bname is not None and not evid:
                    for u in f.all_nodes():
                        if u['k'] != 'ref' or u['name'] != bname:
                            continue
                        t2 = None
                        for a in f.ancestors(u):
                            if a['k'] == 'bin' and a['op'] == '&&':
                                t2 = a
                            elif a['k'] not in ('cast', 'paren', 'un'):
                                break
                        if t2 is None:
                            continue
                        st3 = [t2]
                        while st3:
                            x = cu.strip_casts(f, st3.pop())
                            if x is not None and x['k'] == 'bin' and x['op'] == '&&':
                                st3.extend([f.kid(x, 1), f.kid(x, 0)])
                            elif x is not None and not (x['k'] == 'ref' and x['name'] == bname):
                                evid.append(x)
                bad = []
                for x in evid:
                    dis, st2 = [], [x]
                    while st2:
                        y = cu.strip_casts(f, st2.pop())
                        if y is not None and y['k'] == 'bin' and y['op'] == '||':
                            st2.extend([f.kid(y, 1), f.kid(y, 0)])
                        elif y is not None:
                            dis.append(y)
                    for y in dis:
                        t = canon(f, y)
                        m = None
                        if y['k'] == 'bin' and y['op'] == '!=' and cu.const_of(cu.strip_casts(f, f.kid(y, 1))) == 0:
                            m = cu.strip_casts(f, f.kid(y, 0))
                        elif y['k'] == 'bin' and y['op'] == '!=' and cu.const_of(cu.strip_casts(f, f.kid(y, 0))) == 0:
                            m = cu.strip_casts(f, f.kid(y, 1))
                        elif y['k'] == 'member':
                            m = y
                        good = False
                        if m is not None and m['k'] == 'member' and m['fld'] == 'head':
                            b = cu.strip_casts(f, f.kid(m, 0))
                            if b is not None and b['k'] == 'sub':
                                arr = cu.strip_casts(f, f.kid(b, 0))
                                idx = canon(f, f.kid(b, 1))
                                good = arr is not None and arr['k'] == 'member' and arr['fld'] == 'matches' and \
                                    idx == '%s->idx' % sroot
                        if not good:
                            bad.append((y, t))
                ok = bool(evid) and not bad
                ctx.ob('R12.4r', '%s:single_match-shortcut-on-confirmed-match' % f.name, ok,
                       f.loc(bad[0][0]) if bad else f.loc(n),
                       'fast mode skips a SINGLE_MATCH string only once matches[%s->idx].head is set' % sroot
                       if ok else
                       'fast mode skips the verification of a SINGLE_MATCH string on %s: only a confirmed '
                       'match of the same string (matches[%s->idx].head != NULL) makes further matches '
                       'irrelevant; with -f the rule can lose a match it has in a normal scan' % (
                           bad[0][1][:80] if bad else 'no evidence at all', sroot))
    ctx.require(n_reads >= 2 or ctx.fixture, 'R12.4r: shortcut readers not found')


def run(ctx):
    check_function(ctx, 'yr_parser_emit_pushes_for_strings', 'named')
    check_function(ctx, 'yr_parser_reduce_string_identifier', 'anon+named')
    who_may_set(ctx)
    reads_with_flag(ctx)
    ctx.floor('R12.4', 4)
    ctx.floor('R12.4w', 4)
    ctx.floor('R12.4r', 2)

"""C11 — the scan callback protocol is exact.

Decides the *shape* of the protocol (DESIGN.md §4 C11):
  R11.1 message inventory: every call through a YR_CALLBACK_FUNC pointer in
        libyara, the message(s) it can carry and the function it sits in,
        against a message -> permitted emitters table; SCAN_FINISHED and the
        two module messages have exactly one site each;
  R11.2 reporting loop: iterates rules_table from index 0 in order to the NULL
        rule, makes one callback call per iteration, and on every path to
        that call the rule is not private, a MATCHING message implies the
        rule's match bit is set and its namespace is not unsatisfied, a
        NOT_MATCHING message implies the opposite, and the message is
        enabled by its report flag;
  R11.3 return values: after CALLBACK_ABORT / CALLBACK_ERROR from a rule
        message no further callback call happens and the function returns
        ERROR_SUCCESS / ERROR_CALLBACK_ERROR; SCAN_FINISHED is emitted only
        after the loop ended normally; CALLBACK_ERROR from a module message
        makes yr_modules_load return ERROR_CALLBACK_ERROR, which OP_IMPORT
        turns into a stop; an already loaded module emits nothing;
  R11.4 only OP_INIT_RULE / OP_MATCH_RULE (and the cleaner) write the
        rule-match and namespace-unsatisfied bitmasks.
Not decided: "matching iff the condition holds" (C04's declined core).
"""
from .. import cfgutil as cu
from .. import paths
from ..callgraph import CallGraph
from ..effects import Effects
from .C12 import vm_groups

LEVEL = 'other'
EXPLANATION = (
    'Who-may-call table for callback messages, and path-sensitive analysis of '
    'the reporting loop and of the return-value handling over clang CFG facts: '
    'facts about the match bit, the namespace bit, the private flag, the '
    'report flags and the chosen message are tracked along every path to the '
    'callback call; after an abort/error return no further callback call may '
    'be reached and the returned code is checked.')
ASSUMPTIONS = [
    'the bitmask tests are written with the yr_bitmask_is_set / '
    'yr_bitmask_is_not_set macros and RULE_IS_PRIVATE (otherwise the check '
    'exits 2, it does not guess)',
]

CB_TYPE = 'int (struct YR_SCAN_CONTEXT *, int, void *, void *)'

PERMITTED = {
    'CALLBACK_MSG_RULE_MATCHING': ('yr_scanner_scan_mem_blocks',),
    'CALLBACK_MSG_RULE_NOT_MATCHING': ('yr_scanner_scan_mem_blocks',),
    'CALLBACK_MSG_SCAN_FINISHED': ('yr_scanner_scan_mem_blocks',),
    'CALLBACK_MSG_IMPORT_MODULE': ('yr_modules_load',),
    'CALLBACK_MSG_MODULE_IMPORTED': ('yr_modules_load',),
    'CALLBACK_MSG_TOO_MANY_MATCHES': ('yr_scan_verify_match',),
    'CALLBACK_MSG_TOO_SLOW_SCANNING': ('_yr_scanner_scan_mem_block', 'yr_scanner_scan_mem'),
    'CALLBACK_MSG_CONSOLE_LOG': ('log_string', 'log_string_msg', 'log_integer', 'log_integer_msg',
                                 'log_float', 'log_float_msg', 'hex_integer', 'hex_integer_msg'),
}
EXACTLY_ONE = ('CALLBACK_MSG_SCAN_FINISHED', 'CALLBACK_MSG_IMPORT_MODULE',
               'CALLBACK_MSG_MODULE_IMPORTED')


def callback_calls(prog, lib_only=True, fixture=False):
    out = []
    for f in prog.fns():
        if lib_only and not f.file.startswith('libyara/') and not fixture:
            continue
        for c in f.calls():
            if 'callee' in c:
                continue
            if c.get('fntype') == CB_TYPE:
                out.append((f, c))
    return out


def message_values(prog, f, e):
    """macro names of the message argument (constants, or the constants a
    local variable is assigned)"""
    msgs = prog.macros_with_prefix('CALLBACK_MSG_')
    byval = {}
    for k, v in msgs.items():
        byval.setdefault(v, k)
    e = cu.strip_casts(f, e)
    c = cu.const_of(e)
    if c is not None:
        return set([byval.get(c, 'msg#%d' % c)])
    if e is not None and e['k'] == 'ref' and e.get('dk') == 'local':
        out = set()
        for n in f.all_nodes():
            src = None
            if n['k'] == 'decl' and n['name'] == e['name'] and n.get('c'):
                src = f.kid(n, 0)
            if n['k'] == 'bin' and n['op'] == '=':
                l = f.kid(n, 0)
                if l is not None and l['k'] == 'ref' and l['name'] == e['name']:
                    src = f.kid(n, 1)
            if src is not None:
                v = cu.const_of(cu.strip_casts(f, src))
                if v is None:
                    return None
                if v != 0:
                    out.add(byval.get(v, 'msg#%d' % v))
        return out
    return None


def r11_1(ctx):
    prog = ctx.prog
    calls = callback_calls(prog, fixture=ctx.fixture)
    ctx.require(len(calls) >= 10 or ctx.fixture, 'only %d callback call sites found' % len(calls))
    sites = {}
    for f, c in calls:
        args = f.call_args(c)
        ms = message_values(prog, f, args[1]) if len(args) > 1 else None
        if ms is None:
            ctx.ob('R11.1', '%s:callback:unknown-message' % f.name, False, f.loc(c),
                   'message argument %s is not a constant nor a local assigned constants' %
                   f.show(args[1]))
            continue
        for m in ms:
            sites.setdefault(m, []).append((f, c))
            ok = f.name in PERMITTED.get(m, ()) or _only_called_from(prog, f, PERMITTED.get(m, ()))
            ctx.ob('R11.1', '%s:emits:%s' % (f.name, m), ok, f.loc(c),
                   '%s is emitted by %s (permitted)' % (m, f.name) if ok else
                   '%s is emitted by %s, which is not one of its permitted emitters (%s)' % (
                       m, f.name, ', '.join(PERMITTED.get(m, ())) or 'none'))
    for m in EXACTLY_ONE:
        n = len(sites.get(m, []))
        ctx.ob('R11.1', '%s:exactly-one-site' % m, n == 1 or (ctx.fixture and n <= 1),
               sites[m][0][0].loc(sites[m][0][1]) if n else 'libyara',
               '%s has %d emission site(s)' % (m, n))
    ctx.count('callback_call_sites', len(calls))
    return sites


def _only_called_from(prog, f, permitted, depth=0):
    """f is a static helper all of whose callers are permitted emitters (or static
    helpers of permitted emitters): the emission belongs to those emitters"""
    if not getattr(f, 'static', False) or depth > 3:
        return False
    callers = [g for g in f.tu.fn_list if any(c.get('callee') == f.name for c in g.calls())]
    if not callers:
        return False
    # its address must not be taken: then callers are exactly the direct ones
    for g in f.tu.fn_list:
        for n in g.all_nodes():
            if n['k'] == 'ref' and n.get('name') == f.name:
                par = g.parent(n)
                if not (par is not None and par['k'] == 'call' and g.kid(par, 0) is n) and \
                        not (par is not None and par['k'] == 'call' and par.get('callee') == f.name):
                    return False
    return all(g.name in permitted or _only_called_from(prog, g, permitted, depth + 1) for g in callers)


def _rule_message_call(ctx, f):
    for g, c in callback_calls(ctx.prog, fixture=ctx.fixture):
        if g is f:
            a = f.call_args(c)
            if len(a) > 1 and cu.const_of(cu.strip_casts(f, a[1])) is None:
                return c
    return None


def _reporting_function(ctx):
    """the function that holds the per-rule reporting loop: the scan funnel, or a
    static helper it was extracted into"""
    top = ctx.fn('yr_scanner_scan_mem_blocks', 'libyara/scanner.c')
    for h in cu.family(ctx.prog, top):
        c = _rule_message_call(ctx, h)
        if c is not None:
            return h, c
    return top, None


def r11_2(ctx):
    prog = ctx.prog
    f, call = _reporting_function(ctx)
    ctx.require(call is not None, 'rule-message callback call not found')
    loop = None
    for a in f.ancestors(call):
        if a['k'] in ('for', 'while'):
            loop = a
            break
    ctx.require(loop is not None, 'reporting loop not found')
    if loop['k'] == 'for':
        parts = loop.get('parts', [-1] * 4)
        init, cond, inc = [f.node(p) if p >= 0 else None for p in parts[:3]]
    else:
        # `while (cond) { ...; idx++; rule++; }`: the steps are the increments that are
        # statements of the loop body itself (executed once per iteration, no `continue`)
        ks_ = f.kids(loop)
        cond = ks_[0] if ks_ else None
        body_ = ks_[1] if len(ks_) > 1 else None
        init = None
        inc = None
        parts = [-1, cond['i'] if cond is not None else -1, -1, body_['i'] if body_ is not None else -1]
        ctx.require(body_ is not None and not any(x['k'] == 'continue' for x in f.walk(body_)),
                    'reporting loop: a while loop with `continue` (the steps may be skipped)')
    where = f.loc(loop)
    msgs = prog.macros_with_prefix('CALLBACK_MSG_')
    M = msgs.get('CALLBACK_MSG_RULE_MATCHING')
    NM = msgs.get('CALLBACK_MSG_RULE_NOT_MATCHING')
    # (a) order: starts at table entry 0 / index 0, steps by one, ends at NULL rule
    from .C14 import canon
    # roles: the rule cursor is what the callback receives as message data; the index
    # is the other variable advanced by the loop step
    R = canon(f, f.call_args(call)[2])
    inctxt = f.show(inc) if inc is not None else ''
    stepped = []
    inc_nodes = list(f.walk(inc)) if inc is not None else []
    if loop['k'] == 'while':
        body_ = f.kids(loop)[1]
        tops = f.kids(body_) if body_['k'] == 'compound' else [body_]
        inc_nodes = [x for t in tops if t['k'] in ('un', 'bin') for x in f.walk(t)]
        inctxt = '; '.join(f.show(t) for t in tops if t['k'] in ('un', 'bin'))
    if inc_nodes:
        for x in inc_nodes:
            if x['k'] == 'un' and x['op'] in ('++', 'post++'):
                stepped.append(canon(f, f.kid(x, 0)))
            elif x['k'] == 'bin' and x['op'] == '+=' and cu.const_of(cu.strip_casts(f, f.kid(x, 1))) == 1:
                stepped.append(canon(f, f.kid(x, 0)))
    idxs = [v for v in stepped if v != R]
    ok_inc = sorted(stepped) == sorted(set(stepped)) and R in stepped and len(idxs) == 1
    I = idxs[0] if idxs else None

    def initial_values(var):
        out = []
        for x in f.all_nodes():
            if x['k'] == 'decl' and x['name'] == var and x.get('c'):
                out.append(f.kid(x, 0))
            elif x['k'] == 'bin' and x['op'] == '=' and canon(f, f.kid(x, 0)) == var:
                out.append(f.kid(x, 1))
        return out
    rinit = initial_values(R)
    iinit = initial_values(I) if I else []
    ok_init = bool(rinit) and all(canon(f, e).endswith('rules_table') for e in rinit) and \
        bool(iinit) and all(cu.const_of(cu.strip_casts(f, e)) == 0 for e in iinit)
    itxt = '%s = %s; %s = %s' % (R, ', '.join(canon(f, e) for e in rinit)[:40], I,
                                ', '.join(canon(f, e) for e in iinit)[:20])
    ctxt = f.show_sym(cond) if cond is not None else ''
    ok_cond = cond is not None and ('RULE_FLAGS_NULL' in ctxt or 'flags & 4' in f.show(cond)) and \
        R in f.show(cond)
    ctx.ob('R11.2', 'loop:definition-order', ok_init and ok_inc and ok_cond, where,
           'reporting loop walks rules_table from entry 0 in steps of one up to the NULL rule'
           if ok_init and ok_inc and ok_cond else
           'reporting loop no longer walks the rule table in definition order (init `%s`, '
           'step `%s`, condition `%s`)' % (itxt[:70], inctxt[:30], ctxt[:40]))
    # (b) exactly one callback call in the loop
    n_calls = sum(1 for g, c in callback_calls(prog, fixture=ctx.fixture)
                  if g is f and f.is_ancestor(loop, c))
    ctx.ob('R11.2', 'loop:one-call-per-rule', n_calls == 1, where,
           '%d callback call(s) inside the reporting loop' % n_calls)
    # (c) path facts at the call
    body = f.node(parts[3]) if len(parts) > 3 and parts[3] >= 0 else None
    ctx.require(body is not None, 'loop body not found')
    nb = None
    nbmap = f.node_block()
    for x in f.walk(body):
        if x['i'] in nbmap:
            nb = nbmap[x['i']]
            break
    ctx.require(nb is not None, 'loop body block not found')
    problems = {}
    seen_states = []
    # the message variable: what the callback call passes as its message
    marg = cu.strip_casts(f, f.call_args(call)[1])
    MSG = marg['name'] if marg is not None and marg['k'] == 'ref' else None
    ctx.require(MSG is not None, 'the rule callback\'s message argument is not a variable')
    flagM = prog.macro_value('SCAN_FLAGS_REPORT_RULES_MATCHING')
    flagNM = prog.macro_value('SCAN_FLAGS_REPORT_RULES_NOT_MATCHING')

    ct = paths.CondTracker(f)

    def step(n, facts):
        facts = ct.on_step(n, facts)
        if n['k'] == 'decl' and n.get('name') == MSG and n.get('c'):
            v = cu.const_of(f.kid(n, 0))
            return frozenset(x for x in facts if x[0] != 'msg') | {('msg', v)}
        if n['k'] == 'bin' and n['op'] == '=':
            l = f.kid(n, 0)
            if l is not None and l['k'] == 'ref' and l['name'] == MSG:
                v = cu.const_of(cu.strip_casts(f, f.kid(n, 1)))
                return frozenset(x for x in facts if x[0] != 'msg') | {('msg', v)}
        if n is call:
            seen_states.append(facts)
            d = dict((x[0], x[1]) for x in facts)
            msg = d.get('msg')
            if d.get('private') != 0:
                problems.setdefault('private', 'a path reaches the rule callback without the '
                                    'rule being tested as not private')
            if msg == M:
                if d.get('match') != 1 or d.get('unsat') != 0:
                    problems.setdefault('matching', 'RULE_MATCHING can be sent on a path where the '
                                        'rule\'s match bit is not set or its namespace is unsatisfied '
                                        '(facts: %s)' % sorted(facts))
                if d.get('flagM') != 1:
                    problems.setdefault('flagM', 'RULE_MATCHING is sent without '
                                        'SCAN_FLAGS_REPORT_RULES_MATCHING being tested')
            elif msg == NM:
                if d.get('match') == 1 and d.get('unsat') == 0:
                    problems.setdefault('not-matching', 'RULE_NOT_MATCHING can be sent for a rule '
                                        'whose match bit is set and whose namespace is satisfied')
                if d.get('flagNM') != 1:
                    problems.setdefault('flagNM', 'RULE_NOT_MATCHING is sent without '
                                        'SCAN_FLAGS_REPORT_RULES_NOT_MATCHING being tested')
            else:
                problems.setdefault('msg', 'the callback is called with message %r' % (msg,))
            return None
        if n['k'] in ('ret',):
            return None
        return facts

    def setf(facts, k, v):
        return frozenset(x for x in facts if x[0] != k) | {(k, v)}

    def edge(b, term, cond_, idx, succ, facts):
        facts = ct.on_edge(term, cond_, idx, facts)
        if facts is None:
            return None
        pol = paths.branch_polarity(f, term, idx)
        if pol is None or cond_ is None:
            return facts
        c, pol = paths.normalise_cond(f, cond_, pol)
        if c is None:
            return facts
        if c['k'] == 'ref':
            # a boolean that stands for the last operand of `A && B`: its truth is B's
            for x in facts:
                if isinstance(x, tuple) and len(x) == 3 and x[0] == 'last' and x[1] == c['name']:
                    c2, pol2 = paths.normalise_cond(f, f.nodes[x[2]], pol)
                    if c2 is not None:
                        c, pol = c2, pol2
                    break
        ms = set(f.macros(c)) | set(m for x in f.walk(c) for m in f.macros(x))
        flds = set(x['fld'] for x in f.walk(c) if x['k'] == 'member')
        if 'rule_matches_flags' in flds and ('yr_bitmask_is_set' in ms or 'yr_bitmask_is_not_set' in ms):
            is_set = pol if 'yr_bitmask_is_set' in ms else (not pol)
            return setf(facts, 'match', 1 if is_set else 0)
        if 'ns_unsatisfied_flags' in flds and ('yr_bitmask_is_set' in ms or 'yr_bitmask_is_not_set' in ms):
            is_set = pol if 'yr_bitmask_is_set' in ms else (not pol)
            return setf(facts, 'unsat', 1 if is_set else 0)
        if 'RULE_IS_PRIVATE' in ms:
            return setf(facts, 'private', 1 if pol else 0)
        if c['k'] == 'bin' and c['op'] == '&' and 'flags' in flds:
            v = cu.const_of(cu.strip_casts(f, f.kid(c, 1)))
            if v == flagM:
                return setf(facts, 'flagM', 1 if pol else 0)
            if v == flagNM:
                return setf(facts, 'flagNM', 1 if pol else 0)
        if c['k'] == 'bin' and c['op'] in ('!=', '==') and f.show(f.kid(c, 0)) == MSG:
            v = cu.const_of(cu.strip_casts(f, f.kid(c, 1)))
            if v == 0:
                nonzero = (c['op'] == '!=') == pol
                cur = dict((x[0], x[1]) for x in facts).get('msg')
                if nonzero and cur == 0:
                    return None
                if not nonzero and cur not in (0, None):
                    return None
        # when the matching arm is not taken because one operand of the && failed
        return facts
    # the loop body may start with the `int message = 0;` declaration
    paths.explore(f, {('msg', None)}, step, edge, start_block=nb[0], start_index=0, max_states=256)
    ctx.require(seen_states, 'the rule callback call is not reachable from the loop body start')
    for k, msg in sorted(problems.items()):
        ctx.ob('R11.2', 'loop:%s' % k, False, f.loc(call), msg)
    for k in ('private', 'matching', 'not-matching', 'flagM', 'flagNM'):
        if k not in problems:
            ctx.ob('R11.2', 'loop:%s' % k, True, f.loc(call), {
                'private': 'the rule is tested as not private on every path to the callback',
                'matching': 'RULE_MATCHING implies match bit set and namespace satisfied',
                'not-matching': 'RULE_NOT_MATCHING implies the rule did not match or its namespace is unsatisfied',
                'flagM': 'RULE_MATCHING is gated by its report flag',
                'flagNM': 'RULE_NOT_MATCHING is gated by its report flag'}[k])


def r11_3(ctx):
    prog = ctx.prog
    f, call = _reporting_function(ctx)
    ctx.require(call is not None, 'rule-message callback call not found')
    ABORT = prog.macro_value('CALLBACK_ABORT')
    ERR = prog.macro_value('CALLBACK_ERROR')
    ECB = prog.macro_value('ERROR_CALLBACK_ERROR')
    cbs = set(c['i'] for g, c in callback_calls(prog, fixture=ctx.fixture) if g is f)
    # how the call's value is dispatched: a switch on it, or comparisons of it (or of
    # the local that holds it) with the CALLBACK_* constants
    sw = f.parent(call)
    while sw is not None and sw['k'] == 'cast':
        sw = f.parent(sw)
    holder = None
    if sw is not None and sw['k'] == 'decl':
        holder = sw['name']
    elif sw is not None and sw['k'] == 'bin' and sw['op'] == '=':
        l = f.kid(sw, 0)
        holder = l['name'] if l is not None and l['k'] == 'ref' else None
    if sw is not None and sw['k'] != 'switch':
        sw = None
        if holder is not None:
            for n in f.all_nodes():
                if n['k'] == 'switch':
                    c0 = cu.strip_casts(f, f.kid(n, 0))
                    if c0 is not None and c0['k'] == 'ref' and c0['name'] == holder:
                        sw = n

    def is_value(x):
        x = cu.strip_casts(f, x)
        return x is not None and (x is call or (holder is not None and x['k'] == 'ref' and x['name'] == holder))
    compares = [n for n in f.all_nodes() if n['k'] == 'bin' and n['op'] in ('==', '!=') and
                (is_value(f.kid(n, 0)) or is_value(f.kid(n, 1)))]
    ctx.require(sw is not None or compares,
                'the rule callback\'s return value is neither dispatched by a switch nor compared')
    nb = f.block_of(call)
    problems = {}
    reached = set()
    top = ctx.fn('yr_scanner_scan_mem_blocks', 'libyara/scanner.c')
    # the variable whose value the function returns
    RES = None
    for n0 in f.all_nodes():
        if n0['k'] == 'ret' and n0.get('c') and not any(
                m.startswith(('FAIL_ON_', 'GOTO_EXIT_ON_')) for m in f.macros(n0)):
            e0 = cu.strip_casts(f, f.kid(n0, 0))
            if e0 is not None and e0['k'] == 'ref':
                RES = e0['name']

    def step(n, facts):
        d = dict(facts)
        if n['k'] == 'call' and n['i'] in cbs and n is not call and d.get('ret') in ('ABORT', 'ERROR'):
            problems.setdefault(d['ret'] + ':more-callbacks',
                                (n, 'after CALLBACK_%s from a rule message another callback call '
                                 'is reached (%s)' % (d['ret'], f.show_sym(n)[:60])))
            return None
        if n['k'] == 'call' and n['i'] in cbs and n is not call:
            return None
        if n['k'] == 'bin' and n['op'] == '=':
            l = f.kid(n, 0)
            if l is not None and l['k'] == 'ref' and l['name'] == RES:
                v = cu.const_of(cu.strip_casts(f, f.kid(n, 1)))
                return frozenset(x for x in facts if x[0] != 'result') | {('result', v)}
        if n['k'] == 'ret':
            r = d.get('ret')
            if r in ('ABORT', 'ERROR'):
                reached.add(r)
                want = 0 if r == 'ABORT' else ECB
                e = f.kid(n, 0)
                got = cu.const_of(cu.strip_casts(f, e)) if e is not None else None
                if got is None and e is not None and RES is not None and f.show(e) == RES:
                    got = d.get('result')
                if got != want:
                    problems.setdefault(r + ':return-code',
                                        (n, 'after CALLBACK_%s the scan returns %r instead of %r' %
                                         (r, got, want)))
            return None
        return facts

    def retag(facts, tag):
        return frozenset(x for x in facts if x[0] != 'ret') | {('ret', tag)}

    def edge(b, term, cond, idx, succ, facts):
        if sw is not None and term is not None and term is sw:
            cs = paths.switch_case_of(f, term, succ)
            if cs is None or cs['k'] == 'default':
                return retag(facts, 'other')
            v = cs.get('v')
            return retag(facts, 'ABORT' if v == ABORT else 'ERROR' if v == ERR else 'other')
        pol = paths.branch_polarity(f, term, idx)
        if pol is None or cond is None:
            return facts
        c, pol = paths.normalise_cond(f, cond, pol)
        if c is not None and c['k'] == 'bin' and c['op'] in ('==', '!=') and \
                (is_value(f.kid(c, 0)) or is_value(f.kid(c, 1))):
            other = f.kid(c, 1) if is_value(f.kid(c, 0)) else f.kid(c, 0)
            v = cu.const_of(cu.strip_casts(f, other))
            tag = 'ABORT' if v == ABORT else 'ERROR' if v == ERR else None
            if tag is None:
                return facts
            eq = (c['op'] == '==') == pol
            cur = dict(facts).get('ret')
            if eq:
                if cur in ('ABORT', 'ERROR', 'other') and cur != tag and cur is not None:
                    return None if cur in ('ABORT', 'ERROR') else facts
                return retag(facts, tag)
            if cur == tag:
                return None
        return facts
    paths.explore(f, {('ret', None)}, step, edge, start_block=nb[0], start_index=nb[1] + 1,
                  max_states=256)
    if f is not top:
        # the reporting loop lives in a helper: the funnel must hand the helper's
        # code on unchanged, and start no other message after it
        hcalls = [c for c in top.calls() if c.get('callee') == f.name]
        ctx.require(len(hcalls) == 1, 'the reporting helper is called %d times from the scan funnel' % len(hcalls))
        hc = hcalls[0]
        hp = top.parent(hc)
        while hp is not None and hp['k'] == 'cast':
            hp = top.parent(hp)
        hvar = None
        if hp is not None and hp['k'] == 'decl':
            hvar = hp['name']
        elif hp is not None and hp['k'] == 'bin' and hp['op'] == '=':
            l = top.kid(hp, 0)
            hvar = l['name'] if l is not None and l['k'] == 'ref' else None
        direct = hp is not None and hp['k'] == 'ret'
        tcbs = set(c['i'] for g, c in callback_calls(prog, fixture=ctx.fixture) if g is top)
        tb = top.block_of(hc)
        lost = []
        more = []

        def tstep(n, facts):
            if n['k'] == 'call' and n['i'] in tcbs:
                more.append(n)
                return None
            if n['k'] == 'bin' and n['op'].endswith('=') and n['op'] not in ('==', '!=', '<=', '>=') \
                    and n is not hp:
                l = top.kid(n, 0)
                if l is not None and l['k'] == 'ref' and l['name'] == hvar:
                    lost.append(n)
            if n['k'] == 'ret':
                e = cu.strip_casts(top, top.kid(n, 0)) if n.get('c') else None
                if not direct and not (e is not None and e['k'] == 'ref' and e['name'] == hvar):
                    lost.append(n)
                return None
            return facts
        if not direct:
            paths.explore(top, set(), tstep, None, start_block=tb[0], start_index=tb[1] + 1, max_states=64)
        ctx.require(not more, 'a callback call follows the reporting helper in the scan funnel: the '
                              'abort/error discipline cannot be followed across the helper boundary')
        ctx.ob('R11.3', 'rule-message:helper-code-returned', not lost, top.loc(lost[0] if lost else hc),
               'the scan funnel returns the reporting helper\'s code unchanged' if not lost else
               'the code produced by %s after CALLBACK_ABORT / CALLBACK_ERROR is overwritten or not '
               'returned by the scan funnel' % f.name)
    for tag in ('ABORT', 'ERROR'):
        ok_reach = tag in reached
        ks = [k for k in problems if k.startswith(tag)]
        if not ok_reach:
            ctx.ob('R11.3', 'rule-message:%s:handled' % tag, False, f.loc(call),
                   'the rule callback\'s CALLBACK_%s value has no dedicated case leading to a return' % tag)
        for k in ks:
            n, msg = problems[k]
            ctx.ob('R11.3', 'rule-message:%s' % k, False, f.loc(n), msg)
        if ok_reach and not ks:
            ctx.ob('R11.3', 'rule-message:%s:stops-and-returns' % tag, True, f.loc(call),
                   'CALLBACK_%s stops all further messages and returns %s' % (
                       tag, 'ERROR_SUCCESS' if tag == 'ABORT' else 'ERROR_CALLBACK_ERROR'))
    # SCAN_FINISHED comes after the loop's normal exit only: it must not be
    # reachable from the _exit label's other predecessors — implied by the
    # "no further callback after abort/error" rule above plus its position
    # after the loop; check that it is not inside the loop and not after _exit.
    fin = [c for g, c in callback_calls(prog, fixture=ctx.fixture) if g is f and c is not call and
           'CALLBACK_MSG_SCAN_FINISHED' in (message_values(prog, f, f.call_args(c)[1]) or ())]
    if fin:
        c = fin[0]
        in_loop = any(a['k'] in ('for', 'while', 'do') for a in f.ancestors(c))
        after_exit = False
        for n in f.all_nodes():
            if n['k'] == 'label' and n.get('name') == '_exit' and n.get('l', 0) < c.get('l', 0):
                after_exit = True
        ctx.ob('R11.3', 'scan-finished:after-normal-loop-exit', not in_loop and not after_exit,
               f.loc(c), 'SCAN_FINISHED is emitted once, after the loop and before the common exit'
               if not in_loop and not after_exit else
               'SCAN_FINISHED is emitted inside a loop or on the common exit path')
    # yr_modules_load (and the static helpers it is built from)
    g = ctx.fn('yr_modules_load', 'libyara/modules.c')
    gfam = cu.family(prog, g)
    gcalls = [(h, c) for h, c in callback_calls(prog, fixture=ctx.fixture) if h in gfam]
    ctx.require(len(gcalls) >= 2 or ctx.fixture, 'module import messages not found in yr_modules_load')
    for h, c in gcalls:
        ms = message_values(prog, h, h.call_args(c)[1]) or set(['?'])
        m = sorted(ms)[0]
        in_loop = any(a['k'] in ('for', 'while', 'do') for a in h.ancestors(c))
        hsites = [x for x in g.calls() if x.get('callee') == h.name] if h is not g else []
        if h is not g:
            in_loop = in_loop or len(hsites) != 1 or \
                any(a['k'] in ('for', 'while', 'do') for x in hsites for a in g.ancestors(x))
        ctx.ob('R11.3', 'yr_modules_load:%s:not-in-loop' % m, not in_loop, h.loc(c),
               '%s is emitted at most once per yr_modules_load call' % m)
        # CALLBACK_ERROR -> return ERROR_CALLBACK_ERROR
        nbk = h.block_of(c)
        bad = []
        seen = [False]
        hold = paths.value_holder(h, c)
        hvar = hold[1] if hold[0] == 'var' else None

        def is_val(x, h=h, c=c, hvar=hvar):
            x = cu.strip_casts(h, x)
            while x is not None and x['k'] == 'paren':
                x = cu.strip_casts(h, h.kid(x, 0))
            return x is not None and (x is c or (hvar is not None and x['k'] == 'ref' and x['name'] == hvar))

        def value_of(e, facts, h=h):
            """constant a returned expression has on this path (follows ?: arms)"""
            e = cu.strip_casts(h, e)
            while e is not None and e['k'] == 'paren':
                e = cu.strip_casts(h, h.kid(e, 0))
            if e is None:
                return None
            if e['k'] == 'cond':
                for x in facts:
                    if isinstance(x, tuple) and x[0] == 'arm' and x[1] == e['i']:
                        return value_of(h.kid(e, 1 if x[2] else 2), facts)
                return None
            if e['k'] == 'ref':
                for x in facts:
                    if isinstance(x, tuple) and x[0] == 'var' and x[1] == e['name']:
                        return x[2]
            return cu.const_of(e)

        def step2(n, facts, c=c, h=h):
            # `result = ERROR_X;` followed by `goto cleanup; ... return result;`
            if n['k'] == 'bin' and n['op'] == '=':
                l_ = cu.strip_casts(h, h.kid(n, 0))
                if l_ is not None and l_['k'] == 'ref' and l_.get('dk') == 'local':
                    v_ = cu.const_of(cu.strip_casts(h, h.kid(n, 1)))
                    facts = frozenset(x for x in facts if not (isinstance(x, tuple) and x[0] == 'var' and
                                                               x[1] == l_['name']))
                    if v_ is not None:
                        facts = facts | {('var', l_['name'], v_)}
            if n['k'] == 'ret' and 'cberr' in facts:
                seen[0] = True
                if value_of(h.kid(n, 0), facts) != ECB:
                    bad.append(n)
                return None
            if n['k'] == 'ret':
                return None
            if n['k'] == 'call' and n is not c and n.get('fntype') == CB_TYPE and 'cberr' in facts:
                bad.append(n)
                return None
            return facts

        def edge2(b, term, cond, idx, succ, facts, h=h):
            pol = paths.branch_polarity(h, term, idx)
            if pol is None or cond is None:
                return facts
            if term is not None and term['k'] == 'cond':
                facts = frozenset(facts) | {('arm', term['i'], pol)}
            cc, pol2 = paths.normalise_cond(h, cond, pol)
            while cc is not None and cc['k'] == 'paren':
                cc = cu.strip_casts(h, h.kid(cc, 0))
            if cc is not None and cc['k'] == 'bin' and cc['op'] in ('==', '!='):
                for x, y in ((h.kid(cc, 0), h.kid(cc, 1)), (h.kid(cc, 1), h.kid(cc, 0))):
                    if is_val(x) and cu.const_of(cu.strip_casts(h, y)) == ERR:
                        if (cc['op'] == '==') == pol2:
                            return frozenset(facts) | {'cberr'}
                        if 'cberr' in facts:
                            return None
            return facts
        paths.explore(h, set(), step2, edge2, start_block=nbk[0], start_index=nbk[1] + 1, max_states=128)
        ok = seen[0] and not bad
        where = h.loc(c)
        if ok and h is not g:
            # the helper's ERROR_CALLBACK_ERROR must leave yr_modules_load unchanged
            for x in hsites:
                good, at = paths.error_propagated(g, x)
                if not good:
                    ok = False
                    where = g.loc(at if at is not None else x)
        ctx.ob('R11.3', 'yr_modules_load:%s:CALLBACK_ERROR-fails-the-load' % m, ok, where,
               'CALLBACK_ERROR in response to %s makes yr_modules_load return '
               'ERROR_CALLBACK_ERROR' % m if ok else
               'CALLBACK_ERROR in response to %s is not turned into ERROR_CALLBACK_ERROR' % m)
    # already loaded -> no message.  The looked-up object is whatever variable
    # receives the result of the table lookup.
    bad = []
    lookups = [x for x in g.calls() if (x.get('callee') or '').startswith('yr_hash_table_lookup')]
    found_lookup = [bool(lookups)]
    lvar = None
    if lookups:
        hold = paths.value_holder(g, lookups[0])
        lvar = hold[1] if hold[0] == 'var' else None
    ctx.require(lvar is not None or ctx.fixture, 'the module lookup result is not kept in a variable')
    msg_fns = set(h.name for h, c in gcalls if h is not g)

    def step3(n, facts):
        if 'loaded' in facts and n['k'] == 'call' and (n.get('fntype') == CB_TYPE or
                                                       n.get('callee') in msg_fns):
            bad.append(n)
            return None
        if n['k'] == 'ret':
            return None
        return facts
    ct3 = paths.CondTracker(g, extra=[lvar] if lvar else [])

    def edge3(b, term, cond, idx, succ, facts):
        pol = paths.branch_polarity(g, term, idx)
        if pol is None or cond is None:
            return facts
        imp = ct3.implied(cond, pol)
        if imp is not None and imp[1] == lvar and imp[2] == 0 and 'decided' not in facts:
            return facts | {'decided'} | ({'loaded'} if imp[0] == 'ne' else set())
        return facts
    paths.explore(g, set(), step3, edge3, max_states=64)
    decided = any(True for n in g.all_nodes() if n['k'] in ('if', 'cond') and lvar and
                  any(x['k'] == 'ref' and x['name'] == lvar for x in g.walk(g.kid(n, 0))))
    ctx.ob('R11.3', 'yr_modules_load:already-loaded-is-silent', found_lookup[0] and decided and not bad,
           '%s:%s' % (g.file, g.line),
           'a module already present in the scanner\'s table produces no message'
           if found_lookup[0] and decided and not bad else
           'a module already loaded still produces an import message' if bad else
           'the result of the module lookup is never tested')
    # OP_IMPORT: non-success stops the VM
    vmf, vm = vm_groups(ctx)
    v = prog.macro_value('OP_IMPORT')
    ok = False
    if v in vm:
        labels, stmts = vm[v]
        txt = ' '.join(vmf.show(x) for x in cu.group_nodes(vmf, stmts) if x['k'] in ('if', 'bin'))
        ok = any(x['k'] == 'bin' and x['op'] == '=' and vmf.show(vmf.kid(x, 0)) == 'stop'
                 for x in cu.group_nodes(vmf, stmts)) and \
            any(x['k'] == 'call' and x.get('callee') == 'yr_modules_load'
                for x in cu.group_nodes(vmf, stmts))
    ctx.ob('R11.3', 'OP_IMPORT:error-stops-evaluation', ok, 'libyara/exec.c',
           'a failing yr_modules_load stops rule evaluation with its error' if ok else
           'OP_IMPORT no longer stops evaluation when yr_modules_load fails')


def r11_4(ctx):
    prog = ctx.prog
    cg = CallGraph(prog)
    E = Effects(prog, cg)
    vmf, vm = vm_groups(ctx)
    allowed_cases = {'rule_matches_flags': ('OP_MATCH_RULE',),
                     'ns_unsatisfied_flags': ('OP_INIT_RULE', 'OP_MATCH_RULE')}
    case_of_line = {}
    for v, (labels, stmts) in vm.items():
        names = [cu.case_label_name(l) for l in labels]
        for x in cu.group_nodes(vmf, stmts):
            case_of_line[x['i']] = names
    n = 0
    for f in prog.fns():
        if not f.file.startswith('libyara/') and not ctx.fixture:
            continue
        for e, node in E.direct[(f.tu.name, f.name)]:
            if e[0] != 'field' or e[1] != 'YR_SCAN_CONTEXT':
                continue
            fld = e[2].replace('[]', '')
            if fld not in allowed_cases:
                continue
            n += 1
            if f.name == '_yr_scanner_clean_matches' or f.name == 'yr_scanner_create':
                ok, why = True, 'cleaner/creator'
            elif f is vmf:
                names = case_of_line.get(node['i'], [])
                ok = any(nm in allowed_cases[fld] for nm in names)
                why = 'handler of %s' % '/'.join(names)
            elif cu.only_called_from(f, set([vmf.name])):
                # a static helper of the VM: the write belongs to the handlers that call it
                sites = [c for c in vmf.calls() if c.get('callee') == f.name]
                hn = set(nm for c in sites for nm in case_of_line.get(c['i'], ['?']))
                ok = bool(sites) and all(nm in allowed_cases[fld] for nm in hn)
                why = 'helper %s of the handler(s) of %s' % (f.name, '/'.join(sorted(hn)))
            else:
                ok, why = False, f.name
            ctx.ob('R11.4', '%s:writes:%s:%s' % (f.name, fld, why.replace(' ', '-')), ok, f.loc(node),
                   '%s is written by the %s' % (fld, why) if ok else
                   '%s is written outside OP_INIT_RULE/OP_MATCH_RULE and the cleaner (%s): '
                   'the reported verdicts no longer come from rule evaluation alone' % (fld, why))
    ctx.count('bookkeeping_writes', n)


FIXTURES = {
    'R11.1': {'src': 'C11/proto.c', 'run': r11_1, 'expect': 'stray:emits:CALLBACK_MSG_SCAN_FINISHED'},
    'R11.2': {'src': 'C11/proto.c', 'run': r11_2, 'expect': 'loop:private', 'expect_ok': 'loop:flagM'},
}


def r11_5(ctx):
    """a global rule that is not reported as matching marks its namespace as
    unsatisfied: in the handler that ends a rule (OP_MATCH_RULE) every path sets the
    rule's match bit, or found the rule not global, or sets the namespace's bit; in the
    handler that starts one (OP_INIT_RULE) the same on the paths that skip the rule"""
    prog = ctx.prog
    vmf, vm = vm_groups(ctx)
    from .C04 import _post_switch_block
    byname = {}
    for v, (labels, stmts) in vm.items():
        for l in labels:
            byname[cu.case_label_name(l)] = (labels, stmts)
    # static helpers of the VM that, on every path, either find their rule not global or
    # mark its namespace (a "this rule is false" helper)
    marking_helpers = set()
    for h in cu.family(prog, vmf)[1:]:
        okpaths = [True]
        seen_any = [False]

        def hstep(n, facts, h=h):
            if n['k'] == 'bin' and n['op'] == '|=' and 'yr_bitmask_set' in h.macros(n) and \
                    any(x['k'] == 'member' and x['fld'] == 'ns_unsatisfied_flags' for x in h.walk(h.kid(n, 0))):
                seen_any[0] = True
                return facts | {'nsset'}
            if n['k'] == 'ret':
                if not (facts & {'nsset', 'notglobal'}):
                    okpaths[0] = False
                return None
            return facts

        def hedge(b, term, cond, idx, succ, facts, h=h):
            if succ == h.exit and not (facts & {'nsset', 'notglobal'}):
                last = h.node(h.blocks[b]['e'][-1]) if h.blocks[b]['e'] else None
                if last is None or last['k'] != 'ret':
                    okpaths[0] = False
            pol = paths.branch_polarity(h, term, idx)
            if pol is None or cond is None:
                return facts
            c, p2 = paths.normalise_cond(h, cond, pol)
            if c is None:
                return facts
            ms = set(h.macros(c)) | set(m for x in h.walk(c) for m in h.macros(x))
            if 'RULE_IS_GLOBAL' in ms:
                return (facts | {'notglobal'}) if not p2 else (facts - {'notglobal'})
            return facts
        try:
            paths.explore(h, set(), hstep, hedge, max_states=64)
        except paths.Budget:
            continue
        if seen_any[0] and okpaths[0]:
            marking_helpers.add(h.name)
    for opname, only_when in (('OP_MATCH_RULE', None), ('OP_INIT_RULE', 'skipped')):
        if opname not in byname:
            ctx.require(ctx.fixture, '%s has no handler' % opname)
            continue
        labels, stmts = byname[opname]
        start = cu.label_block(vmf, labels[0])
        sw = None
        for a in vmf.ancestors(labels[0]):
            if a['k'] == 'switch':
                sw = a
                break
        post = _post_switch_block(vmf, sw)
        ctx.require(start is not None and post is not None, 'handler of %s not delimited' % opname)
        bad = []
        # the variable that says "this rule is skipped": the first argument of jmp_if
        # (a constant true argument means the path through that call is the skipped one)
        skipvar = None
        always = set()
        for x in cu.group_nodes(vmf, stmts):
            if x['k'] == 'call' and x.get('callee') == 'jmp_if':
                a0 = cu.strip_casts(vmf, vmf.call_args(x)[0])
                if a0 is not None and a0['k'] == 'ref':
                    skipvar = a0['name']
                elif a0 is not None and (cu.const_of(a0) or 0) != 0:
                    always.add(x['i'])

        def which_mask(n, fn=None):
            fn = fn or vmf
            if n['k'] == 'bin' and n['op'] == '|=' and 'yr_bitmask_set' in fn.macros(n):
                flds = set(x['fld'] for x in fn.walk(fn.kid(n, 0)) if x['k'] == 'member')
                if 'rule_matches_flags' in flds:
                    return 'matchset'
                if 'ns_unsatisfied_flags' in flds:
                    return 'nsset'
            if n['k'] == 'call' and n.get('callee') in marking_helpers:
                return 'nsset'
            return None

        from ..vmroles import vm_roles
        STOP = vm_roles(prog, vmf).stop

        def step(n, facts):
            m = which_mask(n)
            if m:
                return facts | {m}
            if n['i'] in always:
                return facts | {'skipped'}
            if n['k'] == 'bin' and n['op'] == '=' and STOP is not None:
                l = cu.strip_casts(vmf, vmf.kid(n, 0))
                if l is not None and l['k'] == 'ref' and l['name'] == STOP and \
                        cu.const_of(cu.strip_casts(vmf, vmf.kid(n, 1))) == 1:
                    return facts | {'aborting'}      # evaluation is being abandoned with an error
            if n['k'] == 'ret':
                return None
            return facts

        def edge(b, term, cond, idx, succ, facts, only_when=only_when):
            if succ == post:
                need = (only_when is None or only_when in facts) and 'aborting' not in facts
                if need and not (facts & {'matchset', 'nsset', 'notglobal'}):
                    bad.append(term if term is not None else vmf.node(vmf.blocks[b]['e'][-1]))
                return None
            pol = paths.branch_polarity(vmf, term, idx)
            if pol is None or cond is None:
                return facts
            c, p2 = paths.normalise_cond(vmf, cond, pol)
            if c is None:
                return facts
            ms = set(vmf.macros(c)) | set(m for x in vmf.walk(c) for m in vmf.macros(x))
            if 'RULE_IS_GLOBAL' in ms:
                if not p2:
                    return facts | {'notglobal'}
                return facts - {'notglobal'}
            cs = cu.strip_casts(vmf, c)
            if skipvar is not None and cs is not None and cs['k'] == 'ref' and cs['name'] == skipvar:
                return (facts | {'skipped'}) if p2 else (facts - {'skipped'})
            return facts
        try:
            paths.explore(vmf, set(), step, edge, start_block=start, max_states=512)
        except paths.Budget as e:
            ctx.require(False, str(e))
        if only_when == 'skipped':
            ctx.require(skipvar is not None or always or ctx.fixture, 'OP_INIT_RULE: the skip condition is not recognised')
        ctx.ob('R11.5', '%s:global-rule-not-matching-marks-namespace' % opname, not bad,
               vmf.loc(bad[0]) if bad else vmf.loc(labels[0]),
               'every path of %s that leaves a rule unmatched%s found it not global or sets its '
               'namespace\'s unsatisfied bit' % (opname, ' (skipped)' if only_when else '') if not bad else
               'a path through %s leaves a rule unmatched without marking the namespace of a global '
               'rule as unsatisfied: the other rules of that namespace are reported as matching although '
               'a global rule does not hold' % opname)


def run(ctx):
    r11_1(ctx)
    ctx.floor('R11.1', 12)
    r11_2(ctx)
    ctx.floor('R11.2', 6)
    r11_3(ctx)
    ctx.floor('R11.3', 6)
    r11_4(ctx)
    ctx.floor('R11.4', 3)
    r11_5(ctx)
    ctx.floor('R11.5', 2)

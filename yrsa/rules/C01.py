"""C01 — text-string matches are exactly the documented occurrences.

Which offsets are reported for an arbitrary pattern and buffer is a function of
run-time data (atom choice, automaton contents) and is NOT decided.  Decided
are three structural clauses every occurrence report depends on (DESIGN.md §4
C01–C03):
  R1.1 verifier family: for each of the six literal comparers the multiplier
       in the size guard, the stride of the data cursor per compared
       character, the furthest look-ahead and the multiplier of the returned
       length agree (1 for ascii, 2 for wide), the guard's failing edge is
       taken before any byte of the data is read, and a successful compare
       returns i == string_length;
  R1.2 dispatch: each comparer is called only on paths on which the string
       flags it implements (wide/ascii, nocase, xor) were tested true, with
       (data + offset, data_size - offset, string->string, string->length);
  R1.3 automaton-hit verification: every call of yr_scan_verify_match in the
       block scanner passes offset i - match->backtrack under the guard
       match->backtrack <= i, walks the whole match list of the state, and
       the in-loop and end-of-block copies are the same code (the
       end-of-block copy is what finds occurrences ending at the last byte).
"""
from .. import cfgutil as cu
from .. import paths
from .C14 import canon, rcanon, _explore_facts, _linsum

LEVEL = 'other'
EXPLANATION = (
    'Per-comparer extraction of guard multiplier, cursor stride, look-ahead and '
    'returned-length multiplier from the typed AST with a path-sensitive '
    'must-hold check that the size guard was passed before any data byte is '
    'read; must-hold flag facts at every comparer call site of the dispatcher; '
    'clone comparison and guard dominance for the two automaton-hit '
    'verification loops.')
ASSUMPTIONS = [
    'COMPARERS table (name -> wide, nocase, xor) is read from the function names and bodies and '
    'frozen; a new comparer lowers no count but is reported by R1.2 as an unknown callee',
]

# name: (wide, nocase, xor)
COMPARERS = {
    '_yr_scan_compare': (False, False, False),
    '_yr_scan_icompare': (False, True, False),
    '_yr_scan_wcompare': (True, False, False),
    '_yr_scan_wicompare': (True, True, False),
    '_yr_scan_xor_compare': (False, False, True),
    '_yr_scan_xor_wcompare': (True, False, True),
}
DISPATCHER = '_yr_scan_verify_literal_match'
BLOCK_SCANNER = '_yr_scanner_scan_mem_block'


def _mult(f, e, var):
    """e is `var` or `var * c` / `c * var`: returns c (1 for bare var) or None"""
    e = cu.strip_casts(f, e)
    if e is None:
        return None
    if e['k'] == 'ref' and e['name'] == var:
        return 1
    if e['k'] == 'bin' and e['op'] == '*':
        a, b = cu.strip_casts(f, f.kid(e, 0)), cu.strip_casts(f, f.kid(e, 1))
        for x, y in ((a, b), (b, a)):
            if x is not None and x['k'] == 'ref' and x['name'] == var and cu.const_of(y) is not None:
                return cu.const_of(y)
    return None


def _lt_form(f, c, pol):
    """a relational branch condition and its outcome as (`l < r`, truth): `a < b`,
    `b > a`, `!(a >= b)` and `!(b <= a)` are the same fact.  (l node, r node, bool) or None"""
    c = cu.strip_casts(f, c)
    if c is None or c['k'] != 'bin' or c['op'] not in ('<', '<=', '>', '>='):
        return None
    l, r = f.kid(c, 0), f.kid(c, 1)
    if c['op'] == '<':
        return l, r, pol
    if c['op'] == '>=':
        return l, r, not pol
    if c['op'] == '>':
        return r, l, pol
    return r, l, not pol


def _eq_form(f, c, pol):
    """(`l == r`, truth) for an equality test or its negation"""
    c = cu.strip_casts(f, c)
    if c is None or c['k'] != 'bin' or c['op'] not in ('==', '!='):
        return None
    return f.kid(c, 0), f.kid(c, 1), (pol if c['op'] == '==' else not pol)


class _Comparer(object):
    """One literal comparer, read as: a size guard, a counting loop `ctr < length`, reads
    of the data at a * ctr + c, and a returned length.  The data may be walked by a
    cursor (`*s1++`, `s1 += 2`, `*(s1 + 1)`), by index (`data[pos]`, `data[2 * pos + 1]`)
    or through a local naming `data + 2 * pos`."""

    def __init__(self, f):
        self.f = f
        ps = [p['name'] for p in f.params]
        self.data, self.dsize, self.s, self.slen = ps[0], ps[1], ps[2], ps[3]
        self.key_out = ps[4] if len(ps) > 4 else None
        self.loops = [n for n in f.all_nodes() if n['k'] in ('while', 'for', 'do')]
        # the counter: compared with the length by a loop condition, stepped inside the loop
        self.ctr = None
        for lp in self.loops:
            for x in f.walk(self._loop_cond(lp)):
                fm = _lt_form(f, x, True)
                if fm is not None and canon(f, fm[1]) == self.slen:
                    l = cu.strip_casts(f, fm[0])
                    if l is not None and l['k'] == 'ref':
                        self.ctr = l['name']
        self.cursors = {}        # pointer local -> (base, stride per iteration)
        for base in (self.data, self.s):
            fam = set([base])
            for d in f.all_nodes():
                if d['k'] == 'decl' and d.get('c') and canon(f, f.kid(d, 0)) in fam and \
                        not self._in_loop(d):
                    fam.add(d['name'])
            for nm in fam:
                stride = 0
                for n in f.all_nodes():
                    if not self._in_loop(n):
                        continue
                    if n['k'] == 'un' and n['op'] in ('post++', '++') and canon(f, f.kid(n, 0)) == nm:
                        stride += 1
                    if n['k'] == 'bin' and n['op'] == '+=' and canon(f, f.kid(n, 0)) == nm:
                        stride += cu.const_of(cu.strip_casts(f, f.kid(n, 1))) or 99
                self.cursors[nm] = (base, stride)

    def _loop_cond(self, lp):
        f = self.f
        if lp['k'] == 'for':
            parts = lp.get('parts', [])
            return f.node(parts[1]) if len(parts) > 1 and parts[1] >= 0 else None
        if lp['k'] == 'while':
            return f.kid(lp, 0)
        ks = f.kids(lp)
        return ks[-1] if ks else None

    def _in_loop(self, n):
        return any(a['k'] in ('while', 'for', 'do') for a in self.f.ancestors(n)) or \
            any(lp is not None and any(x is n for x in self.f.walk(self._loop_cond(lp))) for lp in self.loops)

    def _lin(self, e):
        """e as a * ctr + c: (a, c) or None"""
        f = self.f
        e = cu.strip_casts(f, e)
        if e is None:
            return None
        v = cu.const_of(e)
        if v is not None:
            return (0, v)
        if e['k'] == 'ref':
            if e['name'] == self.ctr:
                return (1, 0)
            d = cu.stable_def_of(f, e)
            return self._lin(d) if d is not None else None
        if e['k'] == 'bin' and e['op'] in ('+', '-'):
            x, y = self._lin(f.kid(e, 0)), self._lin(f.kid(e, 1))
            if x is None or y is None:
                return None
            sg = 1 if e['op'] == '+' else -1
            return (x[0] + sg * y[0], x[1] + sg * y[1])
        if e['k'] == 'bin' and e['op'] == '*':
            x, y = self._lin(f.kid(e, 0)), self._lin(f.kid(e, 1))
            if x is None or y is None:
                return None
            if x[0] == 0:
                return (x[1] * y[0], x[1] * y[1])
            if y[0] == 0:
                return (y[1] * x[0], y[1] * x[1])
            return None
        if e['k'] == 'bin' and e['op'] == '<<':
            x, y = self._lin(f.kid(e, 0)), self._lin(f.kid(e, 1))
            if x is None or y is None or y[0] != 0:
                return None
            return (x[0] << y[1], x[1] << y[1])
        return None

    def _ptr(self, e, depth=0):
        """pointer expression e as (base, a, c): base + a * ctr + c"""
        f = self.f
        e = cu.strip_casts(f, e)
        if e is None or depth > 6:
            return None
        if e['k'] == 'un' and e['op'] in ('post++', '++'):
            return self._ptr(f.kid(e, 0), depth + 1)
        if e['k'] == 'ref':
            if e['name'] in self.cursors:
                base, stride = self.cursors[e['name']]
                return (base, stride, 0)
            d = cu.stable_def_of(f, e)
            return self._ptr(d, depth + 1) if d is not None else None
        if e['k'] == 'bin' and e['op'] == '+':
            for x, y in ((f.kid(e, 0), f.kid(e, 1)), (f.kid(e, 1), f.kid(e, 0))):
                p0 = self._ptr(x, depth + 1)
                ln = self._lin(y)
                if p0 is not None and ln is not None:
                    return (p0[0], p0[1] + ln[0], p0[2] + ln[1])
        return None

    def reads(self, base):
        """[(node, a, c, in loop)]: dereferences and subscripts that read `base`"""
        f = self.f
        out = []
        for n in f.all_nodes():
            pt = None
            if n['k'] == 'un' and n['op'] == '*':
                pt = self._ptr(f.kid(n, 0))
            elif n['k'] == 'sub':
                p0 = self._ptr(f.kid(n, 0))
                ln = self._lin(f.kid(n, 1))
                if p0 is not None:
                    pt = (p0[0], p0[1] + ln[0], p0[2] + ln[1]) if ln is not None else (p0[0], 99, 99)
            if pt is not None and pt[0] == base:
                par = f.parent(n)
                if par is not None and par['k'] == 'bin' and par['op'] == '=' and f.kid(par, 0) is n:
                    continue
                out.append((n, pt[1], pt[2], self._in_loop(n)))
        return out

    def guard(self):
        """(node, multiplier) of the test `data_size < string_length * m` in whatever form"""
        f = self.f
        best = None
        for n in f.all_nodes():
            if n['k'] not in ('if', 'cond'):
                continue
            for x in f.walk(f.kid(n, 0)):
                fm = _lt_form(f, x, True)
                if fm is not None and canon(f, fm[0]) == self.dsize:
                    m = _mult(f, fm[1], self.slen)
                    if m is not None:
                        best = (n, x, m)
        return best

    def facts_at(self, at):
        """must-hold facts in front of the nodes `at`: ('fits', m) = data_size >= length * m
        was established, ('inb',) = ctr < length holds"""
        f = self.f
        seen = {}

        def step(n, facts):
            if n['i'] in at:
                cur = seen.get(n['i'])
                seen[n['i']] = set(facts) if cur is None else (cur & set(facts))
            w = None
            if n['k'] == 'bin' and n['op'].endswith('=') and n['op'] not in ('==', '!=', '<=', '>='):
                w = cu.strip_casts(f, f.kid(n, 0))
            elif n['k'] == 'un' and n['op'] in ('++', '--', 'post++', 'post--'):
                w = cu.strip_casts(f, f.kid(n, 0))
            if w is not None and w['k'] == 'ref' and w['name'] == self.ctr:
                return frozenset(x for x in facts if x[0] != 'inb')
            if n['k'] == 'ret':
                return None
            return facts

        def edge(b, term, cond, idx, succ, facts):
            pol = paths.branch_polarity(f, term, idx)
            if pol is None or cond is None:
                return facts
            c, p2 = paths.normalise_cond(f, cond, pol)
            fm = _lt_form(f, c, p2) if c is not None else None
            if fm is None:
                return facts
            if canon(f, fm[0]) == self.dsize and not fm[2]:
                m = _mult(f, fm[1], self.slen)
                if m is not None:
                    return frozenset(facts) | {('fits', m)}
            if self.ctr and canon(f, fm[0]) == self.ctr and canon(f, fm[1]) == self.slen and fm[2]:
                return frozenset(facts) | {('inb',)}
            return facts
        paths.explore(f, set(), step, edge, max_states=50000)
        return seen

    # -- returned length ---------------------------------------------------
    def _form(self, e, facts):
        """what an expression yields: 0, ('len', m) = length * m for a complete compare,
        or ('bad', text)"""
        f = self.f
        e = cu.strip_casts(f, e)
        if e is None:
            return ('bad', '?')
        if cu.const_of(e) == 0:
            return 0
        if e['k'] == 'cond':
            c = f.kid(e, 0)
            fm = _eq_form(f, c, True)
            complete = fm is not None and set([canon(f, fm[0]), canon(f, fm[1])]) == set([self.ctr, self.slen])
            a = self._form(f.kid(e, 1), facts | {('done',)} if complete else facts)
            b = self._form(f.kid(e, 2), facts)
            if b == 0:
                return a
            return ('bad', canon(f, e)[:60])
        if e['k'] == 'ref':
            for x in facts:
                if x[0] == 'val' and x[1] == e['name']:
                    return x[2]
        for var in (self.slen, self.ctr):
            m = _mult(f, e, var) if var else None
            if m is not None:
                if ('done',) in facts:
                    return ('len', m)
                return ('bad', '%s although the compare may be incomplete' % canon(f, e)[:40])
        return ('bad', canon(f, e)[:60])

    def returns(self):
        """[(ret node, form)] over all paths"""
        f = self.f
        out = {}
        conds = set()
        for lp in self.loops:
            c = self._loop_cond(lp)
            if c is not None:
                conds |= set(x['i'] for x in f.walk(c))

        def setval(facts, name, form):
            return frozenset(x for x in facts if not (x[0] == 'val' and x[1] == name)) | {('val', name, form)}

        def step(n, facts):
            if n['k'] == 'decl' and n.get('c') and n.get('t', '').replace('const ', '') in (
                    'int', 'size_t', 'unsigned int', 'uint32_t', 'int32_t', 'long', 'unsigned long'):
                if n['name'] != self.ctr:
                    return setval(facts, n['name'], self._form(f.kid(n, 0), facts))
            if n['k'] == 'bin' and n['op'] == '=':
                l = cu.strip_casts(f, f.kid(n, 0))
                if l is not None and l['k'] == 'ref' and l['name'] != self.ctr and \
                        l['name'] not in self.cursors:
                    return setval(facts, l['name'], self._form(f.kid(n, 1), facts))
            w = None
            if n['k'] == 'bin' and n['op'].endswith('=') and n['op'] not in ('==', '!=', '<=', '>='):
                w = cu.strip_casts(f, f.kid(n, 0))
            elif n['k'] == 'un' and n['op'] in ('++', '--', 'post++', 'post--'):
                w = cu.strip_casts(f, f.kid(n, 0))
            if w is not None and w['k'] == 'ref' and w['name'] == self.ctr:
                return frozenset(x for x in facts if x[0] != 'done')
            if n['k'] == 'ret':
                form = self._form(f.kid(n, 0), facts) if n.get('c') else ('bad', 'nothing')
                out.setdefault(n['i'], set()).add(form)
                return None
            return facts

        def edge(b, term, cond, idx, succ, facts):
            pol = paths.branch_polarity(f, term, idx)
            if pol is None or cond is None:
                return facts
            c, p2 = paths.normalise_cond(f, cond, pol)
            if c is None:
                return facts
            fm = _eq_form(f, c, p2)
            if fm is not None and set([canon(f, fm[0]), canon(f, fm[1])]) == set([self.ctr, self.slen]):
                if fm[2]:
                    return frozenset(facts) | {('done',)}
                return frozenset(x for x in facts if x[0] != 'done')
            fm = _lt_form(f, c, p2)
            if fm is not None and canon(f, fm[0]) == self.ctr and canon(f, fm[1]) == self.slen and \
                    not fm[2] and cond['i'] in conds:
                # the loop ran out of characters: every one compared equal (a mismatch leaves
                # the loop by another edge)
                return frozenset(facts) | {('done',)}
            return facts
        paths.explore(f, set(), step, edge, max_states=50000)
        return [(f.node(i), fm) for i, fms in sorted(out.items()) for fm in sorted(fms, key=repr)]


def r1_1(ctx):
    prog = ctx.prog
    for name, (wide, nocase, xor) in sorted(COMPARERS.items()):
        f = prog.fn(name, 'libyara/scan.c')
        if f is None:
            ctx.require(ctx.fixture, 'comparer %s not found' % name)
            continue
        want = 2 if wide else 1
        where = '%s:%s' % (f.file, f.line)
        cm = _Comparer(f)
        slen, ctr = cm.slen, cm.ctr
        guard = cm.guard()
        ctx.ob('R1.1', name + ':size-guard', guard is not None and guard[2] == want,
               f.loc(guard[0]) if guard else where,
               'rejects data_size < string_length * %d' % want if guard is not None and guard[2] == want
               else 'the size guard is %s; a %s comparer needs data_size >= string_length * %d' % (
                   canon(f, guard[1]) if guard else 'missing', 'wide' if wide else 'narrow', want))
        reads = cm.reads(cm.data)
        inloop = [r for r in reads if r[3]]
        strides = sorted(set(r[1] for r in inloop))
        ok = bool(inloop) and strides == [want]
        ctx.ob('R1.1', name + ':cursor-stride', ok, f.loc(inloop[0][0]) if inloop else where,
               'the data position advances %d byte(s) per compared character (%d reads in the loop)' % (
                   want, len(inloop)) if ok else
               'the data position advances %s byte(s) per compared character, the guard and the '
               'format need %d' % ('/'.join(str(x) for x in strides) or '0', want))
        ahead = max([r[2] for r in reads] or [0])
        low = min([r[2] for r in reads] or [0])
        ok = bool(reads) and 0 <= low and ahead < want
        ctx.ob('R1.1', name + ':look-ahead-within-stride', ok, where,
               'reads at most %d byte(s) beyond the position of the current character (%d read sites)' % (
                   ahead, len(reads)) if ok else
               'reads the data %d byte(s) beyond the position of the current character with a stride of %d' % (
                   ahead if ahead >= want else low, want))
        # returned length
        rets = cm.returns()
        bad = [(n, fm) for n, fm in rets if fm != 0 and not (isinstance(fm, tuple) and fm[0] == 'len' and fm[1] == want)]
        some = any(isinstance(fm, tuple) and fm[0] == 'len' for n, fm in rets)
        ok = not bad and some and ctr is not None
        ctx.ob('R1.1', name + ':returned-length', ok, f.loc(bad[0][0]) if bad else where,
               'returns %s * %d when every character compared equal, else 0' % (slen, want) if ok else
               'returns %s: the reported match length must be %s * %d for a complete compare and 0 '
               'otherwise' % (('length * %s' % bad[0][1][1] if bad and bad[0][1][0] == 'len' else bad[0][1][1])
                              if bad else 'no length on any path', slen, want))
        # the guard was passed, and the counter is below the length, in front of every read
        at = set(r[0]['i'] for r in reads)
        try:
            seen = cm.facts_at(at)
        except paths.Budget:
            seen = None
            ctx.note('R1.1 %s: state budget exceeded (guard dominance not decided)' % name)
        if guard is not None and seen is not None:
            badr = [r for r in reads if not any(x[0] == 'fits' for x in (seen.get(r[0]['i']) or set()))]
            ctx.ob('R1.1', name + ':guard-before-read', not badr, f.loc(badr[0][0]) if badr else f.loc(guard[0]),
                   'every read of the data follows the failed test %s' % canon(f, guard[1]) if not badr else
                   'the data is read here on a path that did not pass %s: out-of-bounds read at the '
                   'end of the buffer' % canon(f, guard[1]))
        if seen is not None:
            badb = [r for r in inloop if ('inb',) not in (seen.get(r[0]['i']) or set())]
            ok = ctr is not None and bool(inloop) and not badb
            ctx.ob('R1.1', name + ':loop-bounded-by-length', ok, f.loc(badb[0][0]) if badb else where,
                   'every read inside the compare loop happens under %s < %s' % (ctr, slen) if ok else
                   'the compare loop reads the data without %s < %s holding' % (ctr or 'a counter', slen))
        if nocase:
            folds = [n for n in f.all_nodes() if n['k'] == 'sub' and canon(f, f.kid(n, 0)) == 'yr_lowercase']
            ctx.ob('R1.1', name + ':both-sides-folded', len(folds) == 2, where,
                   'both the data byte and the string byte go through yr_lowercase' if len(folds) == 2
                   else 'yr_lowercase is applied %d time(s): one side of the compare is not case-folded' % len(folds))
        if xor:
            out = [n for n in f.all_nodes() if n['k'] == 'bin' and n['op'] == '=' and
                   canon(f, f.kid(n, 0)) == '*%s' % cm.key_out and
                   cu.strip_casts(f, f.kid(n, 1))['k'] == 'ref']
            kvar = canon(f, f.kid(out[0], 1)) if out else None
            first_d = set(r[0]['i'] for r in reads if not r[3] and r[2] == 0)
            first_s = set(r[0]['i'] for r in cm.reads(cm.s) if not r[3] and r[2] == 0)
            ok = False
            for n in f.all_nodes():
                if n['k'] == 'bin' and n['op'] == '=' and kvar and canon(f, f.kid(n, 0)) == kvar:
                    r = cu.strip_casts(f, f.kid(n, 1))
                    if r is not None and r['k'] == 'bin' and r['op'] == '^':
                        a, b = cu.strip_casts(f, f.kid(r, 0)), cu.strip_casts(f, f.kid(r, 1))
                        if a is not None and b is not None and \
                                ((a['i'] in first_d and b['i'] in first_s) or (a['i'] in first_s and b['i'] in first_d)):
                            ok = True
            ctx.ob('R1.1', name + ':key-from-first-byte-and-reported', ok and bool(out), where,
                   'the key is data[0] ^ string[0] and is stored through %s' % cm.key_out if ok and out else
                   'the xor key is not derived from the first byte pair or not reported')


def r1_2(ctx):
    prog = ctx.prog
    f = prog.fn(DISPATCHER, 'libyara/scan.c')
    if f is None:
        ctx.require(ctx.fixture, 'dispatcher not found')
        return
    fl = {'wide': prog.macro_value('STRING_FLAGS_WIDE'), 'ascii': prog.macro_value('STRING_FLAGS_ASCII'),
          'nocase': prog.macro_value('STRING_FLAGS_NO_CASE'), 'xor': prog.macro_value('STRING_FLAGS_XOR')}
    ctx.require(all(v is not None for v in fl.values()) or ctx.fixture, 'STRING_FLAGS_* not evaluated')
    ps = [p['name'] for p in f.params]
    S = None
    for d in f.all_nodes():
        if d['k'] == 'decl' and d.get('c') and canon(f, f.kid(d, 0)) == '%s->string' % ps[1]:
            S = d['name']
    ctx.require(S is not None or ctx.fixture, 'string variable of the dispatcher not found')
    S = S or 'string'
    data, dsize, off = ps[2], ps[3], ps[5]
    tests = {k: '(%s->flags & %s)' % (S, v) for k, v in fl.items()}
    calls = [c for c in f.calls() if c.get('callee', '').startswith('_yr_scan_') and
             'compare' in c.get('callee', '')]
    seen = _explore_facts(f, set(tests.values()), {}, set(c['i'] for c in calls))
    n = 0
    for c in calls:
        name = c['callee']
        n += 1
        key = '%s@%d' % (name, [x['i'] for x in calls if x['callee'] == name].index(c['i']))
        if name not in COMPARERS:
            ctx.ob('R1.2', key + ':known-comparer', False, f.loc(c),
                   '%s is not in the comparer table: its guard/stride/length were not checked' % name)
            continue
        wide, nocase, xor = COMPARERS[name]
        have = seen.get(c['i']) or set()
        need = ['wide' if wide else 'ascii']
        if nocase:
            need.append('nocase')
        if xor:
            need.append('xor')
        # the narrow xor comparer is the fallback for both encodings of a xor
        # string (a wide xor string whose xored high byte is not the key is
        # reported by the narrow one with the narrow length): only xor is needed
        if name == '_yr_scan_xor_compare':
            need = ['xor']
        missing = [k for k in need if ('T', tests[k]) not in have]
        ctx.ob('R1.2', key + ':called-under-its-flags', not missing, f.loc(c),
               'called only when %s' % ' and '.join('STRING_IS_%s' % k.upper() for k in need)
               if not missing else
               '%s is called on a path that did not establish STRING_IS_%s' % (
                   name, '/'.join(k.upper() for k in missing)))
        if not nocase and not (xor and ('T', tests['nocase']) not in have):
            pass
        args = [rcanon(f, a) for a in f.call_args(c)[:4]]
        Sx = S
        for d_ in f.all_nodes():
            if d_['k'] == 'decl' and d_['name'] == S and d_['i'] in cu.stable_defs(f):
                Sx = canon(f, cu.stable_defs(f)[d_['i']], 0, True)
        ok = args == ['(%s + %s)' % (data, off), '(%s - %s)' % (dsize, off), '%s->string' % Sx,
                      '%s->length' % Sx]
        ctx.ob('R1.2', key + ':arguments', ok, f.loc(c),
               'compares (data + offset, data_size - offset) with (string->string, string->length)'
               if ok else 'called with (%s)' % ', '.join(args))
    ctx.count('comparer_call_sites', n)
    # nocase strings never reach a case-sensitive comparer
    for c in calls:
        name = c['callee']
        if name in COMPARERS and not COMPARERS[name][1] and not COMPARERS[name][2]:
            have = seen.get(c['i']) or set()
            key = '%s@%d' % (name, [x['i'] for x in calls if x['callee'] == name].index(c['i']))
            ok = ('F', tests['nocase']) in have
            ctx.ob('R1.2', key + ':not-for-nocase', ok, f.loc(c),
                   'the case-sensitive comparer runs only when STRING_IS_NO_CASE is false' if ok else
                   'a case-sensitive comparer can run for a nocase string')


def _verify_sites(f):
    return [c for c in f.calls() if c.get('callee') == 'yr_scan_verify_match']


class _VerifyUnit(object):
    """One place where automaton hits are verified: the call of yr_scan_verify_match
    together with the function it sits in - the block scanner itself, or a static helper
    the block scanner hands (match list, data, block, position) to."""

    def __init__(self, g, call):
        self.g, self.call = g, call
        a = g.call_args(call)
        self.args = a
        self.M = canon(g, a[1]) if len(a) > 1 else '?'
        self.data = canon(g, a[2]) if len(a) > 2 else '?'
        last = cu.strip_casts(g, a[5]) if len(a) > 5 else None
        self.I = '?'
        self.shape_ok = False
        self.block = '?'
        if last is not None and last['k'] == 'bin' and last['op'] == '-':
            self.I = canon(g, g.kid(last, 0))
            self.shape_ok = canon(g, g.kid(last, 1)) == '%s->backtrack' % self.M
        if len(a) > 4:
            s3, s4 = canon(g, a[3]), canon(g, a[4])
            if s3.endswith('->size') and s4.endswith('->base') and s3[:-6] == s4[:-6]:
                self.block = s3[:-6]
            else:
                self.shape_ok = False
        else:
            self.shape_ok = False

    def guard_holds(self):
        """`M->backtrack <= I` holds in front of the call on every path (any spelling)"""
        g = self.g
        from .C14 import _cmp_keys, _written
        key = ('lt', self.I, '%s->backtrack' % self.M)
        seen = {}

        def step(n, facts):
            if n['i'] == self.call['i']:
                cur = seen.get(n['i'])
                seen[n['i']] = set(facts) if cur is None else (cur & set(facts))
            w = _written(g, n)
            if w is not None and w in (self.M, self.I):
                return frozenset()
            if n['k'] == 'ret':
                return None
            return facts

        def edge(b, term, cond, idx, succ, facts):
            pol = paths.branch_polarity(g, term, idx)
            if pol is None or cond is None:
                return facts
            c, p2 = paths.normalise_cond(g, cond, pol)
            if c is None:
                return facts
            for k_, val in _cmp_keys(g, c, p2):
                if k_ == key:
                    return frozenset([('ok',)]) if not val else frozenset()
            return facts
        paths.explore(g, set(), step, edge, max_states=50000)
        return ('ok',) in (seen.get(self.call['i']) or set())

    def list_loop(self):
        """the loop around the call that runs while M != NULL and advances M = M->next"""
        g = self.g
        from .C14 import _cmp_keys
        for lp in g.ancestors(self.call):
            if lp['k'] not in ('while', 'for'):
                continue
            if lp['k'] == 'for':
                parts = lp.get('parts', [])
                cond = g.node(parts[1]) if len(parts) > 1 and parts[1] >= 0 else None
            else:
                cond = g.kid(lp, 0)
            if cond is None:
                continue
            c, p2 = paths.normalise_cond(g, cond, True)
            keys = _cmp_keys(g, c, p2) if c is not None else []
            if not any(k_ == ('eq',) + tuple(sorted([self.M, '0'])) and not val for k_, val in keys):
                continue
            adv = any(x['k'] == 'bin' and x['op'] == '=' and canon(g, x) == '(%s = %s->next)' % (self.M, self.M)
                      for x in g.walk(lp))
            return lp, adv
        return None, False


def r1_3(ctx):
    prog = ctx.prog
    f = prog.fn(BLOCK_SCANNER, 'libyara/scanner.c')
    if f is None:
        ctx.require(ctx.fixture, 'block scanner not found')
        return
    ps = [p['name'] for p in f.params]
    # verification sites of the block scanner: direct calls, or calls of a static helper of
    # the unit that does the verification for a list it is handed
    sites = []
    for c in f.calls():
        if c.get('callee') == 'yr_scan_verify_match':
            sites.append((c, _VerifyUnit(f, c), None))
            continue
        h = f.tu.functions.get(c.get('callee') or '')
        if h is not None and h is not f and getattr(h, 'static', False):
            inner = _verify_sites(h)
            if len(inner) == 1:
                sites.append((c, _VerifyUnit(h, inner[0]), h))
    sites.sort(key=lambda x: (x[0].get('l', 0), x[0]['i']))
    ctx.ob('R1.3', 'verify-sites:in-loop-and-end-of-block', len(sites) == 2, '%s:%s' % (f.file, f.line),
           'automaton hits are verified inside the byte loop and once more after it' if len(sites) == 2
           else '%d verification sites: the state reached by the last byte of the block is %s' % (
               len(sites), 'never verified' if len(sites) < 2 else 'verified several times'))
    if not sites:
        return
    main = None
    for n in f.all_nodes():
        if n['k'] in ('while', 'for'):
            cnd = f.kid(n, 0) if n['k'] == 'while' else (
                f.node(n['parts'][1]) if len(n.get('parts', [])) > 1 and n['parts'][1] >= 0 else None)
            if cnd is not None and '%s->size' % ps[2] in canon(f, cnd):
                main = n
    bodies = []
    for k, (c, u, h) in enumerate(sites):
        key = 'site%d' % k
        g = u.g
        # what the unit's names stand for in the block scanner
        bind = {}
        if h is not None:
            hp = [p['name'] for p in h.params]
            for i, a in enumerate(f.call_args(c)):
                if i < len(hp):
                    bind[hp[i]] = canon(f, a)
        tr = (lambda x: bind.get(x, '?')) if h is not None else (lambda x: x)
        ok = u.shape_ok and tr(u.data) == ps[1] and tr(u.block) == ps[2]
        ctx.ob('R1.3', key + ':verified-at-hit-minus-backtrack', ok, f.loc(c),
               'yr_scan_verify_match(.., %s, %s, %s->size, %s->base, %s - %s->backtrack)%s' % (
                   u.M, u.data, u.block, u.block, u.I, u.M,
                   ' in %s, called with (%s)' % (h.name, ', '.join(canon(f, a) for a in f.call_args(c)))
                   if h is not None else '')
               if ok else 'called with (%s)%s' % (', '.join(canon(g, a) for a in u.args),
                                                 ' in %s, which is handed (%s)' % (
                                                     h.name, ', '.join(canon(f, a) for a in f.call_args(c)))
                                                 if h is not None else ''))
        gtxt = '(%s->backtrack <= %s)' % (u.M, u.I)
        try:
            ok = u.guard_holds()
        except paths.Budget:
            ok = False
        ctx.ob('R1.3', key + ':backtrack-guard', ok, g.loc(u.call),
               'reached only when %s' % gtxt if ok else
               '%s - %s->backtrack can wrap: the guard %s does not hold on '
               'every path to the call (or the other direction is tested)' % (u.I, u.M, gtxt))
        loop, adv = u.list_loop()
        ctx.ob('R1.3', key + ':walks-whole-match-list', adv, g.loc(u.call),
               'every match chained to the state is verified' if adv else
               'the list of matches of the state is not walked with match = match->next')
        if loop is not None:
            bodies.append((h.name if h is not None else None, canon_stmt(g, loop)))
        inside = main is not None and f.is_ancestor(main, c)
        if k == 0:
            ctx.ob('R1.3', key + ':inside-byte-loop', inside, f.loc(c),
                   'first site is inside the loop over the block bytes' if inside else
                   'no verification happens while the block is being consumed')
        else:
            ctx.ob('R1.3', key + ':after-byte-loop', not inside and main is not None, f.loc(c),
                   'last site runs after the loop, for the state reached by the final byte'
                   if not inside else 'both sites are inside the byte loop: a hit completed by the '
                                      'last byte of the block is never verified')
    if len(bodies) == 2:
        same = bodies[0][1] == bodies[1][1] or (bodies[0][0] is not None and bodies[0][0] == bodies[1][0])
        if (bodies[0][0] is None) != (bodies[1][0] is None):
            # one site inline, one through a helper: each was checked on its own above
            ctx.note('R1.3: one verification site is inline and one goes through %s; not compared as text' %
                     (bodies[0][0] or bodies[1][0]))
            same = True
        ctx.ob('R1.3', 'verify-sites:same-code', same, f.loc(sites[1][0]),
               'the two verification loops are the same code' if same else
               'the in-loop and end-of-block verification loops differ: %s' % _first_diff(bodies[0][1], bodies[1][1]))


def _backtrack_factor(f, n):
    """(destination object, factor) of an assignment to <dst>->backtrack whose right side
    is a backtrack field, possibly times a constant; None otherwise"""
    if n['k'] != 'bin' or n['op'] not in ('=', '*='):
        return None
    l = cu.strip_casts(f, f.kid(n, 0))
    r = cu.strip_casts(f, f.kid(n, 1))
    if l is None or r is None or l['k'] != 'member' or l['fld'] != 'backtrack':
        return None
    dst = canon(f, f.kid(l, 0))
    if n['op'] == '*=':
        c = cu.const_of(r)
        return (dst, c, 'self') if c is not None else None
    if r['k'] == 'member' and r['fld'] == 'backtrack':
        return (dst, 1, canon(f, f.kid(r, 0)))
    if r['k'] == 'bin' and r['op'] == '*':
        a, b_ = cu.strip_casts(f, f.kid(r, 0)), cu.strip_casts(f, f.kid(r, 1))
        for x, y in ((a, b_), (b_, a)):
            if x is not None and x['k'] == 'member' and x['fld'] == 'backtrack' and cu.const_of(y) is not None:
                return (dst, cu.const_of(y), canon(f, f.kid(x, 0)))
    return None


def _factor_of(f, e):
    """c when e is `X->backtrack` (1) or `X->backtrack * c` / `c * X->backtrack`"""
    r = cu.strip_casts(f, e)
    if r is None:
        return None
    if r['k'] == 'member' and r['fld'] == 'backtrack':
        return 1
    if r['k'] == 'bin' and r['op'] == '*':
        a, b_ = cu.strip_casts(f, f.kid(r, 0)), cu.strip_casts(f, f.kid(r, 1))
        for x, y in ((a, b_), (b_, a)):
            if x is not None and x['k'] == 'member' and x['fld'] == 'backtrack' and cu.const_of(y) is not None:
                return cu.const_of(y)
    return None


def r1_4(ctx):
    """atom transformations keep the atom where it was: the factor applied to
    byte positions is the factor applied to the backtrack distance"""
    prog = ctx.prog
    n_fn = 0
    for f in prog.fns():
        if f.file != 'libyara/atoms.c' and not ctx.fixture:
            continue
        # byte copies  dst->atom.bytes[i * s] = g(.. [i] ..)  per destination object
        scales = {}
        for x in f.all_nodes():
            if x['k'] == 'bin' and x['op'] == '=':
                l = cu.strip_casts(f, f.kid(x, 0))
                if l is not None and l['k'] == 'sub':
                    base = canon(f, f.kid(l, 0))
                    if not base.endswith('->atom.bytes'):
                        continue
                    dst = base[:-len('->atom.bytes')]
                    idx = cu.strip_casts(f, f.kid(l, 1))
                    rhs_idx = [y for y in f.walk(f.kid(x, 1)) if y['k'] == 'sub']
                    if not rhs_idx:
                        continue            # constant fill, not a copy
                    sc = scales.setdefault(dst, set())
                    if idx is not None and idx['k'] == 'ref':
                        sc.add(1)
                    elif idx is not None and idx['k'] == 'bin' and idx['op'] == '*':
                        c = cu.const_of(cu.strip_casts(f, f.kid(idx, 1)))
                        c = c if c is not None else cu.const_of(cu.strip_casts(f, f.kid(idx, 0)))
                        sc.add(c)
                    else:
                        sc.add(None)
        # a block copy of the atom's bytes keeps every byte at its position
        for x in f.calls():
            if x.get('callee') in ('memcpy', 'memmove'):
                a = f.call_args(x)
                d = canon(f, a[0]) if a else ''
                if d.endswith('->atom.bytes'):
                    scales.setdefault(d[:-len('->atom.bytes')], set()).add(1)
        for dst, sc in sorted(scales.items()):
            # the backtrack of dst: assigned here, or by the static helper that produced dst
            k = None
            where = None
            for n in f.all_nodes():
                bf = _backtrack_factor(f, n)
                if bf is not None and bf[0] == dst:
                    k = bf[1] if bf[2] != 'self' else (k or 1) * bf[1]
                    where = n
            if where is None or (k is not None and any(
                    _backtrack_factor(f, n) is not None and _backtrack_factor(f, n)[2] == 'self'
                    and _backtrack_factor(f, n)[0] == dst for n in f.all_nodes())):
                pass
            if where is None:
                for n in f.all_nodes():
                    src = None
                    if n['k'] == 'bin' and n['op'] == '=' and canon(f, f.kid(n, 0)) == dst:
                        src = cu.strip_casts(f, f.kid(n, 1))
                    elif n['k'] == 'decl' and n.get('name') == dst and n.get('c'):
                        src = cu.strip_casts(f, f.kid(n, 0))
                    if src is not None and src['k'] == 'call' and src.get('callee'):
                        h = f.tu.functions.get(src['callee'])
                        if h is not None and getattr(h, 'static', False):
                            hp = [p_['name'] for p_ in h.params]
                            for m in h.all_nodes():
                                bf = _backtrack_factor(h, m)
                                if bf is not None:
                                    k, where = bf[1], n
                                    continue
                                # `item->backtrack = backtrack;` with the value computed by the caller
                                if m['k'] == 'bin' and m['op'] == '=':
                                    l_ = cu.strip_casts(h, h.kid(m, 0))
                                    r_ = cu.strip_casts(h, h.kid(m, 1))
                                    if l_ is not None and l_['k'] == 'member' and l_['fld'] == 'backtrack' and \
                                            r_ is not None and r_['k'] == 'ref' and r_['name'] in hp:
                                        args = f.call_args(src)
                                        j = hp.index(r_['name'])
                                        if j < len(args):
                                            fe = _factor_of(f, args[j])
                                            if fe is not None:
                                                k, where = fe, n
            if where is None:
                continue            # bytes written into an object whose backtrack is not derived here
            n_fn += 1
            ok = sc == set([k])
            ctx.ob('R1.4', '%s:backtrack-scales-with-positions' % f.name, ok, f.loc(where),
                   'bytes are copied to positions i * %d and the backtrack is multiplied by %d' % (k, k)
                   if ok else
                   '%s copies the atom bytes to positions scaled by %s but scales the backtrack by %d: '
                   'an automaton hit is verified at the wrong distance from the atom and every '
                   'occurrence whose atom is not at the string start is missed' % (
                       f.name, sorted(sc, key=str), k))
    ctx.count('atom_transformations', n_fn)


def r1_5(ctx):
    """fullword border tests reach exactly as far as they read: the guard that
    makes the neighbouring character readable admits every position where that
    character exists, and no position where it does not.  A border test is a chain
    `guard && .. *(p - k) .. yr_isalnum(p + len + k) ..` in the match callback or in a
    static helper it calls; guard, pointer and length may be spelled through locals."""
    prog = ctx.prog
    f0 = prog.fn('_yr_scan_match_callback', 'libyara/scan.c')
    if f0 is None:
        ctx.require(ctx.fixture, '_yr_scan_match_callback not found')
        return
    fam = [f0]
    for c in f0.calls():
        h = f0.tu.functions.get(c.get('callee') or '')
        if h is not None and h is not f0 and getattr(h, 'static', False) and h not in fam:
            fam.append(h)
    k = 0
    for f in fam:
        ptrs = set(p['name'] for p in f.params if '*' in p.get('type', ''))
        tops = []
        for n in f.all_nodes():
            if n['k'] == 'bin' and n['op'] == '&&':
                par = f.parent(n)
                while par is not None and par['k'] == 'cast':
                    par = f.parent(par)
                if par is None or not (par['k'] == 'bin' and par['op'] == '&&'):
                    tops.append(n)
        tops.sort(key=lambda n: (n.get('l', 0), n['i']))
        for top in tops:
            conj = []
            stack = [top]
            while stack:
                x = cu.strip_casts(f, stack.pop())
                if x is not None and x['k'] == 'bin' and x['op'] == '&&':
                    stack.extend([f.kid(x, 1), f.kid(x, 0)])
                elif x is not None:
                    conj.append(x)
            if len(conj) < 2:
                continue
            # bytes next to the match that the chain reads: (side, distance, length term)
            reads = []
            for c in conj[1:]:
                for x in f.walk(c):
                    e = None
                    if x['k'] == 'un' and x['op'] == '*':
                        e = f.kid(x, 0)
                    elif x['k'] == 'call' and x.get('callee') == 'yr_isalnum':
                        e = f.call_args(x)[0]
                    if e is None:
                        continue
                    ls = _linsum(f, e)
                    if ls is None:
                        continue
                    terms, cst = ls
                    base = [t for t in terms if t in ptrs and terms[t] == 1]
                    rest = sorted(t for t in terms if t not in base)
                    if len(base) != 1 or any(terms[t] != 1 for t in rest):
                        continue
                    if not rest and cst < 0:
                        reads.append(('before', -cst, None, canon(f, e)))
                    elif len(rest) == 1 and cst >= 0:
                        reads.append(('after', cst, rest[0], canon(f, e)))
            if not reads:
                continue
            sides = set(r[0] for r in reads)
            g = canon(f, conj[0])
            fm = _lt_form(f, conj[0], True)
            K = None
            if fm is not None and len(sides) == 1:
                l, r, val = fm
                if 'before' in sides:
                    # offset >= K  (not offset < K), or K - 1 < offset
                    if not val and cu.const_of(cu.strip_casts(f, r)) is not None:
                        K = cu.const_of(cu.strip_casts(f, r))
                    elif val and cu.const_of(cu.strip_casts(f, l)) is not None:
                        K = cu.const_of(cu.strip_casts(f, l)) + 1
                else:
                    # offset + length [+ K] < size
                    ls = _linsum(f, l)
                    L = reads[0][2]
                    if val and ls is not None and ls[0].get(L) == 1 and len(ls[0]) >= 2 and ls[1] >= 0:
                        K = ls[1]
            side = sorted(sides)[0]
            if K is None:
                ctx.ob('R1.5', '%s:border%d:guard-shape' % (f0.name, k), False, f.loc(top),
                       'the border test reads %s and is guarded by %s, which is not of the form offset >= K '
                       '/ offset + length [+ K] < size' % (', '.join(r[3] for r in reads), g))
                k += 1
                continue
            far = max(r[1] for r in reads)
            ok = far == K
            ctx.ob('R1.5', '%s:border%d(%s):guard-reaches-what-is-read' % (f0.name, k, side), ok,
                   f.loc(top),
                   'guard %s, furthest byte read at distance %d' % (g, K) if ok else
                   'the border test is guarded by %s but reads %s: %s' % (
                       g, ', '.join(r[3] for r in reads),
                       'bytes outside the buffer can be read' if far > K else
                       'a neighbouring character that exists right at the edge of the buffer is not '
                       'examined, so a non-fullword occurrence there is reported'))
            k += 1
    ctx.count('fullword_border_tests', k)
    ctx.require(k > 0 or ctx.fixture, 'no fullword border test found in _yr_scan_match_callback or its helpers')


def canon_stmt(f, n, depth=0):
    """statement-level canonical form (control structure + canon of expressions)"""
    if n is None or depth > 30:
        return '?'
    k = n['k']
    ks = f.kids(n)
    if k in ('compound',):
        return '{' + ';'.join(canon_stmt(f, x, depth + 1) for x in ks) + '}'
    if k == 'if':
        return 'if(%s)%s%s' % (canon(f, ks[0]), canon_stmt(f, ks[1], depth + 1),
                               ('else' + canon_stmt(f, ks[2], depth + 1)) if len(ks) > 2 else '')
    if k == 'while':
        return 'while(%s)%s' % (canon(f, ks[0]), canon_stmt(f, ks[1], depth + 1) if len(ks) > 1 else '')
    if k == 'goto':
        return 'goto ' + n.get('name', '')
    if k == 'declstmt':
        return ';'.join(canon_stmt(f, x, depth + 1) for x in ks)
    if k == 'decl':
        return '%s %s=%s' % (n.get('t'), n['name'], canon(f, ks[0]) if ks else '')
    if k in ('do', 'for', 'switch', 'label', 'case', 'default', 'null'):
        return k + '(' + ';'.join(canon_stmt(f, x, depth + 1) for x in ks) + ')'
    if k in ('ret', 'break', 'continue'):
        return k + (' ' + canon(f, ks[0]) if ks else '')
    return canon(f, n)


def _first_diff(a, b):
    i = 0
    while i < min(len(a), len(b)) and a[i] == b[i]:
        i += 1
    return '...%s | ...%s' % (a[max(0, i - 20):i + 40], b[max(0, i - 20):i + 40])


FIXTURES = {
    'R1.1': {'src': 'C01/compare.c', 'run': r1_1, 'expect': '_yr_scan_wcompare:size-guard',
             'expect_ok': '_yr_scan_compare:size-guard'},
    'R1.2': {'src': 'C01/compare.c', 'run': r1_2, 'expect': '_yr_scan_wcompare@0:called-under-its-flags',
             'expect_ok': '_yr_scan_compare@0:called-under-its-flags'},
    'R1.3': {'src': 'C01/compare.c', 'run': r1_3, 'expect': 'site1:backtrack-guard',
             'expect_ok': 'site0:backtrack-guard'},
}


def run(ctx):
    r1_1(ctx)
    ctx.floor('R1.1', 6 * 6)
    r1_2(ctx)
    ctx.floor('R1.2', 16)
    r1_3(ctx)
    ctx.floor('R1.3', 9)
    r1_4(ctx)
    ctx.floor('R1.4', 3)
    r1_5(ctx)
    ctx.floor('R1.5', 4)

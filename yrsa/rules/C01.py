"""C01 — text-string matches are exactly the documented occurrences.

Which offsets are reported for an arbitrary pattern and buffer is a function of
run-time data (atom choice, automaton contents) and is NOT decided.  Decided
are three structural clauses every occurrence report depends on (DESIGN.md §4
C01–C03):
  R1.1 verifier family: for each of the six literal comparers the multiplier
       in the size guard, the stride of the data cursor per compared
       character, the furthest look-ahead and the multiplier of the returned
       length agree (1 for ascii, 2 for wide), the guard's failing edge is
       taken before any byte of the data is read, and a successful compare
       returns i == string_length;
  R1.2 dispatch: each comparer is called only on paths on which the string
       flags it implements (wide/ascii, nocase, xor) were tested true, with
       (data + offset, data_size - offset, string->string, string->length);
  R1.3 automaton-hit verification: every call of yr_scan_verify_match in the
       block scanner passes offset i - match->backtrack under the guard
       match->backtrack <= i, walks the whole match list of the state, and
       the in-loop and end-of-block copies are the same code (the
       end-of-block copy is what finds occurrences ending at the last byte).
"""
from .. import cfgutil as cu
from .. import paths
from .C14 import canon, rcanon, _explore_facts

LEVEL = 'other'
EXPLANATION = (
    'Per-comparer extraction of guard multiplier, cursor stride, look-ahead and '
    'returned-length multiplier from the typed AST with a path-sensitive '
    'must-hold check that the size guard was passed before any data byte is '
    'read; must-hold flag facts at every comparer call site of the dispatcher; '
    'clone comparison and guard dominance for the two automaton-hit '
    'verification loops.')
ASSUMPTIONS = [
    'COMPARERS table (name -> wide, nocase, xor) is read from the function names and bodies and '
    'frozen; a new comparer lowers no count but is reported by R1.2 as an unknown callee',
]

# name: (wide, nocase, xor)
COMPARERS = {
    '_yr_scan_compare': (False, False, False),
    '_yr_scan_icompare': (False, True, False),
    '_yr_scan_wcompare': (True, False, False),
    '_yr_scan_wicompare': (True, True, False),
    '_yr_scan_xor_compare': (False, False, True),
    '_yr_scan_xor_wcompare': (True, False, True),
}
DISPATCHER = '_yr_scan_verify_literal_match'
BLOCK_SCANNER = '_yr_scanner_scan_mem_block'


def _mult(f, e, var):
    """e is `var` or `var * c` / `c * var`: returns c (1 for bare var) or None"""
    e = cu.strip_casts(f, e)
    if e is None:
        return None
    if e['k'] == 'ref' and e['name'] == var:
        return 1
    if e['k'] == 'bin' and e['op'] == '*':
        a, b = cu.strip_casts(f, f.kid(e, 0)), cu.strip_casts(f, f.kid(e, 1))
        for x, y in ((a, b), (b, a)):
            if x is not None and x['k'] == 'ref' and x['name'] == var and cu.const_of(y) is not None:
                return cu.const_of(y)
    return None


def r1_1(ctx):
    prog = ctx.prog
    for name, (wide, nocase, xor) in sorted(COMPARERS.items()):
        f = prog.fn(name, 'libyara/scan.c')
        if f is None:
            ctx.require(ctx.fixture, 'comparer %s not found' % name)
            continue
        want = 2 if wide else 1
        ps = [p['name'] for p in f.params]
        data, dsize, s, slen = ps[0], ps[1], ps[2], ps[3]
        where = '%s:%s' % (f.file, f.line)
        # cursor aliases of the data pointer
        cur = set([data])
        for d in f.all_nodes():
            if d['k'] == 'decl' and d.get('c') and canon(f, f.kid(d, 0)) in cur:
                cur.add(d['name'])
        # guard
        guard = None
        for n in f.all_nodes():
            if n['k'] == 'if':
                c = cu.strip_casts(f, f.kid(n, 0))
                if c is not None and c['k'] == 'bin' and c['op'] == '<' and \
                        canon(f, f.kid(c, 0)) == dsize:
                    m = _mult(f, f.kid(c, 1), slen)
                    if m is not None:
                        guard = (n, c, m)
        ctx.ob('R1.1', name + ':size-guard', guard is not None and guard[2] == want,
               f.loc(guard[0]) if guard else where,
               'rejects data_size < string_length * %d' % want if guard is not None and guard[2] == want
               else 'the size guard is %s; a %s comparer needs data_size >= string_length * %d' % (
                   canon(f, guard[1]) if guard else 'missing', 'wide' if wide else 'narrow', want))
        # stride of the data cursor per loop iteration
        stride = 0
        for n in f.all_nodes():
            if n['k'] == 'un' and n['op'] in ('post++', '++') and canon(f, f.kid(n, 0)) in cur:
                stride += 1
            if n['k'] == 'bin' and n['op'] == '+=' and canon(f, f.kid(n, 0)) in cur:
                stride += cu.const_of(cu.strip_casts(f, f.kid(n, 1))) or 99
        ctx.ob('R1.1', name + ':cursor-stride', stride == want, where,
               'the data cursor advances %d byte(s) per compared character' % stride if stride == want
               else 'the data cursor advances %d byte(s) per compared character, the guard and the '
                    'format need %d' % (stride, want))
        # look-ahead: *(cur + c)
        ahead = 0
        reads = []
        for n in f.all_nodes():
            if n['k'] == 'un' and n['op'] == '*':
                e = cu.strip_casts(f, f.kid(n, 0))
                if e is None:
                    continue
                if e['k'] == 'un' and e['op'] in ('post++', '++'):
                    e = cu.strip_casts(f, f.kid(e, 0))
                if e is not None and e['k'] == 'ref' and e['name'] in cur:
                    reads.append(n)
                elif e is not None and e['k'] == 'bin' and e['op'] == '+' and \
                        canon(f, f.kid(e, 0)) in cur:
                    c = cu.const_of(cu.strip_casts(f, f.kid(e, 1)))
                    ahead = max(ahead, c if c is not None else 99)
                    reads.append(n)
            if n['k'] == 'sub' and canon(f, f.kid(n, 0)) in cur:
                c = cu.const_of(cu.strip_casts(f, f.kid(n, 1)))
                ahead = max(ahead, c if c is not None else 99)
                reads.append(n)
        ctx.ob('R1.1', name + ':look-ahead-within-stride', ahead < want and bool(reads), where,
               'reads at most %d byte(s) beyond the cursor (%d read sites)' % (ahead, len(reads))
               if ahead < want and reads else
               'reads the data %d byte(s) beyond the cursor with a stride of %d' % (ahead, want))
        # returned length
        ret_mult = None
        succ_cond = None
        ctr = None
        for n in f.all_nodes():
            if n['k'] == 'bin' and n['op'] == '<' and canon(f, f.kid(n, 1)) == slen and \
                    cu.strip_casts(f, f.kid(n, 0))['k'] == 'ref' and \
                    any(a['k'] in ('while', 'for') for a in f.ancestors(n)):
                ctr = canon(f, f.kid(n, 0))
        ctr = ctr or 'i'
        for n in f.all_nodes():
            if n['k'] == 'cond':
                m = _mult(f, f.kid(n, 1), ctr)
                if m is not None and cu.const_of(cu.strip_casts(f, f.kid(n, 2))) == 0:
                    ret_mult = m
                    succ_cond = canon(f, f.kid(n, 0))
        ok = ret_mult == want and succ_cond in ('(%s == %s)' % (ctr, slen), '(%s == %s)' % (slen, ctr))
        ctx.ob('R1.1', name + ':returned-length', ok, where,
               'returns count * %d when count == %s, else 0' % (want, slen) if ok else
               'returns count * %s under %s: the reported match length must be string_length * %d for a '
               'complete compare' % (ret_mult, succ_cond, want))
        # the guard was passed before any data byte is read
        if guard is not None:
            gs = canon(f, guard[1])
            at = set(r['i'] for r in reads)
            seen = _explore_facts(f, set([gs]), {}, at)
            bad = [r for r in reads if ('F', gs) not in (seen.get(r['i']) or set())]
            ctx.ob('R1.1', name + ':guard-before-read', not bad, f.loc(bad[0]) if bad else f.loc(guard[0]),
                   'every read of the data follows the failed test %s' % gs if not bad else
                   'the data is read here on a path that did not pass %s: out-of-bounds read at the '
                   'end of the buffer' % gs)
        # the loop is bounded by the string length
        loops = [n for n in f.all_nodes() if n['k'] in ('while', 'for')]
        bounded = any('(%s < %s)' % (ctr, slen) in canon(f, f.kid(n, 0 if n['k'] == 'while' else 1))
                      for n in loops)
        ctx.ob('R1.1', name + ':loop-bounded-by-length', bounded, where,
               'the compare loop stops at i == %s' % slen if bounded else
               'the compare loop is not bounded by %s' % slen)
        if nocase:
            folds = [n for n in f.all_nodes() if n['k'] == 'sub' and canon(f, f.kid(n, 0)) == 'yr_lowercase']
            ctx.ob('R1.1', name + ':both-sides-folded', len(folds) == 2, where,
                   'both the data byte and the string byte go through yr_lowercase' if len(folds) == 2
                   else 'yr_lowercase is applied %d time(s): one side of the compare is not case-folded' % len(folds))
        if xor:
            scur = set([s])
            for d in f.all_nodes():
                if d['k'] == 'decl' and d.get('c') and canon(f, f.kid(d, 0)) in scur:
                    scur.add(d['name'])
            out = [n for n in f.all_nodes() if n['k'] == 'bin' and n['op'] == '=' and
                   canon(f, f.kid(n, 0)) == '*%s' % ps[4] and
                   cu.strip_casts(f, f.kid(n, 1))['k'] == 'ref']
            kvar = canon(f, f.kid(out[0], 1)) if out else None
            ok = False
            for n in f.all_nodes():
                if n['k'] == 'bin' and n['op'] == '=' and kvar and canon(f, f.kid(n, 0)) == kvar:
                    r = cu.strip_casts(f, f.kid(n, 1))
                    if r is not None and r['k'] == 'bin' and r['op'] == '^':
                        a, b = canon(f, f.kid(r, 0)), canon(f, f.kid(r, 1))
                        if a.startswith('*') and b.startswith('*') and \
                                ((a[1:] in cur and b[1:] in scur) or (a[1:] in scur and b[1:] in cur)):
                            ok = True
            ctx.ob('R1.1', name + ':key-from-first-byte-and-reported', ok and bool(out), where,
                   'the key is data[0] ^ string[0] and is stored through %s' % ps[4] if ok and out else
                   'the xor key is not derived from the first byte pair or not reported')


def r1_2(ctx):
    prog = ctx.prog
    f = prog.fn(DISPATCHER, 'libyara/scan.c')
    if f is None:
        ctx.require(ctx.fixture, 'dispatcher not found')
        return
    fl = {'wide': prog.macro_value('STRING_FLAGS_WIDE'), 'ascii': prog.macro_value('STRING_FLAGS_ASCII'),
          'nocase': prog.macro_value('STRING_FLAGS_NO_CASE'), 'xor': prog.macro_value('STRING_FLAGS_XOR')}
    ctx.require(all(v is not None for v in fl.values()) or ctx.fixture, 'STRING_FLAGS_* not evaluated')
    ps = [p['name'] for p in f.params]
    S = None
    for d in f.all_nodes():
        if d['k'] == 'decl' and d.get('c') and canon(f, f.kid(d, 0)) == '%s->string' % ps[1]:
            S = d['name']
    ctx.require(S is not None or ctx.fixture, 'string variable of the dispatcher not found')
    S = S or 'string'
    data, dsize, off = ps[2], ps[3], ps[5]
    tests = {k: '(%s->flags & %s)' % (S, v) for k, v in fl.items()}
    calls = [c for c in f.calls() if c.get('callee', '').startswith('_yr_scan_') and
             'compare' in c.get('callee', '')]
    seen = _explore_facts(f, set(tests.values()), {}, set(c['i'] for c in calls))
    n = 0
    for c in calls:
        name = c['callee']
        n += 1
        key = '%s@%d' % (name, [x['i'] for x in calls if x['callee'] == name].index(c['i']))
        if name not in COMPARERS:
            ctx.ob('R1.2', key + ':known-comparer', False, f.loc(c),
                   '%s is not in the comparer table: its guard/stride/length were not checked' % name)
            continue
        wide, nocase, xor = COMPARERS[name]
        have = seen.get(c['i']) or set()
        need = ['wide' if wide else 'ascii']
        if nocase:
            need.append('nocase')
        if xor:
            need.append('xor')
        # the narrow xor comparer is the fallback for both encodings of a xor
        # string (a wide xor string whose xored high byte is not the key is
        # reported by the narrow one with the narrow length): only xor is needed
        if name == '_yr_scan_xor_compare':
            need = ['xor']
        missing = [k for k in need if ('T', tests[k]) not in have]
        ctx.ob('R1.2', key + ':called-under-its-flags', not missing, f.loc(c),
               'called only when %s' % ' and '.join('STRING_IS_%s' % k.upper() for k in need)
               if not missing else
               '%s is called on a path that did not establish STRING_IS_%s' % (
                   name, '/'.join(k.upper() for k in missing)))
        if not nocase and not (xor and ('T', tests['nocase']) not in have):
            pass
        args = [rcanon(f, a) for a in f.call_args(c)[:4]]
        Sx = S
        for d_ in f.all_nodes():
            if d_['k'] == 'decl' and d_['name'] == S and d_['i'] in cu.stable_defs(f):
                Sx = canon(f, cu.stable_defs(f)[d_['i']], 0, True)
        ok = args == ['(%s + %s)' % (data, off), '(%s - %s)' % (dsize, off), '%s->string' % Sx,
                      '%s->length' % Sx]
        ctx.ob('R1.2', key + ':arguments', ok, f.loc(c),
               'compares (data + offset, data_size - offset) with (string->string, string->length)'
               if ok else 'called with (%s)' % ', '.join(args))
    ctx.count('comparer_call_sites', n)
    # nocase strings never reach a case-sensitive comparer
    for c in calls:
        name = c['callee']
        if name in COMPARERS and not COMPARERS[name][1] and not COMPARERS[name][2]:
            have = seen.get(c['i']) or set()
            key = '%s@%d' % (name, [x['i'] for x in calls if x['callee'] == name].index(c['i']))
            ok = ('F', tests['nocase']) in have
            ctx.ob('R1.2', key + ':not-for-nocase', ok, f.loc(c),
                   'the case-sensitive comparer runs only when STRING_IS_NO_CASE is false' if ok else
                   'a case-sensitive comparer can run for a nocase string')


def _verify_sites(f):
    return [c for c in f.calls() if c.get('callee') == 'yr_scan_verify_match']


def r1_3(ctx):
    prog = ctx.prog
    f = prog.fn(BLOCK_SCANNER, 'libyara/scanner.c')
    if f is None:
        ctx.require(ctx.fixture, 'block scanner not found')
        return
    sites = _verify_sites(f)
    ctx.ob('R1.3', 'verify-sites:in-loop-and-end-of-block', len(sites) == 2, '%s:%s' % (f.file, f.line),
           'automaton hits are verified inside the byte loop and once more after it' if len(sites) == 2
           else '%d verification sites: the state reached by the last byte of the block is %s' % (
               len(sites), 'never verified' if len(sites) < 2 else 'verified several times'))
    if not sites:
        return
    main = None
    for n in f.all_nodes():
        if n['k'] == 'while' and '->size' in canon(f, f.kid(n, 0)):
            main = n
    bodies = []
    ps = [p['name'] for p in f.params]
    roles = []
    for c in sites:
        a = f.call_args(c)
        M = canon(f, a[1]) if len(a) > 1 else '?'
        last = cu.strip_casts(f, a[5]) if len(a) > 5 else None
        I = canon(f, f.kid(last, 0)) if last is not None and last['k'] == 'bin' and last['op'] == '-' else '?'
        roles.append((M, I))
    interest = set('(%s->backtrack <= %s)' % r for r in roles)
    kill = {}
    for M, I in roles:
        kill.setdefault(M, set()).update(interest)
        kill.setdefault(I, set()).update(interest)
    seen = _explore_facts(f, interest, kill, set(s['i'] for s in sites))
    for k, c in enumerate(sites):
        key = 'site%d' % k
        M, I = roles[k]
        args = [canon(f, a) for a in f.call_args(c)]
        ok = len(args) == 6 and args[5] == '(%s - %s->backtrack)' % (I, M) and \
            args[2] == ps[1] and args[3] == '%s->size' % ps[2] and args[4] == '%s->base' % ps[2]
        ctx.ob('R1.3', key + ':verified-at-hit-minus-backtrack', ok, f.loc(c),
               'yr_scan_verify_match(.., %s, %s, %s->size, %s->base, %s - %s->backtrack)' % (
                   M, ps[1], ps[2], ps[2], I, M)
               if ok else 'called with (%s)' % ', '.join(args))
        g = '(%s->backtrack <= %s)' % (M, I)
        ok = ('T', g) in (seen.get(c['i']) or set())
        ctx.ob('R1.3', key + ':backtrack-guard', ok, f.loc(c),
               'reached only when %s' % g if ok else
               '%s - %s->backtrack can wrap: the guard %s does not hold on '
               'every path to the call (or the other direction is tested)' % (I, M, g))
        loop = None
        for a in f.ancestors(c):
            if a['k'] == 'while' and canon(f, f.kid(a, 0)) == '(%s != 0)' % M:
                loop = a
                break
        adv = loop is not None and any(
            x['k'] == 'bin' and x['op'] == '=' and canon(f, x) == '(%s = %s->next)' % (M, M)
            for x in f.walk(loop))
        ctx.ob('R1.3', key + ':walks-whole-match-list', adv, f.loc(c),
               'every match chained to the state is verified' if adv else
               'the list of matches of the state is not walked with match = match->next')
        if loop is not None:
            bodies.append(canon_stmt(f, loop))
        inside = main is not None and f.is_ancestor(main, c)
        if k == 0:
            ctx.ob('R1.3', key + ':inside-byte-loop', inside, f.loc(c),
                   'first site is inside the loop over the block bytes' if inside else
                   'no verification happens while the block is being consumed')
        else:
            ctx.ob('R1.3', key + ':after-byte-loop', not inside and main is not None, f.loc(c),
                   'last site runs after the loop, for the state reached by the final byte'
                   if not inside else 'both sites are inside the byte loop: a hit completed by the '
                                      'last byte of the block is never verified')
    if len(bodies) == 2:
        ctx.ob('R1.3', 'verify-sites:same-code', bodies[0] == bodies[1], f.loc(sites[1]),
               'the two verification loops are the same code' if bodies[0] == bodies[1] else
               'the in-loop and end-of-block verification loops differ: %s' % _first_diff(bodies[0], bodies[1]))


def _backtrack_factor(f, n):
    """(destination object, factor) of an assignment to <dst>->backtrack whose right side
    is a backtrack field, possibly times a constant; None otherwise"""
    if n['k'] != 'bin' or n['op'] not in ('=', '*='):
        return None
    l = cu.strip_casts(f, f.kid(n, 0))
    r = cu.strip_casts(f, f.kid(n, 1))
    if l is None or r is None or l['k'] != 'member' or l['fld'] != 'backtrack':
        return None
    dst = canon(f, f.kid(l, 0))
    if n['op'] == '*=':
        c = cu.const_of(r)
        return (dst, c, 'self') if c is not None else None
    if r['k'] == 'member' and r['fld'] == 'backtrack':
        return (dst, 1, canon(f, f.kid(r, 0)))
    if r['k'] == 'bin' and r['op'] == '*':
        a, b_ = cu.strip_casts(f, f.kid(r, 0)), cu.strip_casts(f, f.kid(r, 1))
        for x, y in ((a, b_), (b_, a)):
            if x is not None and x['k'] == 'member' and x['fld'] == 'backtrack' and cu.const_of(y) is not None:
                return (dst, cu.const_of(y), canon(f, f.kid(x, 0)))
    return None


def r1_4(ctx):
    """atom transformations keep the atom where it was: the factor applied to
    byte positions is the factor applied to the backtrack distance"""
    prog = ctx.prog
    n_fn = 0
    for f in prog.fns():
        if f.file != 'libyara/atoms.c' and not ctx.fixture:
            continue
        # byte copies  dst->atom.bytes[i * s] = g(.. [i] ..)  per destination object
        scales = {}
        for x in f.all_nodes():
            if x['k'] == 'bin' and x['op'] == '=':
                l = cu.strip_casts(f, f.kid(x, 0))
                if l is not None and l['k'] == 'sub':
                    base = canon(f, f.kid(l, 0))
                    if not base.endswith('->atom.bytes'):
                        continue
                    dst = base[:-len('->atom.bytes')]
                    idx = cu.strip_casts(f, f.kid(l, 1))
                    rhs_idx = [y for y in f.walk(f.kid(x, 1)) if y['k'] == 'sub']
                    if not rhs_idx:
                        continue            # constant fill, not a copy
                    sc = scales.setdefault(dst, set())
                    if idx is not None and idx['k'] == 'ref':
                        sc.add(1)
                    elif idx is not None and idx['k'] == 'bin' and idx['op'] == '*':
                        c = cu.const_of(cu.strip_casts(f, f.kid(idx, 1)))
                        c = c if c is not None else cu.const_of(cu.strip_casts(f, f.kid(idx, 0)))
                        sc.add(c)
                    else:
                        sc.add(None)
        for dst, sc in sorted(scales.items()):
            # the backtrack of dst: assigned here, or by the static helper that produced dst
            k = None
            where = None
            for n in f.all_nodes():
                bf = _backtrack_factor(f, n)
                if bf is not None and bf[0] == dst:
                    k = bf[1] if bf[2] != 'self' else (k or 1) * bf[1]
                    where = n
            if where is None or (k is not None and any(
                    _backtrack_factor(f, n) is not None and _backtrack_factor(f, n)[2] == 'self'
                    and _backtrack_factor(f, n)[0] == dst for n in f.all_nodes())):
                pass
            if where is None:
                for n in f.all_nodes():
                    src = None
                    if n['k'] == 'bin' and n['op'] == '=' and canon(f, f.kid(n, 0)) == dst:
                        src = cu.strip_casts(f, f.kid(n, 1))
                    elif n['k'] == 'decl' and n.get('name') == dst and n.get('c'):
                        src = cu.strip_casts(f, f.kid(n, 0))
                    if src is not None and src['k'] == 'call' and src.get('callee'):
                        h = f.tu.functions.get(src['callee'])
                        if h is not None and getattr(h, 'static', False):
                            for m in h.all_nodes():
                                bf = _backtrack_factor(h, m)
                                if bf is not None:
                                    k, where = bf[1], n
            if where is None:
                continue            # bytes written into an object whose backtrack is not derived here
            n_fn += 1
            ok = sc == set([k])
            ctx.ob('R1.4', '%s:backtrack-scales-with-positions' % f.name, ok, f.loc(where),
                   'bytes are copied to positions i * %d and the backtrack is multiplied by %d' % (k, k)
                   if ok else
                   '%s copies the atom bytes to positions scaled by %s but scales the backtrack by %d: '
                   'an automaton hit is verified at the wrong distance from the atom and every '
                   'occurrence whose atom is not at the string start is missed' % (
                       f.name, sorted(sc, key=str), k))
    ctx.count('atom_transformations', n_fn)


def r1_5(ctx):
    """fullword border tests reach exactly as far as they read: the guard that
    makes the neighbouring character readable admits every position where that
    character exists, and no position where it does not"""
    import re
    prog = ctx.prog
    f = prog.fn('_yr_scan_match_callback', 'libyara/scan.c')
    if f is None:
        ctx.require(ctx.fixture, '_yr_scan_match_callback not found')
        return
    blocks = [n for n in f.all_nodes() if n['k'] == 'if' and canon(f, f.kid(n, 0)).endswith('full_word')]
    ctx.require(blocks or ctx.fixture, 'fullword block not found')
    k = 0
    for blk in blocks:
        for n in f.walk(f.kids(blk)[1]):
            if n['k'] != 'if':
                continue
            conj = []
            stack = [f.kid(n, 0)]
            while stack:
                x = cu.strip_casts(f, stack.pop())
                if x is not None and x['k'] == 'bin' and x['op'] == '&&':
                    stack.extend([f.kid(x, 1), f.kid(x, 0)])
                elif x is not None:
                    conj.append(x)
            if len(conj) < 2:
                continue
            g = canon(f, conj[0])
            m1 = re.match(r'^\((\w+) (>=|>) (\d+)\)$', g)
            m2 = re.match(r'^\(\(\((\w+) \+ (\w+)\) \+ (\d+)\) < (.+)\)$', g)
            m3 = re.match(r'^\(\((\w+) \+ (\w+)\) < (.+)\)$', g)
            if not (m1 or m2 or m3) and conj[0]['k'] == 'bin' and conj[0]['op'] in ('<', '<=', '>', '>='):
                ctx.ob('R1.5', '_yr_scan_match_callback:border%d:guard-shape' % k, False, f.loc(n),
                       'the border test is guarded by %s, which is not of the form offset >= K / offset + '
                       'length [+ K] < size' % g)
                k += 1
                continue
            reads = []
            for c in conj[1:]:
                for x in f.walk(c):
                    e = None
                    if x['k'] == 'un' and x['op'] == '*':
                        e = canon(f, f.kid(x, 0))
                    elif x['k'] == 'call' and x.get('callee') == 'yr_isalnum':
                        e = canon(f, f.call_args(x)[0])
                    if e:
                        reads.append(e)
            if not reads or not (m1 or m2 or m3):
                continue
            if m1:
                K = int(m1.group(3)) + (1 if m1.group(2) == '>' else 0)
                offs = [int(mm.group(1)) for mm in (re.match(r'^\(\w+ - (\d+)\)$', e) for e in reads) if mm]
                side = 'before'
            else:
                K = int(m2.group(3)) if m2 else 0
                L = (m2 or m3).group(2)
                offs = []
                for e in reads:
                    mm = re.match(r'^\(\(\w+ \+ %s\) \+ (\d+)\)$' % re.escape(L), e)
                    if mm:
                        offs.append(int(mm.group(1)))
                    elif re.match(r'^\(\w+ \+ %s\)$' % re.escape(L), e):
                        offs.append(0)
                side = 'after'
            ok = len(offs) == len(reads) and offs and max(offs) == K
            ctx.ob('R1.5', '_yr_scan_match_callback:border%d(%s):guard-reaches-what-is-read' % (k, side), ok,
                   f.loc(n),
                   'guard %s, furthest byte read at distance %d' % (g, K) if ok else
                   'the border test is guarded by %s but reads %s: %s' % (
                       g, ', '.join(reads),
                       'bytes outside the buffer can be read' if offs and max(offs) > K else
                       'a neighbouring character that exists right at the edge of the buffer is not '
                       'examined, so a non-fullword occurrence there is reported'))
            k += 1
    ctx.count('fullword_border_tests', k)


def canon_stmt(f, n, depth=0):
    """statement-level canonical form (control structure + canon of expressions)"""
    if n is None or depth > 30:
        return '?'
    k = n['k']
    ks = f.kids(n)
    if k in ('compound',):
        return '{' + ';'.join(canon_stmt(f, x, depth + 1) for x in ks) + '}'
    if k == 'if':
        return 'if(%s)%s%s' % (canon(f, ks[0]), canon_stmt(f, ks[1], depth + 1),
                               ('else' + canon_stmt(f, ks[2], depth + 1)) if len(ks) > 2 else '')
    if k == 'while':
        return 'while(%s)%s' % (canon(f, ks[0]), canon_stmt(f, ks[1], depth + 1) if len(ks) > 1 else '')
    if k == 'goto':
        return 'goto ' + n.get('name', '')
    if k == 'declstmt':
        return ';'.join(canon_stmt(f, x, depth + 1) for x in ks)
    if k == 'decl':
        return '%s %s=%s' % (n.get('t'), n['name'], canon(f, ks[0]) if ks else '')
    if k in ('do', 'for', 'switch', 'label', 'case', 'default', 'null'):
        return k + '(' + ';'.join(canon_stmt(f, x, depth + 1) for x in ks) + ')'
    if k in ('ret', 'break', 'continue'):
        return k + (' ' + canon(f, ks[0]) if ks else '')
    return canon(f, n)


def _first_diff(a, b):
    i = 0
    while i < min(len(a), len(b)) and a[i] == b[i]:
        i += 1
    return '...%s | ...%s' % (a[max(0, i - 20):i + 40], b[max(0, i - 20):i + 40])


FIXTURES = {
    'R1.1': {'src': 'C01/compare.c', 'run': r1_1, 'expect': '_yr_scan_wcompare:size-guard',
             'expect_ok': '_yr_scan_compare:size-guard'},
    'R1.2': {'src': 'C01/compare.c', 'run': r1_2, 'expect': '_yr_scan_wcompare@0:called-under-its-flags',
             'expect_ok': '_yr_scan_compare@0:called-under-its-flags'},
    'R1.3': {'src': 'C01/compare.c', 'run': r1_3, 'expect': 'site1:backtrack-guard',
             'expect_ok': 'site0:backtrack-guard'},
}


def run(ctx):
    r1_1(ctx)
    ctx.floor('R1.1', 6 * 6)
    r1_2(ctx)
    ctx.floor('R1.2', 16)
    r1_3(ctx)
    ctx.floor('R1.3', 9)
    r1_4(ctx)
    ctx.floor('R1.4', 3)
    r1_5(ctx)
    ctx.floor('R1.5', 4)

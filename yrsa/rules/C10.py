"""C10 — a scanner's results do not depend on its scan history.

Decides (DESIGN.md §4 C10) that every piece of scanner state a scan can write
is re-established before the next scan can read it, however the previous scan
ended (success, abort, error, timeout, suspended-and-abandoned):

  R10.1 write-set ⊆ reset-set: W = fields of YR_SCAN_CONTEXT written by any
        function reachable from yr_scanner_scan_mem_blocks (effect analysis).
        Each f in W must be (i) re-initialised on the fresh-scan branch, or
        (iii) assigned on every path before rule evaluation, or (iv) in the
        frozen table of settings/caches. Clearing only at the end of a scan
        is not enough: a scan suspended with ERROR_BLOCK_NOT_READY and never
        resumed runs no end-of-scan code;
  R10.2 modules are unloaded on every way out of yr_execute_code once the
        dispatch loop was entered;
  R10.3 regexp fibers return to their pool on every exit of yr_re_exec;
  R10.4 yr_scanner_destroy releases everything yr_scanner_create allocates.
Not decided: equality of callback traces; timeouts as timing.
"""
from .. import cfgutil as cu
from .. import paths
from ..callgraph import CallGraph
from ..effects import Effects

LEVEL = 'other'
EXPLANATION = (
    'Effect analysis gives the set of scanner-context fields a scan may '
    'write; the fresh-scan branch of yr_scanner_scan_mem_blocks (with the '
    'effects of what it calls) gives the set re-initialised at scan start; a '
    'must-assign path analysis gives the fields assigned before rule '
    'evaluation on every path; the difference is reported. Must-pass-through '
    'rules for module unloading and fiber release on every exit; field '
    'coverage of destroy vs create.')
ASSUMPTIONS = [
    'settings (callback, user_data, flags, timeout, canary, rules) are meant '
    'to persist across scans',
    'pool objects (re_fiber_pool, re_fast_exec_position_pool) are fully '
    're-initialised by their creators (RE_FIBER fields checked by R10.3f)',
]

CTX = 'YR_SCAN_CONTEXT'

SETTINGS = {
    'callback': 'setting', 'user_data': 'setting', 'flags': 'setting',
    'timeout': 'setting', 'canary': 'setting', 'rules': 'setting',
    'profiling_info': 'profiling disabled in this configuration; accumulates by design',
    'objects_table': 'externals are settings; module entries are removed by '
                     'yr_modules_unload_all on every exit (R10.2)',
    're_fiber_pool': 'free-list cache; elements re-initialised by _yr_re_fiber_create/split',
    're_fast_exec_position_pool': 'free-list cache; elements re-initialised when taken',
}


def top_field(fld):
    return fld.replace('[]', '').split('.')[0]


def scan_fn(ctx):
    return ctx.fn('yr_scanner_scan_mem_blocks', 'libyara/scanner.c')


def fresh_branch(ctx, f):
    """the else-arm of `if (iterator->last_error == ERROR_BLOCK_NOT_READY)`"""
    nr = ctx.prog.macro_value('ERROR_BLOCK_NOT_READY')
    for n in f.all_nodes():
        if n['k'] != 'if':
            continue
        c = f.kid(n, 0)
        if c is None or c['k'] != 'bin' or c['op'] not in ('==', '!='):
            continue
        a, b = f.kid(c, 0), f.kid(c, 1)
        txt = f.show(a) + f.show(b)
        if 'last_error' not in txt:
            continue
        if cu.const_of(cu.strip_casts(f, b)) != nr and cu.const_of(cu.strip_casts(f, a)) != nr:
            continue
        ks = f.kids(n)
        if c['op'] == '==' and len(ks) >= 3:
            return ks[2]
        if c['op'] == '!=' and len(ks) >= 2:
            return ks[1]
    return None


def r10_1(ctx):
    prog = ctx.prog
    cg = CallGraph(prog)
    E = Effects(prog, cg)
    T = E.transitive()
    f = scan_fn(ctx)
    reach = cg.reachable([f])
    W = {}
    for g in reach:
        if not (g.file.startswith('libyara/') or ctx.fixture):
            continue
        for e, n in E.direct[(g.tu.name, g.name)]:
            if e[0] == 'field' and e[1] == CTX:
                W.setdefault(top_field(e[2]), (g, n))
    ctx.require(len(W) >= 8 or ctx.fixture, 'write set of the scan context has only %d fields' % len(W))
    fb = fresh_branch(ctx, f)
    ctx.require(fb is not None, 'fresh-scan branch (last_error != ERROR_BLOCK_NOT_READY) not found')
    FRESH = {}
    for n in f.walk(fb):
        if n['k'] == 'bin' and n['op'] in ('=',):
            l = cu.strip_casts(f, f.kid(n, 0))
            if l is not None and l['k'] == 'member' and l.get('rec') == CTX:
                FRESH.setdefault(l['fld'], n)
        if n['k'] == 'call':
            # what the callee (re)initialises
            cal = n.get('callee')
            if cal in ('memcpy', 'memset'):
                d = cu.strip_casts(f, f.call_args(n)[0])
                if d is not None and d['k'] == 'member' and d.get('rec') == CTX:
                    FRESH.setdefault(d['fld'], n)
                continue
            for a in f.call_args(n):
                a = cu.strip_casts(f, a)
                if a is not None and a['k'] == 'un' and a['op'] == '&':
                    m = cu.strip_casts(f, f.kid(a, 0))
                    if m is not None and m['k'] == 'member' and m.get('rec') == CTX:
                        FRESH.setdefault(m['fld'], n)
            g = prog.fn(cal, f.tu) if cal else None
            if g is not None:
                for e, w in T[(g.tu.name, g.name)].items():
                    if e[0] == 'field' and e[1] == CTX:
                        # only unconditional re-initialisation (memset / plain
                        # store of the whole field) counts
                        wf, wn = w
                        if wn['k'] == 'call' or (wn['k'] == 'bin' and wn['op'] == '='):
                            FRESH.setdefault(top_field(e[2]), n)
    # (iii) assigned on every path before rule evaluation
    MUST = {}
    exec_calls = [c for c in f.calls() if c.get('callee') == 'yr_execute_code']
    ctx.require(exec_calls, 'call of yr_execute_code not found in the scan function')
    for fld in sorted(W):
        if fld in FRESH or fld in SETTINGS:
            continue
        reached_unassigned = []

        def step(n, facts, fld=fld):
            if n['k'] == 'bin' and n['op'] == '=':
                l = cu.strip_casts(f, f.kid(n, 0))
                if l is not None and l['k'] == 'member' and l.get('rec') == CTX and l['fld'] == fld:
                    return facts | {'assigned'}
            if n['k'] == 'call' and n.get('callee') == 'yr_execute_code':
                if 'assigned' not in facts:
                    reached_unassigned.append(n)
                return None
            if n['k'] == 'ret':
                return None
            return facts
        try:
            paths.explore(f, set(), step, None, max_states=64)
        except paths.Budget:
            ctx.require(False, 'R10.1 must-assign budget exceeded')
        if not reached_unassigned:
            MUST[fld] = True
    for fld in sorted(W):
        g, n = W[fld]
        where = g.loc(n)
        if fld in FRESH:
            ctx.ob('R10.1', '%s:reset-at-fresh-scan-start' % fld, True, f.loc(FRESH[fld]),
                   'written during scans (e.g. %s) and re-initialised on the fresh-scan branch'
                   % g.name)
        elif fld in MUST:
            ctx.ob('R10.1', '%s:assigned-before-evaluation' % fld, True, where,
                   'assigned on every path before yr_execute_code')
        elif fld in SETTINGS:
            ctx.ob('R10.1', '%s:setting-or-cache' % fld, True, where,
                   'frozen table: %s' % SETTINGS[fld])
        else:
            ctx.ob('R10.1', '%s:survives-into-next-scan' % fld, False, where,
                   'scanner field `%s` is written during a scan (%s in %s) and is neither '
                   're-initialised when a fresh scan starts nor assigned on every path before '
                   'rule evaluation: its value from a previous scan (including one suspended '
                   'with ERROR_BLOCK_NOT_READY and never resumed, for which no end-of-scan '
                   'cleanup runs) is visible to the next scan' % (fld, g.show(n)[:50], g.name))
    ctx.count('context_fields_written_by_scans', len(W))
    ctx.count('fields_reset_at_fresh_start', len(FRESH))


def r10_2(ctx):
    f = ctx.fn('yr_execute_code', 'libyara/exec.c')
    bad = []
    from ..vmroles import vm_roles
    OPC = vm_roles(ctx.prog, f).opcode
    ctx.require(OPC is not None, 'R10.2: the opcode variable of yr_execute_code is not identified')

    def step(n, facts):
        if n['k'] == 'call' and n.get('callee') == 'yr_modules_unload_all':
            return facts | {'unloaded'}
        # entering the dispatch: opcode = *ip
        if n['k'] == 'bin' and n['op'] == '=':
            l = f.kid(n, 0)
            if l is not None and l['k'] == 'ref' and l['name'] == OPC:
                return facts | {'dispatching'}
        if n['k'] == 'ret':
            if 'dispatching' in facts and 'unloaded' not in facts:
                bad.append(n)
            return None
        return facts
    try:
        ins = paths.explore(f, set(), step, None, max_states=16)
    except paths.Budget:
        ctx.require(False, 'R10.2: budget exceeded')
    ctx.require(any('dispatching' in s for ss in ins.values() for s in ss),
                'R10.2: dispatch loop of yr_execute_code not recognised')
    ctx.ob('R10.2', 'yr_execute_code:modules-unloaded-on-every-exit', not bad,
           f.loc(bad[0]) if bad else '%s:%s' % (f.file, f.line),
           'every return after the dispatch loop was entered passes yr_modules_unload_all'
           if not bad else
           'a return after rule evaluation started does not pass yr_modules_unload_all: '
           'module objects of this scan stay in the scanner for the next one')
    # the object-copy sweep and frees run on the same paths
    for name in ('yr_arena_release', 'yr_notebook_destroy'):
        bad2 = []

        def step2(n, facts, name=name):
            if n['k'] == 'call' and n.get('callee') == name:
                return facts | {'done'}
            if n['k'] == 'bin' and n['op'] == '=':
                l = f.kid(n, 0)
                if l is not None and l['k'] == 'ref' and l['name'] == OPC:
                    return facts | {'dispatching'}
            if n['k'] == 'ret':
                if 'dispatching' in facts and 'done' not in facts:
                    bad2.append(n)
                return None
            return facts
        paths.explore(f, set(), step2, None, max_states=16)
        ctx.ob('R10.2', 'yr_execute_code:%s-on-every-exit' % name, not bad2,
               f.loc(bad2[0]) if bad2 else '%s:%s' % (f.file, f.line),
               '%s runs on every exit after evaluation started' % name if not bad2 else
               'an exit after evaluation started skips %s' % name)


def r10_3(ctx):
    for fname, create, killall in (('yr_re_exec', '_yr_re_fiber_create', '_yr_re_fiber_kill_all'),):
        f = ctx.fn(fname, 'libyara/re.c')
        bad = []
        ct = paths.CondTracker(f)
        # the fiber list: what is handed to the kill-all function
        LIST = None
        for c in f.calls():
            if c.get('callee') == killall:
                a = cu.strip_casts(f, f.call_args(c)[0])
                if a is not None and a['k'] == 'un' and a['op'] == '&':
                    a = cu.strip_casts(f, f.kid(a, 0))
                if a is not None and a['k'] == 'ref':
                    LIST = a['name']
        ctx.require(LIST is not None, 'R10.3: the fiber list of %s is not identified' % fname)

        def step(n, facts):
            if n['k'] == 'call' and n.get('callee') == create:
                # ownership of the new fiber is decided by the result test
                return facts | {'pending'}
            if n['k'] == 'call' and n.get('callee') == killall:
                return facts - {'live', 'pending'}
            if n['k'] == 'ret':
                if 'live' in facts:
                    bad.append(n)
                return None
            return facts

        def edge(b, term, cond, idx, succ, facts):
            pol = paths.branch_polarity(f, term, idx)
            if pol is None or cond is None:
                return facts
            imp = ct.implied(cond, pol)
            if imp is not None and imp[1] == '__error' and 'pending' in facts:
                if imp[0] == 'eq' and imp[2] == 0:
                    return (facts - {'pending'}) | {'live'}
                if imp[0] == 'ne' and imp[2] == 0:
                    return facts - {'pending'}
            # while (fibers.head != NULL): leaving the loop means no fiber is live
            if imp is not None and imp[1].endswith(LIST + '.head') and imp[2] == 0 and imp[0] == 'eq':
                return facts - {'live'}
            return facts
        try:
            paths.explore(f, set(), step, edge, max_states=64)
        except paths.Budget:
            ctx.require(False, 'R10.3: budget exceeded in ' + fname)
        n_create = sum(1 for c in f.calls() if c.get('callee') == create)
        ctx.require(n_create >= 1, 'R10.3: %s not called in %s' % (create, fname))
        ctx.ob('R10.3', '%s:fibers-released-on-every-exit' % fname, not bad,
               f.loc(bad[0]) if bad else '%s:%s' % (f.file, f.line),
               'every return of %s after a fiber was created passes %s or leaves the '
               'scheduling loop with an empty fiber list' % (fname, killall) if not bad else
               '%s returns at %s with fibers still in its local list: they never go back to '
               'the scanner\'s pool (leak that grows with every failing scan)' % (
                   fname, f.loc(bad[0])))
    # every RE_FIBER field the VM reads is initialised when a fiber is taken
    prog = ctx.prog
    rec = prog.records.get('RE_FIBER')
    cr = prog.fn('_yr_re_fiber_create', 'libyara/re.c')
    if rec is not None and cr is not None:
        assigned = set()
        for a in cr.all_nodes():
            if a['k'] == 'bin' and a['op'] == '=':
                l = cu.strip_casts(cr, cr.kid(a, 0))
                if l is not None and l['k'] == 'member' and l.get('rec') == 'RE_FIBER':
                    assigned.add(l['fld'])
                if l is not None and l['k'] == 'sub':
                    inner = cu.strip_casts(cr, cr.kid(l, 0))
                    if inner is not None and inner['k'] == 'member' and inner.get('rec') == 'RE_FIBER':
                        assigned.add(inner['fld'])
        for fld in rec['fields']:
            if fld['name'] in ('stack',):
                # stack[0..sp] is written before it is read (sp starts at -1/0)
                continue
            ok = fld['name'] in assigned
            ctx.ob('R10.3', 'RE_FIBER.%s:initialised-when-taken-from-pool' % fld['name'], ok,
                   '%s:%s' % (cr.file, cr.line),
                   'assigned by _yr_re_fiber_create' if ok else
                   'a recycled fiber keeps field %s from its previous use' % fld['name'])


def _allocating_one_liner(f, call):
    inl = _inline(f, call)
    if inl is None:
        return False
    body = cu.strip_casts(inl[0], inl[1])
    return body is not None and body['k'] == 'call' and body.get('callee') in ('yr_malloc', 'yr_calloc', 'yr_strdup')


def r10_4(ctx):
    prog = ctx.prog
    for create, destroy, rec in (('yr_scanner_create', 'yr_scanner_destroy', CTX),
                                 ('yr_compiler_create', 'yr_compiler_destroy', 'YR_COMPILER')):
        c = ctx.fn(create)
        d = ctx.fn(destroy)
        allocated = {}
        late = {}
        # what other functions of the unit park in the object (a notebook created when a
        # scan starts): destroy must release that too, the object can be destroyed after
        # any prefix of its history
        for g in (c.tu.fn_list if not ctx.fixture else []):
            if g is c or g is d:
                continue
            for n in g.all_nodes():
                if n['k'] == 'call' and (n.get('callee') or '').endswith('_create'):
                    for a in g.call_args(n):
                        a = cu.strip_casts(g, a)
                        if a is not None and a['k'] == 'un' and a['op'] == '&':
                            m = cu.strip_casts(g, g.kid(a, 0))
                            if m is not None and m['k'] == 'member' and m.get('rec') in (rec, '_' + rec) and \
                                    m.get('arrow'):
                                allocated.setdefault(m['fld'], n)
                                late[m['fld']] = g
        for n in c.all_nodes():
            if n['k'] == 'bin' and n['op'] == '=':
                l = cu.strip_casts(c, c.kid(n, 0))
                r = cu.strip_casts(c, c.kid(n, 1))
                if l is not None and l['k'] == 'member' and r is not None and r['k'] == 'call' \
                        and (r.get('callee') in ('yr_malloc', 'yr_calloc', 'yr_strdup') or
                             _allocating_one_liner(c, r)):
                    allocated[l['fld']] = n
            if n['k'] == 'call':
                for a in c.call_args(n):
                    a = cu.strip_casts(c, a)
                    if a is not None and a['k'] == 'un' and a['op'] == '&':
                        m = cu.strip_casts(c, c.kid(a, 0))
                        if m is not None and m['k'] == 'member' and \
                                n.get('callee', '').endswith('_create'):
                            allocated[m['fld']] = n
        released = set()
        # the destroy function and the static helpers it is built from
        for dd in cu.family(prog, d):
            for n in dd.calls():
                for a in dd.call_args(n):
                    a = cu.strip_casts(dd, a)
                    if a is not None and a['k'] == 'un' and a['op'] == '&':
                        a = cu.strip_casts(dd, dd.kid(a, 0))
                    if a is not None and a['k'] == 'member':
                        released.add(a['fld'])
        ctx.require(len(allocated) >= 3 or ctx.fixture, '%s: allocations not recognised' % create)
        for fld, n in sorted(allocated.items()):
            ok = fld in released
            who = late[fld].name if fld in late else create
            wf = late[fld] if fld in late else c
            ctx.ob('R10.4', '%s:%s:released-by-%s' % (who, fld, destroy), ok, wf.loc(n),
                   '%s->%s allocated by %s is released by %s' % (rec, fld, who, destroy) if ok
                   else '%s allocates %s but %s never passes it to a release function%s' % (
                       who, fld, destroy, ': an object destroyed while it still holds one (a scan '
                       'suspended and never resumed) leaks it' if fld in late else ''))


def _pure_return(h):
    """the expression a function returns when its body is a single `return E;`"""
    rets = [n for n in h.all_nodes() if n['k'] == 'ret']
    stmts = [n for n in h.all_nodes() if n['k'] in ('if', 'for', 'while', 'do', 'switch', 'decl', 'goto')]
    if len(rets) == 1 and not stmts and rets[0].get('c'):
        return h.kid(rets[0], 0)
    return None


def _inline(f, call):
    """(callee function, {param name: factor list of the argument}) for a call of a
    static one-expression helper of the same unit"""
    h = f.tu.functions.get(call.get('callee') or '')
    if h is None or not getattr(h, 'static', False):
        return None
    e = _pure_return(h)
    if e is None:
        return None
    args = f.call_args(call)
    if len(args) != len(h.params):
        return None
    return h, e, {p_['name']: _factors(f, a) for p_, a in zip(h.params, args)}


def _factors(f, e, subst=None):
    """multiset of factors of a product, cast-free, with the rule-set root
    (`scanner->rules`, `new_scanner->rules`, `rules`, `context->rules`)
    normalised.  A call of a static helper that merely returns an expression of its
    parameters stands for that expression (`bitmask_bytes(n)`)."""
    import re
    from .C14 import canon, rcanon
    e = cu.strip_casts(f, e)
    if e is not None and e['k'] == 'call':
        inl = _inline(f, e)
        if inl is not None:
            h, body, sub = inl
            return _factors(h, body, sub)
    if subst and e is not None and e['k'] == 'ref' and e['name'] in subst:
        return list(subst[e['name']])
    if e is not None and e['k'] == 'ref' and e.get('dk') == 'local' and cu.stable_def_of(f, e) is None:
        # a local defined once, by a call of a one-expression helper
        defs = []
        for n_ in f.all_nodes():
            if n_['k'] == 'decl' and n_.get('name') == e['name'] and n_.get('c'):
                defs.append(f.kid(n_, 0))
            elif n_['k'] == 'bin' and n_['op'].endswith('=') and n_['op'] not in ('==', '!=', '<=', '>='):
                l_ = cu.strip_casts(f, f.kid(n_, 0))
                if l_ is not None and l_['k'] == 'ref' and l_['name'] == e['name']:
                    defs.append(None)
        if len(defs) == 1 and defs[0] is not None:
            d0 = cu.strip_casts(f, defs[0])
            if d0 is not None and d0['k'] == 'call' and _inline(f, d0) is not None:
                return _factors(f, d0, subst)
    if subst and e is not None and not (e['k'] == 'bin' and e['op'] == '*'):
        # a non-product expression mentioning a parameter: render with the argument's text
        s0 = rcanon(f, e)
        for k_, v_ in subst.items():
            s0 = re.sub(r'\b%s\b' % re.escape(k_), ' * '.join(v_) if len(v_) == 1 else '(%s)' % ' * '.join(v_), s0)
        s0 = re.sub(r'\b(\w+->)?rules->', 'RULES.', s0)
        return [s0]
    # a local that merely names the size expression stands for that expression
    if e is not None and cu.stable_def_of(f, e) is not None:
        return _factors(f, cu.stable_def_of(f, e), subst)
    if e is not None and e['k'] == 'bin' and e['op'] == '*':
        return _factors(f, f.kid(e, 0), subst) + _factors(f, f.kid(e, 1), subst)
    s_ = rcanon(f, e)
    # whatever designates the rule set (any expression of type YR_RULES*) is one root
    for x in (f.walk(e) if e is not None else ()):
        if (x.get('t') or '').replace('const ', '').replace('struct ', '') in ('YR_RULES *', '_YR_RULES *') \
                and x['k'] in ('ref', 'member'):
            s_ = s_.replace(rcanon(f, x) + '->', 'RULES.')
    s_ = re.sub(r'\b(\w+->)?rules->', 'RULES.', s_)
    return [s_]


def r10_5(ctx):
    """what is allocated per rule set is reset over its whole extent"""
    prog = ctx.prog
    extents = {}
    for f in prog.fns():
        if not f.file.startswith('libyara/scanner.c') and not ctx.fixture:
            continue
        for n in f.all_nodes():
            if n['k'] != 'bin' or n['op'] != '=':
                continue
            l = cu.strip_casts(f, f.kid(n, 0))
            r = cu.strip_casts(f, f.kid(n, 1))
            if l is None or r is None or l['k'] != 'member' or r['k'] != 'call':
                continue
            if l.get('rec') not in ('YR_SCAN_CONTEXT', 'YR_SCANNER'):
                continue
            if r.get('callee') == 'yr_calloc':
                a = f.call_args(r)
                ext = sorted(_factors(f, a[0]) + _factors(f, a[1]))
            elif r.get('callee') == 'yr_malloc':
                ext = sorted(_factors(f, f.call_args(r)[0]))
            else:
                # an allocating one-liner: `return yr_calloc(A, B);`
                inl = _inline(f, r)
                body = cu.strip_casts(inl[0], inl[1]) if inl is not None else None
                if body is None or body['k'] != 'call' or body.get('callee') not in ('yr_calloc', 'yr_malloc'):
                    continue
                h, _, sub = inl
                ba = h.call_args(body)
                ext = sorted(sum((_factors(h, x, sub) for x in
                                  (ba[:2] if body['callee'] == 'yr_calloc' else ba[:1])), []))
            extents[l['fld']] = (ext, f, n)
    ctx.require(len(extents) >= 5 or ctx.fixture, 'only %d sized scanner allocations found' % len(extents))
    n_sites = 0
    for f in prog.fns():
        if not f.file.startswith('libyara/') and not ctx.fixture:
            continue
        k = {}
        # (field, factors of the size, call node to report, verb): direct memset/memcpy of a
        # per-rule-set field, and calls of a static helper that does it to the pointer it is
        # handed (`clear_bitmask(scanner->flags, n)`), with the arguments substituted
        resets = []
        for c in f.calls():
            if c.get('callee') in ('memset', 'memcpy', 'memmove'):
                a = f.call_args(c)
                d = cu.strip_casts(f, a[0])
                if d is not None and d['k'] == 'member' and d.get('rec') in ('YR_SCAN_CONTEXT', 'YR_SCANNER') \
                        and d['fld'] in extents:
                    resets.append((d['fld'], sorted(_factors(f, a[2])), c, c['callee']))
                continue
            h = f.tu.functions.get(c.get('callee') or '')
            if h is None or h is f or not getattr(h, 'static', False):
                continue
            args = f.call_args(c)
            if len(args) != len(h.params):
                continue
            hp = [p_['name'] for p_ in h.params]
            for hc in h.calls():
                if hc.get('callee') not in ('memset', 'memcpy', 'memmove'):
                    continue
                ha = h.call_args(hc)
                hd = cu.strip_casts(h, ha[0])
                if hd is None or hd['k'] != 'ref' or hd['name'] not in hp:
                    continue
                d = cu.strip_casts(f, args[hp.index(hd['name'])])
                if d is None or d['k'] != 'member' or d.get('rec') not in ('YR_SCAN_CONTEXT', 'YR_SCANNER') \
                        or d['fld'] not in extents:
                    continue
                sub = {p_: _factors(f, a_) for p_, a_ in zip(hp, args)}
                resets.append((d['fld'], sorted(_factors(h, ha[2], sub)), c, hc['callee']))
        for fld, got, c, callee in resets:
            n_sites += 1
            want, af, an = extents[fld]
            idx = k.get(fld, 0)
            k[fld] = idx + 1
            ok = got == want
            verb = 'cleared' if callee == 'memset' else 'filled'
            ctx.ob('R10.5', '%s:%s#%d:reset-covers-allocation' % (f.name, fld, idx), ok, f.loc(c),
                   '%s over %s = the allocated extent' % (verb, ' * '.join(got)) if ok else
                   '%s is allocated with %s (at %s) but %s over %s: part of it keeps the state of '
                   'the previous scan (or the write runs past the allocation)' % (
                       fld, ' * '.join(want), af.loc(an), verb, ' * '.join(got)))
    ctx.count('sized_resets', n_sites)


def r10_6(ctx):
    """settings survive a scan: a function other than the setters (and the creator) that
    writes a setting of the scanner - callback, user data, flags, timeout - does so
    temporarily: the value the field had is saved in a local beforehand and every path from
    the first write to a return ends with the field assigned from that local.  Setting a bit
    and clearing it afterwards is not a restore: the bit may have been set by the user."""
    prog = ctx.prog
    settings = set(k for k, v in SETTINGS.items() if v == 'setting') - set(['rules', 'canary'])
    n_sites = 0
    for f in prog.fns():
        if f.file != 'libyara/scanner.c' and not ctx.fixture:
            continue
        if f.name.startswith('yr_scanner_set_') or f.name in ('yr_scanner_create',):
            continue
        writes = {}
        for n in f.all_nodes():
            if n['k'] == 'bin' and n['op'].endswith('=') and n['op'] not in ('==', '!=', '<=', '>='):
                l = cu.strip_casts(f, f.kid(n, 0))
                if l is not None and l['k'] == 'member' and l.get('rec') in (CTX, 'YR_SCANNER') and \
                        l['fld'] in settings and l.get('arrow'):
                    writes.setdefault(l['fld'], []).append(n)
        for fld, ws in sorted(writes.items()):
            n_sites += 1
            wids = set(w['i'] for w in ws)
            bad = []

            def step(n, facts, fld=fld, wids=wids):
                # a local that receives the field's value before any write
                src = dst = None
                if n['k'] == 'decl' and n.get('c'):
                    dst, src = n['name'], cu.strip_casts(f, f.kid(n, 0))
                elif n['k'] == 'bin' and n['op'] == '=':
                    l = cu.strip_casts(f, f.kid(n, 0))
                    if l is not None and l['k'] == 'ref':
                        dst, src = l['name'], cu.strip_casts(f, f.kid(n, 1))
                if dst and src is not None and src['k'] == 'member' and src['fld'] == fld and 'dirty' not in facts:
                    return frozenset(x for x in facts if not (isinstance(x, tuple) and x[0] == 'saved')) | \
                        {('saved', dst)}
                if dst and any(isinstance(x, tuple) and x == ('saved', dst) for x in facts):
                    return frozenset(x for x in facts if x != ('saved', dst))
                if n['i'] in wids:
                    r = cu.strip_casts(f, f.kid(n, 1))
                    restores = n['op'] == '=' and r is not None and r['k'] == 'ref' and \
                        ('saved', r['name']) in facts
                    if restores:
                        return facts - {'dirty'}
                    if not any(isinstance(x, tuple) and x[0] == 'saved' for x in facts):
                        bad.append((n, 'is written without its previous value having been saved'))
                        return None
                    return facts | {'dirty'}
                if n['k'] == 'ret':
                    if 'dirty' in facts:
                        bad.append((n, 'is left modified at this return'))
                    return None
                return facts
            try:
                paths.explore(f, set(), step, None, max_states=128)
            except paths.Budget as e:
                ctx.require(False, 'R10.6: ' + str(e))
            ctx.ob('R10.6', '%s:%s:restored' % (f.name, fld), not bad, f.loc(bad[0][0] if bad else ws[0]),
                   '%s changes the setting `%s` only temporarily: the saved value is assigned back on '
                   'every path' % (f.name, fld) if not bad else
                   'the setting `%s` %s by %s: what the user configured with the setter does not survive '
                   'this call, later scans with the same scanner behave differently' % (fld, bad[0][1], f.name))
    ctx.count('temporary_setting_changes', n_sites)


FIXTURES = {
    'R10.5': {'src': 'C10/reuse.c', 'run': r10_5, 'expect': 'clean_matches:disabled#0:reset-covers-allocation',
              'expect_ok': 'clean_matches:flags_bits#0:reset-covers-allocation'},
    'R10.1': {'src': 'C10/reuse.c', 'run': r10_1, 'expect': 'hits:survives',
              'expect_ok': 'entry_point:reset-at-fresh'},
    'R10.2': {'src': 'C10/exec.c', 'run': r10_2, 'expect': 'modules-unloaded-on-every-exit'},
    'R10.3': {'src': 'C10/exec.c', 'run': r10_3, 'expect': 'fibers-released-on-every-exit'},
}


def run(ctx):
    r10_1(ctx)
    ctx.floor('R10.1', 8)
    r10_2(ctx)
    r10_3(ctx)
    ctx.floor('R10.3', 4)
    r10_4(ctx)
    ctx.floor('R10.4', 6)
    r10_5(ctx)
    r10_6(ctx)
    ctx.floor('R10.6', 1)
    ctx.floor('R10.5', 6)

"""C17 — incomplete or damaged compiled-rule files are rejected.

Decides (DESIGN.md §4 C17), in the loader yr_arena_load_stream and its
callers:
  R17.1 every yr_stream_read has its result compared with the requested
        count, and the failing edge leaves with a non-success code;
  R17.2 every file-derived value (fields of the variables filled by
        yr_stream_read, and of the reference copied out of a loaded buffer)
        is compared against a bound on every path before it is used as an
        array index, an allocation size, a pointer offset or handed to the
        arena's reference->pointer conversion; a guard that subtracts from an
        unsigned quantity needs its own lower-bound test;
  R17.3 the relocation list must be delimited (a count or a terminator the
        reader checks): otherwise a file cut at an entry boundary inside the
        list is indistinguishable from a complete one;
  R17.4 nothing leaks when a file is rejected (C16's ownership rule applied
        to the loader functions).
Not decided: behaviour of a successfully loaded but semantically edited file.
"""
from .. import cfgutil as cu
from .. import paths
from ..callgraph import CallGraph, return_codes, alloc_like

LEVEL = 'other'
EXPLANATION = (
    'Taint-style path analysis of the compiled-rules loader over clang CFG '
    'facts: variables filled from the stream are sources; index, size, '
    'pointer-offset and reference-conversion uses are sinks; a sink is '
    'discharged when every path to it passes a relational comparison that '
    'mentions the same field. Read-count checks, a structural check that the '
    'relocation list is delimited, and the ownership typestate of C16 on the '
    'loader.')
ASSUMPTIONS = ['only the loader functions are analysed (yr_arena_load_stream, '
               'yr_rules_load_stream, yr_rules_load, yr_rules_from_arena)']

LOADER = 'yr_arena_load_stream'
SINK_CALLS = {'yr_stream_read': (2,), 'yr_arena_ref_to_ptr': (1,), 'yr_arena_allocate_memory': (1, 2),
              'yr_arena_get_ptr': (1, 2), 'yr_arena_make_ptr_relocatable': (1, 2),
              'yr_arena_create': (0,)}
RELOPS = ('<', '>', '<=', '>=', '==', '!=')


def r17_1(ctx):
    f = ctx.fn(LOADER, 'libyara/arena.c')
    reads = [c for c in f.calls() if c.get('callee') == 'yr_stream_read']
    ctx.require(len(reads) >= 3 or ctx.fixture, 'only %d yr_stream_read calls in the loader' % len(reads))
    occ = 0
    for c in reads:
        occ += 1
        # the call's value must flow into a comparison (directly or via a local)
        p = f.parent(c)
        while p is not None and p['k'] == 'cast':
            p = f.parent(p)
        from .C14 import canon
        want = canon(f, f.call_args(c)[2])

        def against_count(cmpnode, me):
            """the other operand of the comparison is the requested item count"""
            a, b = f.kid(cmpnode, 0), f.kid(cmpnode, 1)
            other = b if (cu.strip_casts(f, a) is me or f.is_ancestor(a, me)) else a
            return canon(f, other) == want
        compared = p is not None and p['k'] == 'bin' and p['op'] in RELOPS and against_count(p, c)
        weak = p is not None and p['k'] == 'bin' and p['op'] in RELOPS and not compared
        var = None
        if not compared and p is not None:
            if p['k'] == 'decl':
                var = p['name']
            elif p['k'] == 'bin' and p['op'] == '=':
                l = f.kid(p, 0)
                var = l['name'] if l is not None and l['k'] == 'ref' else None
            if var:
                for n in f.all_nodes():
                    if n['k'] == 'bin' and n['op'] in RELOPS:
                        for x in (f.kid(n, 0), f.kid(n, 1)):
                            xs = cu.strip_casts(f, x)
                            if xs is not None and xs['k'] == 'ref' and xs['name'] == var:
                                if against_count(n, xs):
                                    compared = True
                                else:
                                    weak = True
        dst = f.show(cu.strip_casts(f, f.call_args(c)[0]))[:24]
        ctx.ob('R17.1', '%s:read#%d(%s):count-checked' % (f.name, occ, dst), compared, f.loc(c),
               'the number of items read is compared with the number requested (%s)' % want if compared else
               ('the result of yr_stream_read is compared, but not with the %s item(s) requested: a '
                'short read is accepted as if all the data were there' % want) if weak else
               'the result of yr_stream_read is not checked: a short file is accepted as if '
               'the data were there')
    return f


def _fields_checked_on_success(g, pname):
    """fields of the record behind pointer parameter `pname` that g compares against
    something else on every path that returns 0"""
    result = [None]

    def step(n, facts):
        if n['k'] == 'ret':
            v = cu.const_of(cu.strip_casts(g, g.kid(n, 0))) if n.get('c') else None
            if v == 0:
                cur = set(x[1] for x in facts)
                result[0] = cur if result[0] is None else (result[0] & cur)
            return None
        return facts

    def edge(b, term, cond, idx, succ, facts):
        pol = paths.branch_polarity(g, term, idx)
        if pol is None or cond is None:
            return facts
        c, _ = paths.normalise_cond(g, cond, pol)
        if c is None or c['k'] != 'bin' or c['op'] not in RELOPS:
            return facts
        out = set()
        for x, y in ((g.kid(c, 0), g.kid(c, 1)), (g.kid(c, 1), g.kid(c, 0))):
            xs = [m for m in g.walk(x) if m['k'] == 'member' and m.get('arrow') and
                  cu.strip_casts(g, g.kid(m, 0)) is not None and
                  cu.strip_casts(g, g.kid(m, 0))['k'] == 'ref' and
                  cu.strip_casts(g, g.kid(m, 0))['name'] == pname]
            ys = [m for m in g.walk(y) if m['k'] == 'ref' and m['name'] == pname]
            if xs and not ys:
                root, path = cu.member_path(g, xs[0])
                out.add(('chk', path[-1] if path else xs[0]['fld']))
        return frozenset(facts) | out if out else facts
    try:
        paths.explore(g, set(), step, edge, max_states=2000)
    except paths.Budget:
        return set()
    return result[0] or set()


def r17_2(ctx):
    f = ctx.fn(LOADER, 'libyara/arena.c')
    # taint sources
    tainted = set()
    for c in f.calls():
        if c.get('callee') == 'yr_stream_read':
            a = cu.strip_casts(f, f.call_args(c)[0])
            if a is not None and a['k'] == 'un' and a['op'] == '&':
                a = f.kid(a, 0)
            if a is not None and a['k'] == 'ref':
                tainted.add(a['name'])
        if c.get('callee') == 'memcpy':
            d = cu.strip_casts(f, f.call_args(c)[0])
            s = f.call_args(c)[1]
            if d is not None and d['k'] == 'un' and d['op'] == '&' and \
                    any(x['k'] == 'member' and x['fld'] == 'data' for x in f.walk(s)):
                v = f.kid(d, 0)
                if v is not None and v['k'] == 'ref':
                    tainted.add(v['name'])
    # only record-typed sources have fields worth tracking
    locs = {l['name']: l for l in f.locals}
    sources = set(n for n in tainted if n in locs and ('struct' in locs[n]['type'] or
                                                       'YR_ARENA' in locs[n]['type'] or
                                                       locs[n]['type'].startswith('YR_')))
    ctx.require(len(sources) >= 3 or ctx.fixture, 'file-derived variables not recognised: %s' % sorted(tainted))

    def decl_of(r):
        """the declaration a reference denotes (innermost enclosing scope)"""
        child = r
        for a in f.ancestors(r):
            if a['k'] == 'compound':
                for st in f.kids(a):
                    if st is child:
                        break
                    if st['k'] == 'declstmt':
                        for d in f.kids(st):
                            if d['k'] == 'decl' and d['name'] == r['name'] and \
                                    d.get('l', 0) <= r.get('l', 0):
                                return d['i']
            child = a
        return -1

    src_decls = set()
    for c in f.calls():
        if c.get('callee') in ('yr_stream_read', 'memcpy'):
            a = cu.strip_casts(f, f.call_args(c)[0])
            if a is not None and a['k'] == 'un' and a['op'] == '&':
                a = f.kid(a, 0)
            if a is not None and a['k'] == 'ref' and a['name'] in sources:
                if c['callee'] == 'yr_stream_read' or any(
                        x['k'] == 'member' and x['fld'] == 'data' for x in f.walk(f.call_args(c)[1])):
                    src_decls.add((a['name'], decl_of(a)))

    def field_of(n):
        """'var.field' if n reads a field of a file-derived variable"""
        n = cu.strip_casts(f, n)
        if n is None or n['k'] != 'member':
            return None
        root, path = cu.member_path(f, n)
        if root is not None and root['k'] == 'ref' and root['name'] in sources and \
                (root['name'], decl_of(root)) in src_decls:
            return '%s.%s' % (root['name'], path[-1])
        return None

    def fields_in(e):
        out = set()
        for x in f.walk(e):
            k = field_of(x)
            if k:
                out.add(k)
        return out

    sinks = []      # (node, field, kind)
    for n in f.all_nodes():
        if n['k'] == 'sub':
            p = f.parent(n)
            if p is not None and p['k'] == 'un' and p['op'] == '&':
                continue        # &table[i]: address computation only, no access
            for k in fields_in(f.kid(n, 1)):
                sinks.append((n, k, 'array index'))
        elif n['k'] == 'bin' and n['op'] in ('+', '-') and '*' in (n.get('t') or ''):
            for k in fields_in(f.kid(n, 1)):
                sinks.append((n, k, 'pointer offset'))
        elif n['k'] == 'call' and n.get('callee') in SINK_CALLS:
            args = f.call_args(n)
            for i in SINK_CALLS[n['callee']]:
                if i >= len(args):
                    continue
                a = cu.strip_casts(f, args[i])
                for k in fields_in(a):
                    sinks.append((n, k, 'argument of %s' % n['callee']))
                # &var : every field of the variable reaches the callee
                if a is not None and a['k'] == 'un' and a['op'] == '&':
                    v = f.kid(a, 0)
                    if v is not None and v['k'] == 'ref' and v['name'] in sources and \
                            (v['name'], decl_of(v)) in src_decls:
                        rec = ctx.prog.records.get((v.get('trec') or ''))
                        flds = [x['name'] for x in rec['fields']] if rec else ['*']
                        for fl in flds:
                            sinks.append((n, '%s.%s' % (v['name'], fl), 'argument of %s' % n['callee']))
        elif n['k'] == 'for':
            parts = n.get('parts', [])
            c = f.node(parts[1]) if len(parts) > 1 and parts[1] >= 0 else None
            if c is not None:
                for k in fields_in(c):
                    sinks.append((c, k, 'loop bound'))
    ctx.require(len(sinks) >= 6 or ctx.fixture, 'only %d sinks of file-derived values found' % len(sinks))
    read_results = set()
    for c in f.calls():
        if c.get('callee') == 'yr_stream_read':
            p = f.parent(c)
            while p is not None and p['k'] == 'cast':
                p = f.parent(p)
            if p is not None and p['k'] == 'decl':
                read_results.add(p['name'])
            elif p is not None and p['k'] == 'bin' and p['op'] == '=':
                l = f.kid(p, 0)
                if l is not None and l['k'] == 'ref':
                    read_results.add(l['name'])
    # explore: which fields have been compared on every path to each sink
    unchecked = {}
    reached = set()

    def step(n, facts):
        for i, (sn, k, kind) in enumerate(sinks):
            if sn is n:
                reached.add(i)
                if ('chk', k) not in facts:
                    unchecked.setdefault(i, n)
        if n['k'] == 'call' and n.get('callee') in ('yr_stream_read', 'memcpy'):
            # re-filled: previous checks no longer apply
            a = cu.strip_casts(f, f.call_args(n)[0])
            if a is not None and a['k'] == 'un' and a['op'] == '&':
                a = f.kid(a, 0)
            if a is not None and a['k'] == 'ref' and a['name'] in sources:
                return frozenset(x for x in facts if not (x[0] == 'chk' and x[1].startswith(a['name'] + '.')))
        if n['k'] == 'ret':
            return None
        return facts

    # helpers that validate a file-derived record handed to them by address: the fields
    # they compare against a bound on every path that returns success count as compared
    # in the caller once the helper's result was tested (extract-function refactorings)
    helper_checked = {}
    for c in f.calls():
        g = f.tu.functions.get(c.get('callee', '')) if c.get('callee') else None
        if g is None or not getattr(g, 'static', False):
            continue
        for i, a in enumerate(f.call_args(c)):
            a = cu.strip_casts(f, a)
            if a is not None and a['k'] == 'un' and a['op'] == '&':
                v = f.kid(a, 0)
                if v is not None and v['k'] == 'ref' and v['name'] in sources and i < len(g.params):
                    flds = _fields_checked_on_success(g, g.params[i]['name'])
                    if flds:
                        helper_checked[c['i']] = set('%s.%s' % (v['name'], fl) for fl in flds)

    def edge(b, term, cond, idx, succ, facts):
        pol = paths.branch_polarity(f, term, idx)
        if pol is None or cond is None:
            return facts
        c, p_ = paths.normalise_cond(f, cond, pol)
        # FAIL_ON_ERROR(helper(&record)): on the success edge the helper's checks hold
        if c is not None and c['k'] == 'bin' and c['op'] in ('!=', '==') and \
                cu.const_of(cu.strip_casts(f, f.kid(c, 1))) == 0:
            l = cu.strip_casts(f, f.kid(c, 0))
            hc = None
            if l is not None and l['k'] == 'call' and l['i'] in helper_checked:
                hc = helper_checked[l['i']]
            elif l is not None and l['k'] == 'ref':
                for d in f.all_nodes():
                    if d['k'] == 'decl' and d['name'] == l['name'] and d.get('c'):
                        r0 = cu.strip_casts(f, f.kid(d, 0))
                        if r0 is not None and r0['k'] == 'call' and r0['i'] in helper_checked and \
                                f.is_ancestor(f.parent(f.parent(d)), c) if f.parent(d) is not None else False:
                            hc = helper_checked[r0['i']]
            if hc and ((c['op'] == '==') == p_):
                return frozenset(facts) | set(('chk', k) for k in hc)
        if c is not None and c['k'] == 'bin' and c['op'] in RELOPS:
            ks = set()
            a0, a1 = f.kid(c, 0), f.kid(c, 1)
            for x, y in ((a0, a1), (a1, a0)):
                kx = fields_in(x) if x is not None else set()
                # the other side must be a bound: not file-derived itself and
                # not the item count returned by yr_stream_read
                other_tainted = bool(fields_in(y)) if y is not None else False
                if y is not None:
                    for z in f.walk(y):
                        if z['k'] == 'ref' and z['name'] in read_results:
                            other_tainted = True
                if kx and not other_tainted:
                    ks |= kx
            # the variable compared as a whole (memcmp(&ref, &NULL_REF, ..) == 0)
            for x in f.walk(c):
                px = f.parent(x)
                while px is not None and px['k'] == 'cast':
                    px = f.parent(px)
                if x['k'] == 'un' and x['op'] == '&' and px is not None and \
                        px['k'] == 'call' and px.get('callee') == 'memcmp':
                    v = f.kid(x, 0)
                    if v is not None and v['k'] == 'ref' and v['name'] in sources and \
                            (v['name'], decl_of(v)) in src_decls:
                        rec = ctx.prog.records.get((v.get('trec') or ''))
                        for fl in (rec['fields'] if rec else []):
                            ks.add('%s.%s' % (v['name'], fl['name']))
            if ks:
                return frozenset(facts) | set(('chk', k) for k in ks)
        return facts
    paths.explore(f, set(), step, edge, max_states=512)
    seen_keys = set()
    for i, (sn, k, kind) in enumerate(sinks):
        key = '%s:%s:%s' % (f.name, k, kind.replace(' ', '-'))
        if key in seen_keys and i not in unchecked:
            continue
        seen_keys.add(key)
        ok = i not in unchecked
        ctx.ob('R17.2', key, ok, f.loc(sn),
               'file-derived %s is compared against a bound before it is used as %s' % (k, kind)
               if ok else
               'file-derived value %s is used as %s (%s) on a path where it was never compared '
               'against a bound: a damaged file drives the loader out of bounds' % (
                   k, kind, f.show(sn)[:60]))
    # unsigned subtraction inside a guard
    for n in f.all_nodes():
        if n['k'] == 'bin' and n['op'] in RELOPS:
            for side in f.kids(n):
                s = cu.strip_casts(f, side)
                if s is not None and s['k'] == 'bin' and s['op'] == '-' and \
                        'unsigned' in (s.get('t') or '') + ' ' + 'size_t' * ('size_t' in (s.get('t') or '')) \
                        or (s is not None and s['k'] == 'bin' and s['op'] == '-' and (s.get('t') or '') in ('size_t', 'unsigned long', 'uint32_t', 'unsigned int')):
                    minuend = f.show(f.kid(s, 0))
                    sub = f.show(f.kid(s, 1))
                    # needs `minuend < sub` / `minuend >= sub` on the same condition chain
                    top = n
                    for a in f.ancestors(n):
                        if a['k'] == 'bin' and a['op'] in ('||', '&&'):
                            top = a
                        else:
                            break
                    guarded = False
                    for x in f.walk(top):
                        if x['k'] == 'bin' and x['op'] in ('<', '>=', '>', '<=') and x is not n:
                            a0, a1 = f.show(f.kid(x, 0)), f.show(f.kid(x, 1))
                            if minuend in (a0, a1) and ('sizeof' in a0 + a1 or sub in (a0, a1)):
                                guarded = True
                    ctx.ob('R17.2', '%s:guard:%s-minus-%s:lower-bound' % (f.name, minuend, sub[:16]),
                           guarded, f.loc(n),
                           'the unsigned subtraction in the guard has its own lower-bound test'
                           if guarded else
                           'the guard `%s` subtracts from the unsigned %s without first testing '
                           '%s >= %s: for a short buffer the difference wraps around and the '
                           'guard accepts any offset' % (f.show(n)[:60], minuend, minuend, sub[:20]))
    ctx.count('file_derived_variables', len(sources))
    ctx.count('sinks', len(sinks))


def r17_3(ctx):
    f = ctx.fn(LOADER, 'libyara/arena.c')
    # the relocation read loop: a loop whose condition is a yr_stream_read
    loops = []
    for n in f.all_nodes():
        if n['k'] in ('while', 'for', 'do'):
            c = f.kid(n, 0) if n['k'] == 'while' else None
            if n['k'] == 'for':
                parts = n.get('parts', [])
                c = f.node(parts[1]) if len(parts) > 1 and parts[1] >= 0 else None
            if n['k'] == 'do':
                c = f.kids(n)[-1]
            if c is not None and any(x['k'] == 'call' and x.get('callee') == 'yr_stream_read'
                                     for x in f.walk(c)):
                loops.append((n, c))
    ctx.require(loops or ctx.fixture, 'relocation read loop not found')
    for n, c in loops:
        # delimited if the loop (or the code after it) compares a counter with
        # a value read from the file, or recognises a terminator entry
        body_txt = ' '.join(f.show(x) for x in f.walk(n) if x['k'] == 'bin' and x['op'] in RELOPS)
        delimited = any(t in body_txt for t in ('num_relocs', 'reloc_count', 'num_entries', 'EOL',
                                                'terminator', '4294967295'))
        ctx.ob('R17.3', '%s:relocation-list:delimited' % f.name, delimited, f.loc(n),
               'the relocation list is delimited by a count or terminator that the reader checks'
               if delimited else
               'the relocation list is read until the stream ends (`%s`): the writer stores no '
               'count and no terminator, so a file cut at any entry boundary inside the list '
               'loads successfully with some pointers left as (buffer, offset) pairs' %
               f.show(c)[:70])


def r17_4(ctx):
    from .C16 import ownership, creator_summary, param_escape_summary, fallible
    prog = ctx.prog
    cg = CallGraph(prog)
    rc = return_codes(prog, cg)
    allocs = alloc_like(prog, cg)
    esc = param_escape_summary(prog, cg)
    creates = creator_summary(prog, cg, allocs)
    fal = set(k[1] for k, v in rc.items() if fallible(v))
    n = 0
    for fname in (LOADER, 'yr_rules_load_stream', 'yr_rules_load', 'yr_rules_from_arena'):
        f = prog.fn(fname)
        if f is None:
            continue
        for c in f.calls():
            for t in cg.targets(f, c):
                g = prog.fn(t, f.tu)
                if g is None:
                    continue
                for j in creates.get((g.tu.name, g.name), ()):
                    args = f.call_args(c)
                    if j < len(args):
                        a = cu.strip_casts(f, args[j])
                        if a is not None and a['k'] == 'un' and a['op'] == '&':
                            v = f.kid(a, 0)
                            if v is not None and v['k'] == 'ref' and v.get('dk') == 'local':
                                ok, at, what = ownership(ctx, f, c, v['name'], 'out', cg, esc, fal)
                                n += 1
                                ctx.ob('R17.4', '%s:%s:released-on-rejection' % (fname, v['name']),
                                       ok, f.loc(at) if at is not None else f.loc(c),
                                       '`%s` is released on every rejecting path' % v['name'] if ok
                                       else '`%s` %s' % (v['name'], what))
        for c in f.calls():
            if c.get('callee') in allocs or c.get('callee') == 'fopen':
                from .C16 import _holder
                h = _holder(f, c)
                if h[0] == 'lvalue' and h[3]:
                    ok, at, what = ownership(ctx, f, h[2], h[1], 'ptr', cg, esc, fal)
                    n += 1
                    ctx.ob('R17.4', '%s:%s:released-on-rejection' % (fname, h[1]), ok,
                           f.loc(at) if at is not None else f.loc(c),
                           '`%s` is released on every path' % h[1] if ok else '`%s` %s' % (h[1], what))
    ctx.count('loader_owning_locals', n)


FIXTURES = {
    'R17.1': {'src': 'C17/load.c', 'run': r17_1, 'expect': 'read#1'},
    'R17.2': {'src': 'C17/load.c', 'run': r17_2, 'expect': 'reloc_ref.buffer_id:array-index'},
    'R17.3': {'src': 'C17/load.c', 'run': r17_3, 'expect': 'relocation-list:delimited'},
}


def r17_6(ctx):
    """the section indices the loader uses exist: the file declares how many buffers
    the arena has, and every constant section index used on a loaded arena is
    dominated by a test that the arena has more buffers than that"""
    from .C14 import canon
    from .. import paths
    prog = ctx.prog
    n = 0
    for fname in ('yr_rules_from_arena', 'yr_rules_load_stream'):
        f = prog.fn(fname, 'libyara/rules.c')
        if f is None:
            continue
        uses = []
        for c in f.calls():
            if c.get('callee') in ('yr_arena_get_ptr', 'yr_arena_get_current_offset'):
                a = f.call_args(c)
                k = cu.const_of(cu.strip_casts(f, a[1]))
                if k is not None:
                    uses.append((c, canon(f, a[0]), k))
        if not uses:
            continue
        ids = {u[0]['i']: u for u in uses}
        low = {}

        def step(x, facts):
            if x['k'] == 'ret':
                return None
            return facts

        def edge(b, term, cond, idx, succ, facts):
            pol = paths.branch_polarity(f, term, idx)
            if pol is None or cond is None:
                return facts
            c, p2 = paths.normalise_cond(f, cond, pol)
            if c is None or c['k'] != 'bin' or c['op'] not in ('<', '<=', '>', '>=', '!=', '=='):
                return facts
            l = canon(f, f.kid(c, 0))
            k = cu.const_of(cu.strip_casts(f, f.kid(c, 1)))
            if not l.endswith('->num_buffers') or k is None:
                return facts
            op = c['op'] if p2 else {'<': '>=', '<=': '>', '>': '<=', '>=': '<', '!=': '==', '==': '!='}[c['op']]
            ge = None
            if op == '>=':
                ge = k
            elif op == '>':
                ge = k + 1
            elif op == '==':
                ge = k
            if ge is None:
                return facts
            return frozenset(facts) | {('ge', l[:-len('->num_buffers')], ge)}

        def obs(x, facts):
            if x['i'] in ids:
                c, arena, k = ids[x['i']]
                best = max([y[2] for y in facts if y[0] == 'ge' and y[1] == arena] or [0])
                low[x['i']] = best
        paths.must_flow(f, set(), step, edge, obs)
        need = max(u[2] for u in uses) + 1
        got = min(low.get(u[0]['i'], 0) for u in uses)
        n += 1
        ctx.ob('R17.6', '%s:section-indices-exist' % fname, got >= need, f.loc(uses[0][0]),
               '%d constant section indices (up to %d) are used only after num_buffers >= %d was '
               'established' % (len(uses), need - 1, got) if got >= need else
               '%s uses section index %d of a loaded arena without having tested that the arena has more '
               'than %d buffers (established: num_buffers >= %d): a file whose header declares fewer '
               'sections makes yr_arena_get_ptr() fail its assertion (or read a buffer slot that does '
               'not exist)' % (fname, need - 1, need - 1, got))
    ctx.count('loader_functions_indexing_sections', n)


def run(ctx):
    r17_1(ctx)
    ctx.floor('R17.1', 3)
    r17_2(ctx)
    ctx.floor('R17.2', 6)
    r17_3(ctx)
    r17_4(ctx)
    ctx.floor('R17.4', 3)
    # R17.5 = C16/R16.7 on the loader: a value looked up in the loaded image is tested before it is used
    from .C16 import r16_7
    r16_7(ctx, only=(LOADER, 'yr_rules_load_stream', 'yr_rules_load', 'yr_rules_from_arena'), rule='R17.5')
    ctx.floor('R17.5', 2)
    r17_6(ctx)
    ctx.floor('R17.6', 1)

"""C17 — incomplete or damaged compiled-rule files are rejected.

Decides (DESIGN.md §4 C17), in the loader yr_arena_load_stream and its
callers:
  R17.1 every yr_stream_read has its result compared with the requested
        count, and the failing edge leaves with a non-success code;
  R17.2 every file-derived value (fields of the variables filled by
        yr_stream_read, and of the reference copied out of a loaded buffer)
        is compared against a bound on every path before it is used as an
        array index, an allocation size, a pointer offset or handed to the
        arena's reference->pointer conversion; a guard that subtracts from an
        unsigned quantity needs its own lower-bound test;
  R17.3 the relocation list must be delimited (a count or a terminator the
        reader checks): otherwise a file cut at an entry boundary inside the
        list is indistinguishable from a complete one;
  R17.4 nothing leaks when a file is rejected (C16's ownership rule applied
        to the loader functions).
Not decided: behaviour of a successfully loaded but semantically edited file.
"""
from .. import cfgutil as cu
from .. import paths
from ..callgraph import CallGraph, return_codes, alloc_like

LEVEL = 'other'
EXPLANATION = (
    'Taint-style path analysis of the compiled-rules loader over clang CFG '
    'facts: variables filled from the stream are sources; index, size, '
    'pointer-offset and reference-conversion uses are sinks; a sink is '
    'discharged when every path to it passes a relational comparison that '
    'mentions the same field. Read-count checks, a structural check that the '
    'relocation list is delimited, and the ownership typestate of C16 on the '
    'loader.')
ASSUMPTIONS = ['only the loader functions are analysed (yr_arena_load_stream, '
               'yr_rules_load_stream, yr_rules_load, yr_rules_from_arena)']

LOADER = 'yr_arena_load_stream'
SINK_CALLS = {'yr_stream_read': (2,), 'yr_arena_ref_to_ptr': (1,), 'yr_arena_allocate_memory': (1, 2),
              'yr_arena_get_ptr': (1, 2), 'yr_arena_make_ptr_relocatable': (1, 2),
              'yr_arena_create': (0,)}
RELOPS = ('<', '>', '<=', '>=', '==', '!=')


def loader_family(ctx):
    """the loader and the static helpers of arena.c it is built from"""
    f = ctx.fn(LOADER, 'libyara/arena.c')
    return cu.family(ctx.prog, f)


def r17_1(ctx):
    root = ctx.fn(LOADER, 'libyara/arena.c')
    fam = loader_family(ctx)
    total = sum(1 for f in fam for c in f.calls() if c.get('callee') == 'yr_stream_read')
    ctx.require(total >= 3 or ctx.fixture, 'only %d yr_stream_read calls in the loader' % total)
    from .C14 import rcanon
    for f in fam:
        occ = 0
        for c in f.calls():
            if c.get('callee') != 'yr_stream_read':
                continue
            occ += 1
            # the call's value must flow into a comparison (directly or via a local)
            p = f.parent(c)
            while p is not None and p['k'] == 'cast':
                p = f.parent(p)
            want = rcanon(f, f.call_args(c)[2])

            def against_count(cmpnode, me):
                """the other operand of the comparison is the requested item count"""
                a, b = f.kid(cmpnode, 0), f.kid(cmpnode, 1)
                other = b if (cu.strip_casts(f, a) is me or f.is_ancestor(a, me)) else a
                return rcanon(f, other) == want
            compared = p is not None and p['k'] == 'bin' and p['op'] in RELOPS and against_count(p, c)
            weak = p is not None and p['k'] == 'bin' and p['op'] in RELOPS and not compared
            var = None
            if not compared and p is not None:
                if p['k'] == 'decl':
                    var = p['name']
                elif p['k'] == 'bin' and p['op'] == '=':
                    l = f.kid(p, 0)
                    var = l['name'] if l is not None and l['k'] == 'ref' else None
                if var:
                    for n in f.all_nodes():
                        if n['k'] == 'bin' and n['op'] in RELOPS:
                            for x in (f.kid(n, 0), f.kid(n, 1)):
                                xs = cu.strip_casts(f, x)
                                if xs is not None and xs['k'] == 'ref' and xs['name'] == var:
                                    if against_count(n, xs):
                                        compared = True
                                    else:
                                        weak = True
            dst = f.show(cu.strip_casts(f, f.call_args(c)[0]))[:24]
            ctx.ob('R17.1', '%s:read#%d(%s):count-checked' % (f.name, occ, dst), compared, f.loc(c),
                   'the number of items read is compared with the number requested (%s)' % want if compared else
                   ('the result of yr_stream_read is compared, but not with the %s item(s) requested: a '
                    'short read is accepted as if all the data were there' % want) if weak else
                   'the result of yr_stream_read is not checked: a short file is accepted as if '
                   'the data were there')
    return root


def _fields_checked_on_success(g, pname):
    """fields of the record behind pointer parameter `pname` that g compares against
    something else on every path that returns 0"""
    result = [None]

    def step(n, facts):
        if n['k'] == 'ret':
            v = cu.const_of(cu.strip_casts(g, g.kid(n, 0))) if n.get('c') else None
            if v == 0:
                cur = set(x[1] for x in facts)
                result[0] = cur if result[0] is None else (result[0] & cur)
            return None
        return facts

    def edge(b, term, cond, idx, succ, facts):
        pol = paths.branch_polarity(g, term, idx)
        if pol is None or cond is None:
            return facts
        c, _ = paths.normalise_cond(g, cond, pol)
        if c is None or c['k'] != 'bin' or c['op'] not in RELOPS:
            return facts
        out = set()
        for x, y in ((g.kid(c, 0), g.kid(c, 1)), (g.kid(c, 1), g.kid(c, 0))):
            xs = [m for m in g.walk(x) if m['k'] == 'member' and m.get('arrow') and
                  cu.strip_casts(g, g.kid(m, 0)) is not None and
                  cu.strip_casts(g, g.kid(m, 0))['k'] == 'ref' and
                  cu.strip_casts(g, g.kid(m, 0))['name'] == pname]
            ys = [m for m in g.walk(y) if m['k'] == 'ref' and m['name'] == pname]
            if xs and not ys:
                root, path = cu.member_path(g, xs[0])
                out.add(('chk', path[-1] if path else xs[0]['fld']))
        return frozenset(facts) | out if out else facts
    try:
        paths.explore(g, set(), step, edge, max_states=2000)
    except paths.Budget:
        return set()
    return result[0] or set()


def _is_record_type(t):
    t = (t or '').replace('const ', '').strip()
    return t.startswith('struct') or t.startswith('YR_') or t.startswith('_YR_')


def _fill_summary(fam):
    """{function: set(parameter index)}: parameters whose pointee the function
    fills with bytes of the stream (directly or through another helper)"""
    fills = {g.name: set() for g in fam}
    changed = True
    while changed:
        changed = False
        for g in fam:
            pn = [p['name'] for p in g.params]
            for c in g.calls():
                cal = c.get('callee')
                if cal == 'yr_stream_read':
                    idxs = [0]
                elif cal in fills and cal != g.name:
                    idxs = sorted(fills[cal])
                else:
                    continue
                args = g.call_args(c)
                for j in idxs:
                    if j >= len(args):
                        continue
                    x = cu.strip_casts(g, args[j])
                    if x is not None and x['k'] == 'ref' and x.get('dk') == 'param' and x['name'] in pn:
                        i = pn.index(x['name'])
                        if i not in fills[g.name]:
                            fills[g.name].add(i)
                            changed = True
    return fills


class _LoaderTaint(object):
    """R17.2 in one function of the loader family.  `entry` describes what the
    callers hand in: {'rec': {param: set(checked fields)}, 'sc': {param: bool}}."""

    def __init__(self, ctx, g, fam, fills, entry):
        self.ctx, self.g, self.fills, self.entry = ctx, g, fills, entry
        self.fam = {h.name: h for h in fam}
        self.obs = []
        self.callee_entries = {}
        self.n_sources = 0
        self.n_sinks = 0

    # -- sources -----------------------------------------------------------
    def _var_of_arg(self, a):
        """the variable an argument designates when it is `&v` or `v`"""
        g = self.g
        a = cu.strip_casts(g, a)
        if a is not None and a['k'] == 'un' and a['op'] == '&':
            a = cu.strip_casts(g, g.kid(a, 0))
        if a is not None and a['k'] == 'ref':
            return a
        return None

    def _from_loaded_buffer(self, e):
        """e reads the content of a loaded buffer (mentions a `data` member), also
        through a local that merely names such an expression"""
        g = self.g
        for x in g.walk(e):
            if x['k'] == 'member' and x['fld'] == 'data':
                return True
            if x['k'] == 'ref':
                d = cu.stable_def_of(g, x)
                if d is not None and any(y['k'] == 'member' and y['fld'] == 'data' for y in g.walk(d)):
                    return True
        return False

    def find_sources(self):
        g = self.g
        types = {l['name']: l['type'] for l in g.locals}
        types.update({p['name']: p.get('type', '') for p in g.params})
        tainted = {}           # (name, decl id) -> ref node
        for c in g.calls():
            cal = c.get('callee')
            args = g.call_args(c)
            dests = []
            if cal == 'yr_stream_read':
                dests = [0]
            elif cal == 'memcpy' and len(args) >= 2 and self._from_loaded_buffer(args[1]):
                dests = [0]
            elif cal in self.fills:
                dests = sorted(self.fills[cal])
            for j in dests:
                if j < len(args):
                    v = self._var_of_arg(args[j])
                    if v is not None and _is_record_type(types.get(v['name'])):
                        tainted[(v['name'], self._decl(v))] = v
        self.rec = set(tainted)                       # (name, decl)
        self.rec_names = set(n for n, _ in self.rec)
        for pn in self.entry.get('rec', {}):
            self.rec.add((pn, -1))
            self.rec_names.add(pn)
        self.sc = set(self.entry.get('sc', {}))
        self.n_sources = len(self.rec) + len(self.sc)

    def _decl(self, r):
        if r.get('dk') == 'param':
            return -1
        d = cu.decl_of(self.g, r)
        return d['i'] if d is not None else -2

    # -- file-derived fields in an expression ---------------------------------
    def field_of(self, n, depth=0):
        g = self.g
        n = cu.strip_casts(g, n)
        if n is None:
            return None
        if n['k'] == 'member':
            root, path = cu.member_path(g, n)
            if root is not None and root['k'] == 'ref' and root['name'] in self.rec_names and \
                    (root['name'], self._decl(root)) in self.rec and path:
                return '%s.%s' % (root['name'], path[-1])
            return None
        if n['k'] == 'ref':
            if n.get('dk') == 'param' and n['name'] in self.sc:
                return n['name']
            if depth < 2:
                d = cu.stable_def_of(g, n)
                if d is not None:
                    ds = cu.strip_casts(g, d)
                    if ds is not None and ds['k'] in ('member', 'ref'):
                        return self.field_of(ds, depth + 1)
        return None

    def fields_in(self, e):
        out = set()
        if e is None:
            return out
        for x in self.g.walk(e):
            k = self.field_of(x)
            if k:
                out.add(k)
        return out

    def _all_fields(self, v):
        rec = self.ctx.prog.records.get(v.get('trec') or v.get('prec') or '')
        return [x['name'] for x in rec['fields']] if rec else ['*']

    # -- sinks -------------------------------------------------------------------
    def find_sinks(self):
        g = self.g
        sinks = []
        for n in g.all_nodes():
            if n['k'] == 'sub':
                p = g.parent(n)
                if p is not None and p['k'] == 'un' and p['op'] == '&':
                    continue        # &table[i]: address computation only, no access
                for k in self.fields_in(g.kid(n, 1)):
                    sinks.append((n, k, 'array index'))
            elif n['k'] == 'bin' and n['op'] in ('+', '-') and '*' in (n.get('t') or ''):
                for k in self.fields_in(g.kid(n, 1)):
                    sinks.append((n, k, 'pointer offset'))
            elif n['k'] == 'call' and n.get('callee') in SINK_CALLS:
                args = g.call_args(n)
                for i in SINK_CALLS[n['callee']]:
                    if i >= len(args):
                        continue
                    a = cu.strip_casts(g, args[i])
                    for k in self.fields_in(a):
                        sinks.append((n, k, 'argument of %s' % n['callee']))
                    # &var (or the pointer parameter itself): every field reaches the callee
                    v = self._var_of_arg(a) if a is not None and (
                        a['k'] == 'ref' or (a['k'] == 'un' and a['op'] == '&')) else None
                    if v is not None and (v['name'], self._decl(v)) in self.rec and \
                            not (n['callee'] == 'yr_stream_read' and i == 0):
                        for fl in self._all_fields(v):
                            sinks.append((n, '%s.%s' % (v['name'], fl), 'argument of %s' % n['callee']))
            elif n['k'] == 'for':
                parts = n.get('parts', [])
                c = g.node(parts[1]) if len(parts) > 1 and parts[1] >= 0 else None
                if c is not None:
                    for k in self.fields_in(c):
                        sinks.append((c, k, 'loop bound'))
        self.sinks = sinks
        self.n_sinks = len(sinks)

    # -- the path analysis ----------------------------------------------------------
    def run(self):
        g, ctx = self.g, self.ctx
        self.find_sources()
        self.find_sinks()
        sinks = self.sinks
        read_results = set()
        for c in g.calls():
            if c.get('callee') == 'yr_stream_read':
                p = g.parent(c)
                while p is not None and p['k'] == 'cast':
                    p = g.parent(p)
                if p is not None and p['k'] == 'decl':
                    read_results.add(p['name'])
                elif p is not None and p['k'] == 'bin' and p['op'] == '=':
                    l = g.kid(p, 0)
                    if l is not None and l['k'] == 'ref':
                        read_results.add(l['name'])
        unchecked = {}
        by_node = {}
        for i, (sn, k, kind) in enumerate(sinks):
            by_node.setdefault(sn['i'], []).append(i)
        # helpers: what they fill and what they have compared when they return success
        helper_checked = {}
        helper_fills = {}
        for c in g.calls():
            h = self.fam.get(c.get('callee') or '')
            if h is None or h is g:
                continue
            for i, a in enumerate(g.call_args(c)):
                v = self._var_of_arg(a)
                if v is None or (v['name'], self._decl(v)) not in self.rec or i >= len(h.params):
                    continue
                if i in self.fills.get(h.name, ()):
                    helper_fills.setdefault(c['i'], set()).add(v['name'])
                flds = _fields_checked_on_success(h, h.params[i]['name'])
                if flds:
                    helper_checked.setdefault(c['i'], set()).update('%s.%s' % (v['name'], fl) for fl in flds)

        def drop(facts, name):
            return frozenset(x for x in facts if not (x[0] == 'chk' and x[1].startswith(name + '.')))

        def step(n, facts):
            for i in by_node.get(n['i'], ()):
                if ('chk', sinks[i][1]) not in facts:
                    unchecked.setdefault(i, n)
            if n['k'] == 'call':
                cal = n.get('callee')
                if cal in ('yr_stream_read', 'memcpy'):
                    # re-filled: previous checks no longer apply
                    v = self._var_of_arg(g.call_args(n)[0])
                    if v is not None and v['name'] in self.rec_names:
                        return drop(facts, v['name'])
                h = self.fam.get(cal or '')
                if h is not None and h is not g:
                    self.note_call(n, h, facts)
                    for name in helper_fills.get(n['i'], ()):
                        facts = drop(facts, name)
                    return facts
            if n['k'] == 'ret':
                return None
            return facts

        def edge(b, term, cond, idx, succ, facts):
            pol = paths.branch_polarity(g, term, idx)
            if pol is None or cond is None:
                return facts
            c, p_ = paths.normalise_cond(g, cond, pol)
            # FAIL_ON_ERROR(helper(&record)): on the success edge the helper's checks hold
            if c is not None and c['k'] == 'bin' and c['op'] in ('!=', '==') and \
                    cu.const_of(cu.strip_casts(g, g.kid(c, 1))) == 0:
                l = cu.strip_casts(g, g.kid(c, 0))
                hc = None
                if l is not None and l['k'] == 'call' and l['i'] in helper_checked:
                    hc = helper_checked[l['i']]
                elif l is not None and l['k'] == 'ref':
                    d = cu.decl_of(g, l) if l.get('dk') == 'local' else None
                    if d is not None and d.get('c'):
                        r0 = cu.strip_casts(g, g.kid(d, 0))
                        if r0 is not None and r0['k'] == 'call' and r0['i'] in helper_checked:
                            hc = helper_checked[r0['i']]
                if hc and ((c['op'] == '==') == p_):
                    return frozenset(facts) | set(('chk', k) for k in hc)
            if c is not None and c['k'] == 'bin' and c['op'] in RELOPS:
                ks = set()
                a0, a1 = g.kid(c, 0), g.kid(c, 1)
                for x, y in ((a0, a1), (a1, a0)):
                    kx = self.fields_in(x)
                    # the other side must be a bound: not file-derived itself (unless that
                    # value has been bounded already: buffers[ref.buffer_id].used) and
                    # not the item count returned by yr_stream_read
                    other_tainted = any(('chk', k) not in facts for k in self.fields_in(y))
                    if y is not None:
                        for z in g.walk(y):
                            if z['k'] == 'ref' and z['name'] in read_results:
                                other_tainted = True
                    if kx and not other_tainted:
                        ks |= kx
                # the variable compared as a whole (memcmp(&ref, &NULL_REF, ..) == 0): on the
                # edge where it equals the constant every field is known
                whole = c['op'] in ('==', '!=') and ((c['op'] == '==') == p_) and \
                    0 in (cu.const_of(cu.strip_casts(g, a0)), cu.const_of(cu.strip_casts(g, a1)))
                for x in (g.walk(c) if whole else ()):
                    px = g.parent(x)
                    while px is not None and px['k'] == 'cast':
                        px = g.parent(px)
                    if x['k'] == 'un' and x['op'] == '&' and px is not None and \
                            px['k'] == 'call' and px.get('callee') == 'memcmp':
                        v = g.kid(x, 0)
                        if v is not None and v['k'] == 'ref' and (v['name'], self._decl(v)) in self.rec:
                            for fl in self._all_fields(v):
                                ks.add('%s.%s' % (v['name'], fl))
                if ks:
                    return frozenset(facts) | set(('chk', k) for k in ks)
            return facts
        init = set()
        for pn, flds in self.entry.get('rec', {}).items():
            init |= set(('chk', '%s.%s' % (pn, fl)) for fl in flds)
        for pn, ok in self.entry.get('sc', {}).items():
            if ok:
                init.add(('chk', pn))
        try:
            paths.explore(g, init, step, edge, max_states=512)
        except paths.Budget as e:
            ctx.require(False, str(e))
        seen_keys = set()
        for i, (sn, k, kind) in enumerate(sinks):
            key = '%s:%s:%s' % (g.name, k, kind.replace(' ', '-'))
            if key in seen_keys and i not in unchecked:
                continue
            seen_keys.add(key)
            ok = i not in unchecked
            self.obs.append(('R17.2', key, ok, g.loc(sn),
                             'file-derived %s is compared against a bound before it is used as %s' % (k, kind)
                             if ok else
                             'file-derived value %s is used as %s (%s) on a path where it was never compared '
                             'against a bound: a damaged file drives the loader out of bounds' % (
                                 k, kind, g.show(sn)[:60])))
        return self

    def note_call(self, n, h, facts):
        """what this call hands to helper h (merged over paths and call sites)"""
        g = self.g
        ent = self.callee_entries.setdefault(h.name, {'rec': {}, 'sc': {}})
        for j, a in enumerate(g.call_args(n)):
            if j >= len(h.params):
                continue
            pn = h.params[j]['name']
            v = self._var_of_arg(a)
            if v is not None and (v['name'], self._decl(v)) in self.rec:
                if j in self.fills.get(h.name, ()):
                    continue            # the helper fills it itself: a source there
                chk = set(x[1].split('.', 1)[1] for x in facts
                          if x[0] == 'chk' and x[1].startswith(v['name'] + '.'))
                ent['rec'][pn] = chk if pn not in ent['rec'] else (ent['rec'][pn] & chk)
                continue
            ks = self.fields_in(a)
            if ks:
                ok = all(('chk', k) in facts for k in ks)
                ent['sc'][pn] = ok if pn not in ent['sc'] else (ent['sc'][pn] and ok)


def r17_2(ctx):
    fam = loader_family(ctx)
    fills = _fill_summary(fam)
    entries = {fam[0].name: {'rec': {}, 'sc': {}}}
    results = {}
    # callers before callees; repeated until what the helpers are handed is stable
    for _ in range(4):
        before = repr(sorted((k, sorted((a, sorted(b)) for a, b in v['rec'].items()), sorted(v['sc'].items()))
                             for k, v in entries.items()))
        new_entries = {fam[0].name: {'rec': {}, 'sc': {}}}
        for g in fam:
            if g.name not in entries:
                continue
            an = _LoaderTaint(ctx, g, fam, fills, entries[g.name]).run()
            results[g.name] = an
            for hn, ent in an.callee_entries.items():
                cur = new_entries.get(hn)
                if cur is None:
                    new_entries[hn] = {'rec': dict(ent['rec']), 'sc': dict(ent['sc'])}
                else:
                    for k, v in ent['rec'].items():
                        cur['rec'][k] = v if k not in cur['rec'] else (cur['rec'][k] & v)
                    for k, v in ent['sc'].items():
                        cur['sc'][k] = v if k not in cur['sc'] else (cur['sc'][k] and v)
            for hn, ent in new_entries.items():
                if hn not in entries:
                    entries[hn] = ent
        for hn, ent in new_entries.items():
            entries[hn] = ent
        after = repr(sorted((k, sorted((a, sorted(b)) for a, b in v['rec'].items()), sorted(v['sc'].items()))
                            for k, v in entries.items()))
        if after == before:
            break
    n_sources = sum(r.n_sources for r in results.values())
    n_sinks = sum(r.n_sinks for r in results.values())
    ctx.require(n_sources >= 3 or ctx.fixture, 'file-derived variables not recognised (%d)' % n_sources)
    ctx.require(n_sinks >= 6 or ctx.fixture, 'only %d sinks of file-derived values found' % n_sinks)
    for g in fam:
        r = results.get(g.name)
        if r is None:
            continue
        for o in r.obs:
            ctx.ob(*o)
    # unsigned subtraction inside a guard
    for f in fam:
        for n in f.all_nodes():
            if n['k'] == 'bin' and n['op'] in RELOPS:
                for side in f.kids(n):
                    s = cu.strip_casts(f, side)
                    if s is not None and s['k'] == 'bin' and s['op'] == '-' and \
                            ('unsigned' in (s.get('t') or '') or
                             (s.get('t') or '') in ('size_t', 'unsigned long', 'uint32_t', 'unsigned int')):
                        minuend = f.show(f.kid(s, 0))
                        sub = f.show(f.kid(s, 1))
                        # needs `minuend < sub` / `minuend >= sub`: on the same condition chain, or
                        # as an earlier guard that leaves the function
                        top = n
                        for a in f.ancestors(n):
                            if a['k'] == 'bin' and a['op'] in ('||', '&&'):
                                top = a
                            else:
                                break
                        guarded = False

                        def is_lower(x):
                            if x['k'] == 'bin' and x['op'] in ('<', '>=', '>', '<=') and x is not n:
                                a0, a1 = f.show(f.kid(x, 0)), f.show(f.kid(x, 1))
                                return minuend in (a0, a1) and ('sizeof' in a0 + a1 or sub in (a0, a1))
                            return False
                        for x in f.walk(top):
                            if is_lower(x):
                                guarded = True
                        if not guarded:
                            # `if (minuend < sub) return ...;` as a preceding sibling statement
                            child = n
                            for a in f.ancestors(n):
                                if a['k'] == 'compound':
                                    for st in f.kids(a):
                                        if st is child or f.is_ancestor(st, n):
                                            break
                                        if st['k'] == 'if' and f.kid(st, 0) is not None and \
                                                any(is_lower(x) for x in f.walk(f.kid(st, 0))) and \
                                                any(y['k'] in ('ret', 'goto', 'continue', 'break')
                                                    for y in f.walk(f.kid(st, 1))):
                                            guarded = True
                                child = a
                        ctx.ob('R17.2', '%s:guard:%s-minus-%s:lower-bound' % (f.name, minuend, sub[:16]),
                               guarded, f.loc(n),
                               'the unsigned subtraction in the guard has its own lower-bound test'
                               if guarded else
                               'the guard `%s` subtracts from the unsigned %s without first testing '
                               '%s >= %s: for a short buffer the difference wraps around and the '
                               'guard accepts any offset' % (f.show(n)[:60], minuend, minuend, sub[:20]))
    ctx.count('file_derived_variables', n_sources)
    ctx.count('sinks', n_sinks)


def r17_3(ctx):
    root = ctx.fn(LOADER, 'libyara/arena.c')
    # the relocation read loop: a loop whose condition is a yr_stream_read (in the
    # loader or in a helper it is built from)
    loops = []
    for f in loader_family(ctx):
        for n in f.all_nodes():
            if n['k'] in ('while', 'for', 'do'):
                c = f.kid(n, 0) if n['k'] == 'while' else None
                if n['k'] == 'for':
                    parts = n.get('parts', [])
                    c = f.node(parts[1]) if len(parts) > 1 and parts[1] >= 0 else None
                if n['k'] == 'do':
                    c = f.kids(n)[-1]
                if c is not None and any(x['k'] == 'call' and x.get('callee') == 'yr_stream_read'
                                         for x in f.walk(c)):
                    loops.append((f, n, c))
    ctx.require(loops or ctx.fixture, 'relocation read loop not found')
    for f, n, c in loops:
        # delimited if the loop (or the code after it) compares a counter with
        # a value read from the file, or recognises a terminator entry
        body_txt = ' '.join(f.show(x) for x in f.walk(n) if x['k'] == 'bin' and x['op'] in RELOPS)
        delimited = any(t in body_txt for t in ('num_relocs', 'reloc_count', 'num_entries', 'EOL',
                                                'terminator', '4294967295'))
        ctx.ob('R17.3', '%s:relocation-list:delimited' % root.name, delimited, f.loc(n),
               'the relocation list is delimited by a count or terminator that the reader checks'
               if delimited else
               'the relocation list is read until the stream ends (`%s`): the writer stores no '
               'count and no terminator, so a file cut at any entry boundary inside the list '
               'loads successfully with some pointers left as (buffer, offset) pairs' %
               f.show(c)[:70])


def r17_4(ctx):
    from .C16 import ownership, creator_summary, param_escape_summary, fallible
    prog = ctx.prog
    cg = CallGraph(prog)
    rc = return_codes(prog, cg)
    allocs = alloc_like(prog, cg)
    esc = param_escape_summary(prog, cg)
    creates = creator_summary(prog, cg, allocs)
    fal = set(k[1] for k, v in rc.items() if fallible(v))
    n = 0
    for fname in (LOADER, 'yr_rules_load_stream', 'yr_rules_load', 'yr_rules_from_arena'):
        f = prog.fn(fname)
        if f is None:
            continue
        for c in f.calls():
            for t in cg.targets(f, c):
                g = prog.fn(t, f.tu)
                if g is None:
                    continue
                for j in creates.get((g.tu.name, g.name), ()):
                    args = f.call_args(c)
                    if j < len(args):
                        a = cu.strip_casts(f, args[j])
                        if a is not None and a['k'] == 'un' and a['op'] == '&':
                            v = f.kid(a, 0)
                            if v is not None and v['k'] == 'ref' and v.get('dk') == 'local':
                                ok, at, what = ownership(ctx, f, c, v['name'], 'out', cg, esc, fal)
                                n += 1
                                ctx.ob('R17.4', '%s:%s:released-on-rejection' % (fname, v['name']),
                                       ok, f.loc(at) if at is not None else f.loc(c),
                                       '`%s` is released on every rejecting path' % v['name'] if ok
                                       else '`%s` %s' % (v['name'], what))
        for c in f.calls():
            if c.get('callee') in allocs or c.get('callee') == 'fopen':
                from .C16 import _holder
                h = _holder(f, c)
                if h[0] == 'lvalue' and h[3]:
                    ok, at, what = ownership(ctx, f, h[2], h[1], 'ptr', cg, esc, fal)
                    n += 1
                    ctx.ob('R17.4', '%s:%s:released-on-rejection' % (fname, h[1]), ok,
                           f.loc(at) if at is not None else f.loc(c),
                           '`%s` is released on every path' % h[1] if ok else '`%s` %s' % (h[1], what))
    ctx.count('loader_owning_locals', n)


FIXTURES = {
    'R17.1': {'src': 'C17/load.c', 'run': r17_1, 'expect': 'read#1'},
    'R17.2': {'src': 'C17/load.c', 'run': r17_2, 'expect': 'reloc_ref.buffer_id:array-index'},
    'R17.3': {'src': 'C17/load.c', 'run': r17_3, 'expect': 'relocation-list:delimited'},
}
# R17.8's fixture is registered below its definition


def r17_6(ctx):
    """the section indices the loader uses exist: the file declares how many buffers
    the arena has, and every constant section index used on a loaded arena is
    dominated by a test that the arena has more buffers than that"""
    from .C14 import canon
    from .. import paths
    prog = ctx.prog
    n = 0
    for fname in ('yr_rules_from_arena', 'yr_rules_load_stream'):
        f = prog.fn(fname, 'libyara/rules.c')
        if f is None:
            continue
        uses = []
        for c in f.calls():
            if c.get('callee') in ('yr_arena_get_ptr', 'yr_arena_get_current_offset'):
                a = f.call_args(c)
                k = cu.const_of(cu.strip_casts(f, a[1]))
                if k is not None:
                    uses.append((c, canon(f, a[0]), k))
            else:
                # a static helper that indexes sections of an arena it is handed: its uses
                # happen at this call, on the arena passed here
                h = f.tu.functions.get(c.get('callee') or '')
                if h is None or not getattr(h, 'static', False):
                    continue
                pn = [p_['name'] for p_ in h.params]
                for hc in h.calls():
                    if hc.get('callee') in ('yr_arena_get_ptr', 'yr_arena_get_current_offset'):
                        ha = h.call_args(hc)
                        k = cu.const_of(cu.strip_casts(h, ha[1]))
                        a0 = cu.strip_casts(h, ha[0])
                        if k is not None and a0 is not None and a0['k'] == 'ref' and a0['name'] in pn:
                            j = pn.index(a0['name'])
                            args = f.call_args(c)
                            if j < len(args):
                                uses.append((c, canon(f, args[j]), k))
        if not uses:
            continue
        ids = {u[0]['i']: u for u in uses}
        low = {}

        def step(x, facts):
            if x['k'] == 'ret':
                return None
            return facts

        def edge(b, term, cond, idx, succ, facts):
            pol = paths.branch_polarity(f, term, idx)
            if pol is None or cond is None:
                return facts
            c, p2 = paths.normalise_cond(f, cond, pol)
            if c is None or c['k'] != 'bin' or c['op'] not in ('<', '<=', '>', '>=', '!=', '=='):
                return facts
            l = canon(f, f.kid(c, 0))
            k = cu.const_of(cu.strip_casts(f, f.kid(c, 1)))
            cop = c['op']
            if k is None and cu.const_of(cu.strip_casts(f, f.kid(c, 0))) is not None:
                # the constant on the left: K > n  is  n < K
                l = canon(f, f.kid(c, 1))
                k = cu.const_of(cu.strip_casts(f, f.kid(c, 0)))
                cop = {'<': '>', '<=': '>=', '>': '<', '>=': '<=', '!=': '!=', '==': '=='}[cop]
            if not l.endswith('->num_buffers') or k is None:
                return facts
            op = cop if p2 else {'<': '>=', '<=': '>', '>': '<=', '>=': '<', '!=': '==', '==': '!='}[cop]
            ge = None
            if op == '>=':
                ge = k
            elif op == '>':
                ge = k + 1
            elif op == '==':
                ge = k
            if ge is None:
                return facts
            return frozenset(facts) | {('ge', l[:-len('->num_buffers')], ge)}

        def obs(x, facts):
            if x['i'] in ids:
                c, arena, k = ids[x['i']]
                best = max([y[2] for y in facts if y[0] == 'ge' and y[1] == arena] or [0])
                low[x['i']] = best
        paths.must_flow(f, set(), step, edge, obs)
        need = max(u[2] for u in uses) + 1
        got = min(low.get(u[0]['i'], 0) for u in uses)
        n += 1
        ctx.ob('R17.6', '%s:section-indices-exist' % fname, got >= need, f.loc(uses[0][0]),
               '%d constant section indices (up to %d) are used only after num_buffers >= %d was '
               'established' % (len(uses), need - 1, got) if got >= need else
               '%s uses section index %d of a loaded arena without having tested that the arena has more '
               'than %d buffers (established: num_buffers >= %d): a file whose header declares fewer '
               'sections makes yr_arena_get_ptr() fail its assertion (or read a buffer slot that does '
               'not exist)' % (fname, need - 1, need - 1, got))
    ctx.count('loader_functions_indexing_sections', n)


# ---------------------------------------------------------------- R17.8

def _fields_read(g, fam, name, decl, depth=0):
    """fields of record variable `name` (declaration `decl`, -1 for a parameter) that
    function g reads: member reads rooted at the variable, and what family helpers
    read through the parameter the variable (or its address) is handed to"""
    out = {}
    for n in g.all_nodes():
        if n['k'] != 'member':
            continue
        root, path = cu.member_path(g, n)
        if root is None or root['k'] != 'ref' or root['name'] != name:
            continue
        d = -1 if root.get('dk') == 'param' else (cu.decl_of(g, root) or {}).get('i', -2)
        if d != decl:
            continue
        flds = [x for x in path if not x.startswith('[') and x != '*']
        if not flds:
            continue
        par = g.parent(n)
        if par is not None and par['k'] == 'bin' and par['op'] == '=' and g.kid(par, 0) is n:
            continue            # a store into the field, not a read
        out.setdefault(flds[0], n)
    byname = {h.name: h for h in fam}
    for c in g.calls():
        cal = c.get('callee') or ''
        h = byname.get(cal)
        if h is g:
            continue
        for i, a in enumerate(g.call_args(c)):
            a = cu.strip_casts(g, a)
            if a is not None and a['k'] == 'un' and a['op'] == '&':
                a = cu.strip_casts(g, g.kid(a, 0))
            if a is None or a['k'] != 'ref' or a['name'] != name:
                continue
            d = -1 if a.get('dk') == 'param' else (cu.decl_of(g, a) or {}).get('i', -2)
            if d != decl:
                continue
            if h is not None:
                if depth < 3 and i < len(h.params):
                    for fl, n in _fields_read(h, fam, h.params[i]['name'], -1, depth + 1).items():
                        out.setdefault(fl, n)
            elif not (i == 0 and cal in ('yr_stream_read', 'memcpy', 'memset')):
                out.setdefault('*', c)      # handed to a function outside the family: may read any field
    return out


def r17_8(ctx):
    """every field of every record the loader reads from the file is consulted: a
    field the writer records and the loader never looks at is redundancy that is not
    checked (the buffer table's offsets against its sizes), so a damaged sibling field
    goes unnoticed"""
    fam = loader_family(ctx)
    fills = _fill_summary(fam)
    n = 0
    for g in fam:
        an = _LoaderTaint(ctx, g, fam, fills, {'rec': {}, 'sc': {}})
        an.find_sources()
        types = {l['name']: l for l in g.locals}
        nth = {}
        for (name, decl) in sorted(an.rec, key=lambda x: ((g.node(x[1]) or {}).get('l', 0) if x[1] >= 0 else 0, x[1])):
            if decl < 0:
                continue        # a parameter: the record lives in the caller
            l = types.get(name)
            rec = None
            if l is not None:
                rec = l.get('prec') or l['type'].split('[')[0].strip()
            r = ctx.prog.records.get(rec or '')
            if r is None or r.get('union'):
                continue
            got = _fields_read(g, fam, name, decl)
            nth[rec] = nth.get(rec, 0) + 1
            tag = rec if nth[rec] == 1 else '%s#%d' % (rec, nth[rec])
            for fld in r['fields']:
                n += 1
                ok = fld['name'] in got or '*' in got
                ctx.ob('R17.8', '%s:%s.%s:consulted' % (g.name, tag, fld['name']), ok,
                       '%s:%s' % (g.file, g.line) if not ok else g.loc(got.get(fld['name'], got.get('*'))),
                       '%s.%s, read from the file, is consulted by the loader' % (name, fld['name']) if ok else
                       'the loader fills %s (%s) from the file and never looks at .%s: what the writer '
                       'recorded there is not checked against the rest of the file, so a damaged '
                       'sibling field is not detected' % (name, rec, fld['name']))
    return n


FIXTURES['R17.8'] = {'src': 'C17/load.c', 'run': r17_8, 'expect': 'YR_HDR.version:consulted'}

LOAD_API = ('yr_rules_load_stream', 'yr_rules_load', 'yr_arena_load_stream', 'yr_rules_from_arena')


def r17_7(ctx):
    """the loader's verdict reaches whoever asked: at every call of a loading function,
    in the library and in the command-line tools, the result is returned or tested
    before the variable holding it is assigned again"""
    n = 0
    for f in ctx.prog.fns():
        if not (f.file.startswith('libyara/') or f.file.startswith('cli/') or ctx.fixture):
            continue
        occ = {}
        for c in f.calls():
            if c.get('callee') not in LOAD_API:
                continue
            n += 1
            occ[c['callee']] = occ.get(c['callee'], 0) + 1
            ok, at = paths.error_not_lost(f, c)
            ctx.ob('R17.7', '%s:%s%s:verdict-not-lost' % (
                f.name, c['callee'], '#%d' % occ[c['callee']] if occ[c['callee']] > 1 else ''),
                ok, f.loc(at if at is not None else c),
                'the result of %s is returned or tested before anything replaces it' % c['callee'] if ok else
                'the result of %s is overwritten (or dropped) here before it was tested: a rejected '
                'file is treated as loaded' % c['callee'])
    ctx.count('loader_call_sites', n)


def run(ctx):
    r17_1(ctx)
    ctx.floor('R17.1', 3)
    r17_2(ctx)
    ctx.floor('R17.2', 6)
    r17_3(ctx)
    r17_4(ctx)
    ctx.floor('R17.4', 3)
    # R17.5 = C16/R16.7 on the loader: a value looked up in the loaded image is tested before it is used
    from .C16 import r16_7
    r16_7(ctx, only=(LOADER, 'yr_rules_load_stream', 'yr_rules_load', 'yr_rules_from_arena'), rule='R17.5')
    ctx.floor('R17.5', 2)
    r17_6(ctx)
    ctx.floor('R17.6', 1)
    r17_7(ctx)
    ctx.floor('R17.7', 4)
    r17_8(ctx)
    ctx.floor('R17.8', 7)

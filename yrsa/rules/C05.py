"""C05 — a rule's result does not depend on what else is compiled with it.

Whether two arbitrary rule sets interfere through the shared automaton is a
question about run-time data and is NOT decided here (DESIGN.md §4 C05).
Decided are the structural clauses on which the separation of rules and
namespaces at compile time rests; each is a necessary condition of C05
(breaking it makes some rule's verdict depend on unrelated rules):

  R5.1 dense unique indices.  The per-scan bitmaps and match arrays are
       indexed by rule, string and namespace index and sized by the three
       counts the compiler stores in the summary.  For each of the three
       tables: every function that allocates an entry increments the table's
       counter exactly once on every path from the allocation to a success
       return, an `idx` field of the new entry is assigned from that counter
       before the increment, and nothing else writes the counter (apart from
       the zeroing in yr_compiler_create).  Two entries can then never share
       an index.
  R5.2 namespace-qualified rule sets.  A loop that walks the table of all
       rules compiled so far (every namespace) and selects rules by
       identifier — `N of (prefix*)` — may act on a visited rule only on a
       path that compared *that rule's* namespace with the current one.
       Looking the visited rule's identifier up under the current namespace
       is not such a test: it finds the current namespace's rule of that name
       once per same-named rule of every other namespace.
  R5.3 key spaces.  Every insertion into and every lookup in the compiler's
       rule table and wildcard table passes the current namespace's name as
       the key's namespace part (never NULL), and the object table is read
       with exactly the namespace kinds it is written with (NULL for
       externals, the namespace's name for imports).
"""
from .. import cfgutil as cu
from .. import paths
from .C14 import canon

LEVEL = 'other'
EXPLANATION = (
    'Counter/allocation pairing and index provenance for the rule, string and '
    'namespace tables (path analysis from each struct allocation to the success '
    'returns); a must-pass-through rule on loops over the rules table (the visited '
    'rule\'s namespace is compared before the rule is acted on); writer/reader '
    'agreement of the namespace part of the keys of the compiler\'s hash tables.')
ASSUMPTIONS = ['table <-> counter pairing is read from the summary assignments in '
               '_yr_compiler_compile_rules (num_rules, num_strings, num_namespaces) and the '
               'YR_<X>_TABLE naming of the arena buffers']

COMPILE_TUS = ('libyara/parser.c', 'libyara/compiler.c', 'libyara/grammar.c', 'libyara/lexer.c')
TABLES = {'num_rules': 'YR_RULES_TABLE', 'num_strings': 'YR_STRINGS_TABLE',
          'num_namespaces': 'YR_NAMESPACES_TABLE'}


def _compile_fns(ctx):
    for f in ctx.prog.fns():
        if ctx.fixture or f.file in COMPILE_TUS or f.file == 'libyara/grammar.y' or f.file == 'libyara/lexer.l':
            yield f


def _is_inc(f, n, want):
    """n increments the lvalue whose canonical text is `want` by one"""
    if n['k'] == 'un' and n['op'] in ('++', 'post++'):
        return canon(f, f.kid(n, 0)) == want
    if n['k'] == 'bin' and n['op'] == '+=':
        return canon(f, f.kid(n, 0)) == want and cu.const_of(cu.strip_casts(f, f.kid(n, 1))) == 1
    if n['k'] == 'bin' and n['op'] == '=':
        if canon(f, f.kid(n, 0)) != want:
            return False
        r = cu.strip_casts(f, f.kid(n, 1))
        return r is not None and r['k'] == 'bin' and r['op'] == '+' and \
            canon(f, f.kid(r, 0)) == want and cu.const_of(cu.strip_casts(f, f.kid(r, 1))) == 1
    return False


def _writes(f, n, want):
    if n['k'] == 'bin' and n['op'].endswith('=') and n['op'] not in ('==', '!=', '<=', '>='):
        return canon(f, f.kid(n, 0)) == want
    if n['k'] == 'un' and n['op'] in ('++', 'post++', '--', 'post--'):
        return canon(f, f.kid(n, 0)) == want
    return False


def counters(ctx):
    """{summary field: (counter field name, canonical text, where)} from the assignments
    `summary->num_X = compiler-><counter>`"""
    out = {}
    for f in _compile_fns(ctx):
        for n in f.all_nodes():
            if n['k'] == 'bin' and n['op'] == '=':
                l = cu.strip_casts(f, f.kid(n, 0))
                r = cu.strip_casts(f, f.kid(n, 1))
                if l is not None and l['k'] == 'member' and l['fld'] in TABLES and \
                        r is not None and r['k'] == 'member':
                    out[l['fld']] = (r['fld'], canon(f, r), f.loc(n))
    return out


def r5_1(ctx):
    prog = ctx.prog
    cs = counters(ctx)
    ctx.require(len(cs) == 3 or ctx.fixture, 'summary counts not found (%s)' % sorted(cs))
    for sfield, (cfield, ctext, where) in sorted(cs.items()):
        tid = prog.macro_value(TABLES[sfield])
        ctx.require(tid is not None, '%s not evaluable' % TABLES[sfield])
        allocs = []
        for f in _compile_fns(ctx):
            for c in f.calls():
                if c.get('callee') == 'yr_arena_allocate_struct':
                    a = f.call_args(c)
                    if len(a) > 1 and cu.const_of(cu.strip_casts(f, a[1])) == tid:
                        allocs.append((f, c))
        ctx.require(allocs or ctx.fixture, 'no allocation of an entry of %s found' % TABLES[sfield])
        for f, c in allocs:
            # the counter as this function spells it: a member `cfield` of the compiler
            want = None
            for n in f.all_nodes():
                if n['k'] == 'member' and n['fld'] == cfield:
                    want = canon(f, n)
                    break
            bad_ret = []
            bad_idx = []
            idx_seen = [0]
            nb = f.block_of(c)

            def count(facts):
                return max([x[1] for x in facts if isinstance(x, tuple) and x[0] == 'inc'] or [0])

            rvars = set()
            for n in f.all_nodes():
                if n['k'] == 'ret' and n.get('c'):
                    e = cu.strip_casts(f, f.kid(n, 0))
                    if e is not None and e['k'] == 'ref':
                        rvars.add(e['name'])
            ct = paths.CondTracker(f, extra=sorted(rvars))

            def edge(b, term, cond, idx, succ, facts, ct=ct):
                return ct.on_edge(term, cond, idx, facts)

            def step(n, facts, f=f, want=want, ct=ct):
                facts = ct.on_step(n, facts)
                if want is not None and _is_inc(f, n, want):
                    k = count(facts)
                    return frozenset(x for x in facts if not (isinstance(x, tuple) and x[0] == 'inc')) | \
                        {('inc', min(k + 1, 3))}
                if n['k'] == 'bin' and n['op'] == '=':
                    l = cu.strip_casts(f, f.kid(n, 0))
                    if l is not None and l['k'] == 'member' and l['fld'] == 'idx' and l.get('arrow'):
                        idx_seen[0] += 1
                        if want is None or canon(f, f.kid(n, 1)) != want or count(facts) != 0:
                            bad_idx.append(n)
                if n['k'] == 'ret':
                    if any(m.startswith(('FAIL_ON_', 'GOTO_EXIT_ON_')) for m in f.macros(n)):
                        return None
                    v = cu.const_of(cu.strip_casts(f, f.kid(n, 0))) if n.get('c') else 0
                    e = cu.strip_casts(f, f.kid(n, 0)) if n.get('c') else None
                    if v is None and e is not None and e['k'] == 'ref' and any(
                            isinstance(x, tuple) and len(x) == 3 and x[1] == e['name'] and
                            ((x[0] == 'ne' and x[2] == 0) or (x[0] == 'eq' and x[2] != 0)) for x in facts):
                        return None         # `return error;` where error was found non-zero: a failure
                    if v in (0, None) and count(facts) != 1:
                        bad_ret.append((n, count(facts)))
                    return None
                return facts
            try:
                paths.explore(f, set(), step, edge, start_block=nb[0], start_index=nb[1] + 1, max_states=2048)
            except paths.Budget as e:
                ctx.require(False, str(e))
            ok = not bad_ret
            ctx.ob('R5.1', '%s:%s:one-increment-per-entry' % (f.name, cfield), ok,
                   f.loc(bad_ret[0][0]) if bad_ret else f.loc(c),
                   'every path from the allocation of a %s entry to a success return increments %s '
                   'exactly once' % (TABLES[sfield], cfield) if ok else
                   'a path from the allocation of a %s entry reaches this success return with %s '
                   'incremented %d times: the count stored in the summary (and the indices derived '
                   'from it) no longer agree with the table' % (TABLES[sfield], cfield, bad_ret[0][1]))
            if idx_seen[0]:
                ok = not bad_idx
                ctx.ob('R5.1', '%s:idx-from-%s' % (f.name, cfield), ok,
                       f.loc(bad_idx[0]) if bad_idx else f.loc(c),
                       'the new entry\'s idx is the value of %s before the increment' % cfield if ok else
                       'the new entry\'s idx is assigned `%s`, not the entry counter %s (before its '
                       'increment): two entries can share an index, and the per-scan bitmap indexed '
                       'by it then couples them' % (f.show(f.kid(bad_idx[0], 1))[:50], cfield))
        # nobody else writes the counter
        others = []
        owners = set(f.name for f, c in allocs)
        for f in prog.fns():
            if not (f.file.startswith('libyara/') or ctx.fixture):
                continue
            for n in f.all_nodes():
                if n['k'] in ('bin', 'un'):
                    l = cu.strip_casts(f, f.kid(n, 0))
                    if l is not None and l['k'] == 'member' and l['fld'] == cfield and \
                            l.get('rec') in ('YR_COMPILER', '_YR_COMPILER') and _writes(f, n, canon(f, l)):
                        zero = n['k'] == 'bin' and n['op'] == '=' and \
                            cu.const_of(cu.strip_casts(f, f.kid(n, 1))) == 0
                        if f.name in owners or zero:
                            continue
                        others.append((f, n))
        ctx.ob('R5.1', '%s:written-only-by-allocators' % cfield, not others,
               others[0][0].loc(others[0][1]) if others else where,
               '%s is written only where an entry is allocated (and zeroed at creation)' % cfield
               if not others else
               '%s is also written by %s: the counter no longer counts the entries of %s' % (
                   cfield, others[0][0].name, TABLES[sfield]))


def r5_2(ctx):
    n_loops = 0
    for f in _compile_fns(ctx):
        for loop in f.all_nodes():
            if loop['k'] not in ('for', 'while', 'do'):
                continue
            # a YR_RULE* cursor stepped in the loop, whose identifier is compared
            stepped = set()
            for x in f.walk(loop):
                if x['k'] == 'un' and x['op'] in ('++', 'post++') or (
                        x['k'] == 'bin' and x['op'] in ('+=',)):
                    l = cu.strip_casts(f, f.kid(x, 0))
                    if l is not None and l['k'] == 'ref' and (l.get('t') or '').replace('const ', '') in (
                            'YR_RULE *', 'struct YR_RULE *'):
                        stepped.add(l['name'])
            if not stepped:
                continue
            R = None
            for x in f.walk(loop):
                if x['k'] == 'call' and x.get('callee') in ('strcmp', 'strncmp', 'strcasecmp', 'memcmp'):
                    for a in f.call_args(x):
                        for m in f.walk(a):
                            if m['k'] == 'member' and m['fld'] == 'identifier':
                                root, path = cu.member_path(f, m)
                                if root is not None and root['k'] == 'ref' and root['name'] in stepped:
                                    R = root['name']
            if R is None:
                continue
            if any(a['k'] in ('for', 'while', 'do') and a is not loop and
                   any(y is loop for y in f.walk(a)) and False for a in f.ancestors(loop)):
                continue
            n_loops += 1
            effects = []
            for x in f.walk(loop):
                if x['k'] == 'call' and (x.get('callee') or '').startswith(('yr_parser_emit', 'yr_arena_write')):
                    effects.append(x)
            ids = set(x['i'] for x in effects)
            unq = []

            def mentions_ns(e, R=R):
                for m in f.walk(e):
                    if m['k'] == 'member' and m['fld'] == 'ns':
                        root, path = cu.member_path(f, m)
                        if root is not None and root['k'] == 'ref' and root['name'] == R:
                            return True
                return False

            def step(n, facts, R=R):
                if n['k'] in ('un', 'bin') and n.get('op') in ('++', 'post++', '+='):
                    l = cu.strip_casts(f, f.kid(n, 0))
                    if l is not None and l['k'] == 'ref' and l['name'] == R:
                        return frozenset(x for x in facts if x != 'nsq')
                return facts

            def edge(b, term, cond, idx, succ, facts):
                pol = paths.branch_polarity(f, term, idx)
                if pol is None or cond is None:
                    return facts
                c, p2 = paths.normalise_cond(f, cond, pol)
                while c is not None and c['k'] == 'paren':
                    c = cu.strip_casts(f, f.kid(c, 0))
                if c is not None and c['k'] == 'bin' and c['op'] in ('==', '!=') and mentions_ns(c):
                    if (c['op'] == '==') == p2:
                        return frozenset(facts) | {'nsq'}
                return facts

            def obs(n, facts):
                if n['i'] in ids and 'nsq' not in facts:
                    unq.append(n)
            paths.must_flow(f, set(), step, edge, obs)
            ctx.ob('R5.2', '%s:%s:namespace-compared-before-use' % (f.name, R), not unq,
                   f.loc(unq[0]) if unq else f.loc(loop),
                   'the loop over all compiled rules acts on a rule only after comparing that '
                   'rule\'s namespace' if not unq else
                   'the loop walks the rules of every namespace (cursor %s) and selects them by '
                   'identifier, but this emission is reached without %s->ns having been compared '
                   'with the current namespace: a same-named rule of another namespace changes '
                   'what the rule set contains' % (R, R))
    ctx.require(n_loops >= 1 or ctx.fixture, 'no loop over the rules table that selects by identifier')
    ctx.count('rule_table_walks', n_loops)


HT_WRITE = ('yr_hash_table_add', 'yr_hash_table_add_uint32', 'yr_hash_table_add_raw_key',
            'yr_hash_table_add_uint32_raw_key')
HT_READ = ('yr_hash_table_lookup', 'yr_hash_table_lookup_uint32', 'yr_hash_table_lookup_raw_key',
           'yr_hash_table_lookup_uint32_raw_key', 'yr_hash_table_iterate', 'yr_hash_table_remove',
           'yr_hash_table_remove_raw_key')
NS_ONLY = ('rules_table', 'wildcard_identifiers_table')


def r5_3(ctx):
    uses = {}
    for f in _compile_fns(ctx):
        for c in f.calls():
            cal = c.get('callee')
            if cal not in HT_WRITE and cal not in HT_READ:
                continue
            a = f.call_args(c)
            t = cu.strip_casts(f, a[0]) if a else None
            if t is None or t['k'] != 'member' or not t['fld'].endswith('_table'):
                continue
            nsarg = a[1] if cal == 'yr_hash_table_iterate' else (a[3] if 'raw_key' in cal and len(a) > 3
                                                                 else a[2] if len(a) > 2 else None)
            ns = cu.strip_casts(f, nsarg) if nsarg is not None else None
            if ns is not None and ns['k'] == 'ref' and ns.get('dk') == 'local':
                # a local that only ever holds a namespace's name
                defs = []
                for n_ in f.all_nodes():
                    if n_['k'] == 'decl' and n_.get('name') == ns['name'] and n_.get('c'):
                        defs.append(cu.strip_casts(f, f.kid(n_, 0)))
                    elif n_['k'] == 'bin' and n_['op'] == '=':
                        l_ = cu.strip_casts(f, f.kid(n_, 0))
                        if l_ is not None and l_['k'] == 'ref' and l_['name'] == ns['name']:
                            defs.append(cu.strip_casts(f, f.kid(n_, 1)))
                if defs and all(d is not None and d['k'] == 'member' and d['fld'] == 'name' for d in defs):
                    ns = defs[0]
            if ns is not None and cu.const_of(ns) == 0:
                kind = 'NULL'
            elif ns is not None and ns['k'] == 'member' and ns['fld'] == 'name':
                kind = 'ns->name'
            else:
                kind = 'other:' + (f.show(ns)[:20] if ns is not None else '?')
            uses.setdefault(t['fld'], []).append((f, c, 'w' if cal in HT_WRITE else 'r', kind))
    ctx.require(all(t in uses for t in NS_ONLY) or ctx.fixture, 'compiler tables not found: %s' % sorted(uses))
    for t, us in sorted(uses.items()):
        wk = set(k for f, c, rw, k in us if rw == 'w')
        rk = set(k for f, c, rw, k in us if rw == 'r')
        if t in NS_ONLY:
            for f, c, rw, k in us:
                ctx.ob('R5.3', '%s:%s@%s:%s:keyed-by-namespace' % (t, f.name, c.get('line', c.get('l')), rw),
                       k == 'ns->name', f.loc(c),
                       'the key\'s namespace part is the current namespace\'s name' if k == 'ns->name' else
                       '%s is %s with namespace part %s: rules of different namespaces share one key '
                       'space' % (t, 'written' if rw == 'w' else 'read', k))
        elif wk:
            bad = [(f, c, k) for f, c, rw, k in us if rw == 'r' and k not in wk]
            ctx.ob('R5.3', '%s:read-kinds-subset-of-written-kinds' % t, not bad,
                   bad[0][0].loc(bad[0][1]) if bad else us[0][0].loc(us[0][1]),
                   '%s is read with the namespace kinds it is written with (%s)' % (t, ', '.join(sorted(wk)))
                   if not bad else
                   '%s is read with namespace part %s but only written with %s' % (
                       t, bad[0][2], ', '.join(sorted(wk))))


FIXTURES = {
    'R5.1': {'src': 'C05/ns.c', 'run': r5_1, 'expect': 'set_namespace:idx-from-num_namespaces'},
    'R5.2': {'src': 'C05/ns.c', 'run': r5_2, 'expect': 'pushes_for_rules:rule:namespace-compared-before-use',
             'expect_ok': 'pushes_for_rules_ok:rule:namespace-compared-before-use'},
    'R5.3': {'src': 'C05/ns.c', 'run': r5_3, 'expect': 'rules_table:declare'},
}


def r5_4(ctx):
    """what is shared is identified by all of its bytes: a function that skips writing data
    into a pool because a table lookup found it (the string pool of the compiler) looks the
    data up, and records it, under the very (data, length) it writes.  A key that is a
    digest of the data makes two different literals of other rules - or of the same rule -
    share one copy: a rule then verifies its matches against another rule's text."""
    prog = ctx.prog
    n = 0
    for f in _compile_fns(ctx):
        writes = [c for c in f.calls() if c.get('callee') == 'yr_arena_write_data']
        lookups = [c for c in f.calls() if (c.get('callee') or '').startswith('yr_hash_table_lookup') and
                   'raw_key' in c['callee']]
        adds = [c for c in f.calls() if (c.get('callee') or '').startswith('yr_hash_table_add') and
                'raw_key' in c['callee']]
        if not (writes and lookups and adds):
            continue
        for w in writes:
            wa = f.call_args(w)
            if len(wa) < 4:
                continue
            content = (canon(f, wa[2]), canon(f, wa[3]))
            for kind, calls in (('lookup', lookups), ('insert', adds)):
                for k_, c in enumerate(calls):
                    a = f.call_args(c)
                    if len(a) < 3:
                        continue
                    n += 1
                    key = (canon(f, a[1]), canon(f, a[2]))
                    ok = key == content
                    ctx.ob('R5.4', '%s:%s#%d:keyed-by-the-data-written' % (f.name, kind, k_), ok, f.loc(c),
                           'the table is keyed by (%s, %s), the data that is written to the pool' % content if ok
                           else 'the pool write stores (%s, %s) but the dedup table is keyed by (%s, %s): two '
                                'different data items with the same key share one copy' % (content + key))
    return n


WIDTH = {'int': 32, 'unsigned int': 32, 'long': 64, 'unsigned long': 64, 'long long': 64,
         'unsigned long long': 64, 'uint64_t': 64, 'int64_t': 64, 'uint32_t': 32, 'int32_t': 32,
         'uint8_t': 32, 'uint16_t': 32, 'YR_BITMASK': 64}


def r5_5(ctx):
    """a bit selected as `1 << (i % M)` exists in the type the shift is computed in: M is at
    most the width of the shifted operand.  `1 << (input % 64)` with a plain int `1` is
    computed in 32 bits: inputs 32 apart share one bit of the 256-bit transition set, the
    subset test of the failure-link optimisation then drops a failure state that another
    rule's string needs."""
    prog = ctx.prog
    n = 0
    for f in prog.fns():
        if not (f.file.startswith('libyara/') or ctx.fixture) or 'tlshc' in f.file:
            continue
        k = 0
        for x in sorted(f.all_nodes(), key=lambda y: (y.get('l', 0), y['i'])):
            if x['k'] != 'bin' or x['op'] != '<<':
                continue
            l = cu.strip_casts(f, f.kid(x, 0))
            r = cu.strip_casts(f, f.kid(x, 1))
            if l is None or r is None or cu.const_of(l) is None or cu.const_of(r) is not None:
                continue
            M = None
            if r['k'] == 'bin' and r['op'] == '%':
                M = cu.const_of(cu.strip_casts(f, f.kid(r, 1)))
            elif r['k'] == 'bin' and r['op'] == '&':
                m_ = cu.const_of(cu.strip_casts(f, f.kid(r, 1)))
                M = m_ + 1 if m_ is not None else None
            if M is None:
                continue
            ty = (x.get('t') or '').replace('const ', '').strip()
            w = WIDTH.get(ty)
            if w is None:
                continue
            n += 1
            ok = M <= w
            ctx.ob('R5.5', '%s:bit#%d:modulus-fits-the-shifted-type' % (f.name, k), ok, f.loc(x),
                   'bit index modulo %d in a %d-bit shift' % (M, w) if ok else
                   '%s selects a bit modulo %d but is computed in %s (%d bits): indices %d apart share '
                   'a bit (and shifting an int by 32 or more is undefined)' % (
                       canon(f, x)[:50], M, ty, w, w))
            k += 1
    return n


FIXTURES['R5.4'] = {'src': 'C05/ns.c', 'run': r5_4, 'expect': 'store_data_bad:lookup#0',
                     'expect_ok': 'store_data_good:lookup#0'}


def run(ctx):
    r5_1(ctx)
    ctx.floor('R5.1', 8)
    r5_2(ctx)
    ctx.floor('R5.2', 1)
    r5_3(ctx)
    ctx.floor('R5.3', 6)
    r5_4(ctx)
    ctx.floor('R5.4', 2)
    r5_5(ctx)
    ctx.floor('R5.5', 20)

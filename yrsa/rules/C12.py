"""C12 — shortcuts and compile-time evaluation never change a verdict.

Decides (DESIGN.md §4 C12):
  R12.1 the constant folder in each primary_expression action applies the C
        operator that the VM handler of the emitted opcode applies;
  R12.2 every value guard of the VM handler (division by zero, INT64_MIN/-1,
        shift range) has a counterpart in the folder;
  R12.3 the compiler layer never reads a run-time object value (externals
        are re-definable after compilation);
  R12.4 shortcut flags (SINGLE_MATCH / FIXED_OFFSET) are cleared on every
        path that uses a string in a way the shortcut cannot serve, and are
        read in scan.c only together with their flag;
  R12.5 atom quality is used only to rank (thorough);
  R12.6 externals are looked up at run time in the scanner's own table.
"""
from .. import cfgutil as cu

USES_PARSERS = True
LEVEL = 'other'
EXPLANATION = (
    'Static sibling-agreement and layering analysis over clang AST/CFG facts: '
    'the constant folder in grammar actions is compared, operator by operator '
    'and guard by guard, with the VM handler of the opcode the same action '
    'emits; who-may-read rule for run-time object values in the compiler '
    'layer; must-clear rules for the string shortcut flags. Decides these '
    'structural clauses (each a necessary condition of C12), not verdict '
    'equality itself.')
ASSUMPTIONS = [
    'configuration analysed: Linux/x86-64 as configured in /repo (see DESIGN 2.1)',
    'operand correspondence r1<->$1, r2<->$3 follows from the emission order '
    'of the grammar (left operand is pushed first)',
    'R12.1/R12.2 compare operator and guard boundaries, not arithmetic results',
]

COMPILER_LAYER = ('libyara/grammar.c', 'libyara/parser.c', 'libyara/compiler.c',
                  'libyara/lexer.c', 'libyara/hex_grammar.c', 'libyara/hex_lexer.c',
                  'libyara/re_grammar.c', 'libyara/re_lexer.c', 'libyara/atoms.c',
                  'libyara/ahocorasick.c', 'libyara/re.c', 'libyara/base64.c')

ARITH_BIN = ('+', '-', '*', '/', '%', '&', '|', '^', '<<', '>>')
ARITH_UN = ('-', '~')


def yyparse(ctx):
    f = ctx.prog.fn('yara_yyparse', 'libyara/grammar.c')
    ctx.require(f is not None, 'anchor yara_yyparse (grammar.c) not found')
    return f


def action_groups(ctx, f):
    """grammar actions = case groups of the big `switch (yyn)`"""
    best = None
    for sw in cu.find_switches(f):
        c = cu.switch_cond(f, sw)
        if c is not None and c['k'] == 'ref' and c['name'] == 'yyn':
            g = cu.switch_groups(f, sw)
            if best is None or len(g) > len(best):
                best = g
    ctx.require(best is not None and (len(best) > 100 or ctx.fixture),
                'grammar action switch (yyn) not found in yara_yyparse')
    return best


def vm_groups(ctx):
    f = ctx.prog.fn('yr_execute_code', 'libyara/exec.c')
    ctx.require(f is not None, 'anchor yr_execute_code not found')
    from ..vmroles import vm_roles
    best = vm_roles(ctx.prog, f).groups
    ctx.require(best is not None and (len(best) > 60 or ctx.fixture),
                'VM dispatch switch (opcode) not found in yr_execute_code')
    by_val = {}
    for labels, stmts in best:
        for l in labels:
            if 'v' in l:
                by_val[l['v']] = (labels, stmts)
    return f, by_val


def _is_value_integer(fn, n, root_name):
    """n is <root>...value.integer ; returns the yyvsp index or 'yyval'"""
    root, path = cu.member_path(fn, n)
    if root is None or root['k'] != 'ref':
        return None
    if len(path) < 2 or path[-2:] != ['value', 'integer']:
        return None
    if root['name'] == 'yyval' and root_name == 'yyval':
        return 'yyval'
    if root['name'] == 'yyvsp' and root_name == 'yyvsp':
        for p in path:
            if p.startswith('[') and p != '[]':
                return int(p[1:-1])
    return None


def _operand_role(fn, n, local_roles):
    """which grammar operand does expression n denote: 'L' ($1), 'R' ($3/$2)"""
    n = cu.strip_casts(fn, n)
    if n is None:
        return None
    if n['k'] == 'ref' and n['name'] in local_roles:
        return local_roles[n['name']]
    idx = _is_value_integer(fn, n, 'yyvsp')
    if idx is None:
        return None
    return 'R' if idx == 0 else 'L'


SIGN_SENSITIVE = ('>>', '/', '%')


def _op_token(fn, binnode):
    """the operator, marked when it is applied to an operand explicitly converted to an
    unsigned type and the operator's result depends on signedness (an arithmetic shift
    right, a division and a remainder of negative values differ from the unsigned ones)"""
    op = binnode['op']
    if op not in SIGN_SENSITIVE:
        return op
    for k in (0, 1):
        x = fn.kid(binnode, k)
        while x is not None and x['k'] == 'cast':
            t = (x.get('t') or '')
            if 'unsigned' in t or t.startswith(('uint', 'size_t')):
                return op + ':unsigned'
            x = fn.kid(x, 0)
    return op


def _pop_roles(fn, nodes):
    """nodes: the handler's nodes in statement order.  {register: 'L'|'R'} for one VM handler: operands are pushed left to right, so the
    register popped first holds the right operand and the one popped second the left
    (a single pop is the only operand, 'L')"""
    order = []
    for n in (x for x in nodes if x['k'] == 'bin' and x['op'] == '=' and 'pop' in fn.macros(x)):
        l = cu.strip_casts(fn, fn.kid(n, 0))
        if l is not None and l['k'] == 'ref' and l['name'] not in order:
            order.append(l['name'])
    if len(order) == 1:
        return {order[0]: 'L'}
    if len(order) >= 2:
        return {order[0]: 'R', order[1]: 'L'}
    return {}


def _vm_role0(fn, n, roles=None):
    n = cu.strip_casts(fn, n)
    if n is None or n['k'] != 'member' or n['fld'] != 'i':
        return None
    b = fn.kid(n, 0)
    if b is None or b['k'] != 'ref':
        return None
    return (roles if roles is not None else {'r1': 'L', 'r2': 'R'}).get(b['name'])


REL_NORM = {'<': ('lt', 0), '>=': ('lt', 0), '>': ('lt', 1), '<=': ('lt', 1),
            '==': ('eq', 0), '!=': ('eq', 0)}


def _boundaries(fn, cond_nodes, role_of):
    """set of (role, kind, constant) partitions a set of conditions tests.
    x < c and x >= c test the same boundary; x > c is x >= c+1."""
    out = set()
    for c in cond_nodes:
        for n in fn.walk(c):
            if n['k'] != 'bin' or n['op'] not in REL_NORM:
                continue
            a, b = fn.kid(n, 0), fn.kid(n, 1)
            op = n['op']
            ra, rb = role_of(fn, a), role_of(fn, b)
            ca, cb = cu.const_of(cu.strip_casts(fn, a)), cu.const_of(cu.strip_casts(fn, b))
            if ra is not None and cb is not None:
                role, const = ra, cb
            elif rb is not None and ca is not None:
                role, const = rb, ca
                op = {'<': '>', '>': '<', '<=': '>=', '>=': '<='}.get(op, op)
            else:
                continue
            kind, adj = REL_NORM[op]
            # undefined tests (IS_UNDEFINED) are not value guards
            if kind == 'eq' and const in (0xFFFABADAFABADAFF, -1413863686200577 - 0):
                continue
            out.add((role, kind, const + adj))
    return out


def _if_conds(fn, stmts):
    for n in cu.group_nodes(fn, stmts):
        if n['k'] == 'if':
            c = fn.kid(n, 0)
            if c is not None:
                yield c
        elif n['k'] == 'cond':
            c = fn.kid(n, 0)
            if c is not None:
                yield c


def r12_1_and_2(ctx):
    prog = ctx.prog
    g = yyparse(ctx)
    groups = action_groups(ctx, g)
    vmf, vm = vm_groups(ctx)
    undef = prog.macro_value('YR_UNDEFINED')

    # operator string -> integer opcode: _yr_parser_operator_to_opcode evaluated on the
    # constant operator string and EXPRESSION_TYPE_INTEGER (constant propagation through
    # the function and whatever helpers it is built from)
    o2o = prog.fn('_yr_parser_operator_to_opcode', 'libyara/parser.c')
    ctx.require(o2o is not None, 'anchor _yr_parser_operator_to_opcode not found')
    t_int = prog.macro_value('EXPRESSION_TYPE_INTEGER')
    ctx.require((t_int is not None or ctx.fixture) and len(o2o.params) == 2,
                'operator map: signature / EXPRESSION_TYPE_INTEGER')
    from .. import peval
    _o2o_cache = {}

    def int_opcode(opstr):
        if opstr not in _o2o_cache:
            pn = [p['name'] for p in o2o.params]
            env = {pn[1]: t_int} if t_int is not None else {}
            for i in range(3):
                env['%s[%d]' % (pn[0], i)] = ord(opstr[i]) if i < len(opstr) else 0
            try:
                vals = peval.returns_under(o2o, env)
            except paths.Budget:
                vals = set([None])
            _o2o_cache[opstr] = list(vals)[0] if len(vals) == 1 else None
        return _o2o_cache[opstr]
    int_begin = prog.macro_value('OP_INT_BEGIN')
    ctx.require(int_begin is not None, 'macro OP_INT_BEGIN not evaluable')

    def vm_ops(opcode):
        if opcode not in vm:
            return None, None
        labels, stmts = vm[opcode]
        ops = set()
        roles = _pop_roles(vmf, [x for st in stmts for x in vmf.walk(st)])

        def _vm_role(fn, n, roles=roles):
            return _vm_role0(fn, n, roles)
        for n in cu.assignments(vmf, cu.group_nodes(vmf, stmts)):
            lhs = vmf.kid(n, 0)
            if n['op'] != '=':
                # `a OP= b` is `a = a OP b`
                if n['op'].endswith('=') and n['op'][:-1] in ARITH_BIN:
                    ra, rb = _vm_role(vmf, lhs), _vm_role(vmf, vmf.kid(n, 1))
                    tok = n['op'][:-1]
                    if tok in SIGN_SENSITIVE:
                        fake = dict(n)
                        fake['op'] = tok
                        tok = _op_token(vmf, fake)
                    if ra == 'L' and rb == 'R':
                        ops.add(tok)
                    elif ra and rb:
                        ops.add('swapped:' + n['op'][:-1])
                continue
            if _vm_role(vmf, lhs) is None:
                continue
            rhs = cu.strip_casts(vmf, vmf.kid(n, 1))
            if rhs is None:
                continue
            if rhs['k'] == 'bin' and rhs['op'] in ARITH_BIN:
                ra = _vm_role(vmf, vmf.kid(rhs, 0))
                rb = _vm_role(vmf, vmf.kid(rhs, 1))
                if ra == 'L' and rb == 'R':
                    ops.add(_op_token(vmf, rhs))
                elif ra and rb:
                    ops.add('swapped:' + rhs['op'])
            elif rhs['k'] == 'un' and rhs['op'] in ARITH_UN:
                if _vm_role(vmf, vmf.kid(rhs, 0)):
                    ops.add('u' + rhs['op'])
        guards = _boundaries(vmf, list(_if_conds(vmf, stmts)), _vm_role)
        return ops, guards

    n_inst = 0
    for labels, stmts in groups:
        nodes = list(cu.group_nodes(g, stmts))
        # fold assignments: yyval...value.integer = <cond ? UNDEF : a OP b>
        folds = []
        local_roles = {}
        for n in nodes:
            if n['k'] == 'decl' and n.get('c'):
                r = _operand_role(g, g.kid(n, 0), {})
                if r:
                    local_roles[n['name']] = r
        for n in cu.assignments(g, nodes):
            if n['op'] != '=':
                continue
            if _is_value_integer(g, g.kid(n, 0), 'yyval') != 'yyval':
                continue
            rhs = cu.strip_casts(g, g.kid(n, 1))
            if rhs is None or rhs['k'] != 'cond':
                continue
            arms = g.kids(rhs)[1:3]
            for a in arms:
                a = cu.strip_casts(g, a)
                if a is None or cu.const_of(a) is not None:
                    continue
                if a['k'] == 'bin' and a['op'] in ARITH_BIN:
                    ra = _operand_role(g, g.kid(a, 0), local_roles)
                    rb = _operand_role(g, g.kid(a, 1), local_roles)
                    if ra == 'L' and rb == 'R':
                        folds.append((_op_token(g, a), n))
                    elif ra and rb:
                        folds.append(('swapped:' + a['op'], n))
                elif a['k'] == 'un' and a['op'] in ARITH_UN:
                    if _operand_role(g, g.kid(a, 0), local_roles):
                        folds.append(('u' + a['op'], n))
        if not folds:
            continue
        # opcode emitted by this action
        opcodes = set()
        for n in nodes:
            if n['k'] != 'call':
                continue
            if n.get('callee') == 'yr_parser_emit':
                v = cu.const_of(g.call_args(n)[1])
                if v is not None:
                    opcodes.add(v)
            elif n.get('callee') == 'yr_parser_reduce_operation':
                a = g.call_args(n)[1]
                if a is not None and a['k'] == 'str' and a.get('str'):
                    s = a['str']
                    if s == '\\\\' or s == '\\x5c':
                        s = '\\'
                    oc_ = int_opcode(s)
                    if oc_:
                        opcodes.add(oc_)
        line = folds[0][1].get('l')
        where = '%s:%s' % (g.nfile(folds[0][1]), line)
        fold_ops = set(f[0] for f in folds)
        # choose the integer arithmetic opcode(s) among those emitted
        cand = []
        for oc in sorted(opcodes):
            vo, vg = vm_ops(oc)
            if vo:
                cand.append((oc, vo, vg))
        opname = '/'.join(sorted(fold_ops))
        key = 'fold:%s' % opname
        if not cand:
            ctx.ob('R12.1', key, False, where,
                   'folder applies %s but no emitted opcode with an integer '
                   'arithmetic VM handler was found (emitted: %s)' % (opname, sorted(opcodes)))
            continue
        n_inst += 1
        for oc, vo, vg in cand:
            name = next((k for k, v in prog.macros_with_prefix('OP_').items()
                         if v == oc and not k.endswith(('_BEGIN', '_END'))), str(oc))
            key = '%s:fold-vs-vm' % name
            ok = fold_ops == vo
            ctx.ob('R12.1', key, ok, where,
                   'compile-time folder applies {%s}; VM handler of %s applies {%s}' % (
                       ', '.join(sorted(fold_ops)), name, ', '.join(sorted(vo))),
                   {'action_line': line, 'opcode': oc})
            # R12.2: VM guards must have folder counterparts
            fg = _boundaries(g, list(_if_conds(g, stmts)),
                             lambda fn, n: _operand_role(fn, n, local_roles))
            for b in sorted(vg, key=str):
                ok2 = b in fg
                ctx.ob('R12.2', '%s:guard:%s:%s:%d' % (name, b[0], b[1], b[2]), ok2, where,
                       'VM handler of %s guards operand %s at %s %d; the folder %s' % (
                           name, b[0], '==' if b[1] == 'eq' else '<', b[2],
                           'has the same test' if ok2 else
                           'applies the operator to constants without it '
                           '(folder tests: %s)' % sorted(fg, key=str)),
                       {'action_line': line, 'opcode': oc})
    ctx.count('fold_actions', n_inst)


def r12_3(ctx):
    """who-may-read: YR_OBJECT value members in the compiler layer"""
    prog = ctx.prog
    n_fn = 0
    found = 0
    layer = [prog.tu(t) for t in COMPILER_LAYER if prog.tu(t) is not None]
    if ctx.fixture:
        layer = [t for t in prog.tus.values()]
    for tu in layer:
        tu_name = tu.name
        for f in tu.fn_list:
            if ctx.fixture and f.name != 'yara_yyparse':
                continue
            n_fn += 1
            for n in f.all_nodes():
                if n['k'] != 'member' or n['fld'] != 'value':
                    continue
                rec = n.get('rec', '')
                if not rec.startswith('YR_OBJECT'):
                    continue
                # reading or writing a run-time value at compile time
                found += 1
                p = f.parent(n)
                sub = p['fld'] if p is not None and p['k'] == 'member' else '?'
                ctx.ob('R12.3', '%s:%s:object-value.%s' % (
                    tu_name.split('/')[-1].replace('.c', ''), f.name, sub), False, f.loc(n),
                    'compiler-layer code accesses the run-time value of a YR_OBJECT '
                    '(%s); values of externals can be redefined after compilation, '
                    'so a compile-time copy freezes them' % f.show(p if p is not None else n))
    # discharged obligations: every compiler-layer function that handles
    # YR_OBJECT pointers without touching values
    for tu in layer:
        tu_name = tu.name
        for f in tu.fn_list:
            uses = False
            bad = False
            for n in f.all_nodes():
                if n['k'] == 'member' and n.get('rec', '').startswith('YR_OBJECT'):
                    uses = True
                    if n['fld'] == 'value':
                        bad = True
            if uses and not bad:
                ctx.ob('R12.3', '%s:%s:no-object-value' % (
                    tu_name.split('/')[-1].replace('.c', ''), f.name), True,
                    '%s:%s' % (f.file, f.line),
                    'handles YR_OBJECT without reading run-time values')
    ctx.require(n_fn > 150 or ctx.fixture, 'compiler layer: only %d functions seen' % n_fn)


def r12_6(ctx):
    vmf, vm = vm_groups(ctx)
    v = ctx.prog.macro_value('OP_OBJ_LOAD')
    ctx.require(v in vm, 'OP_OBJ_LOAD has no handler')
    labels, stmts = vm[v]
    ok = False
    where = '%s:%s' % (vmf.file, labels[0].get('l'))
    for n in cu.group_nodes(vmf, stmts):
        if n['k'] == 'call' and n.get('callee', '').startswith('yr_hash_table_lookup'):
            a0 = vmf.call_args(n)[0]
            if a0['k'] == 'member' and a0['fld'] == 'objects_table' and \
                    a0.get('rec') == 'YR_SCAN_CONTEXT':
                ok = True
    ctx.ob('R12.6', 'OP_OBJ_LOAD:looks-up-scanner-table', ok, where,
           'OP_OBJ_LOAD resolves identifiers in context->objects_table' if ok else
           'OP_OBJ_LOAD does not look identifiers up in the scanner-owned objects_table')
    # nothing on the scan path reads the rules-level table of externals
    for f in vmf.tu.fn_list:
        for n in f.all_nodes():
            if n['k'] == 'member' and n['fld'] in ('ext_vars_table', 'externals_list_head'):
                ctx.ob('R12.6', 'exec:%s:reads-%s' % (f.name, n['fld']), False, f.loc(n),
                       'rule evaluation reads the shared externals table instead of '
                       'the scanner-owned objects')
    # the grammar never pushes an object's value as a constant
    g = yyparse(ctx)
    for n in g.calls():
        if n.get('callee') == 'yr_parser_emit_push_const':
            arg = g.call_args(n)[1]
            bad = any(x['k'] == 'member' and x.get('rec', '').startswith('YR_OBJECT')
                      and x['fld'] == 'value' for x in g.walk(arg))
            ctx.ob('R12.6', 'grammar:push_const:%s@%s' % (
                g.show(arg)[:40], n.get('l')), not bad, g.loc(n),
                'constant pushed is not an object value' if not bad else
                'an object value is emitted as a constant')


def r12_7(ctx):
    """the "at least one string must match" pre-filter is raised under the same
    condition by every quantified-set action"""
    import re
    from .C14 import canon
    from .. import bison
    f = yyparse(ctx)
    groups = action_groups(ctx, f)
    text = ctx.prog.text('libyara/grammar.y')
    actions = bison.parse(text)[0] if text else []
    sites = []
    for labels, stmts in groups:
        nodes = list(cu.group_nodes(f, stmts))
        lines = [x.get('l') for x in nodes if x.get('l') and f.nfile(x).endswith('grammar.y')]
        act = None
        for a in actions:
            if lines and a.start_line <= min(lines) <= a.end_line:
                act = a
        for n in nodes:
            if n['k'] != 'if':
                continue
            ks = f.kids(n)
            if len(ks) < 3:
                continue

            def stores(arm):
                out = set()
                for x in f.walk(arm):
                    if x['k'] == 'bin' and x['op'] == '=':
                        l = cu.strip_casts(f, f.kid(x, 0))
                        if l is not None and l['k'] == 'member' and l['fld'] == 'count' and \
                                'required_strings' in f.show(l):
                            out.add(cu.const_of(cu.strip_casts(f, f.kid(x, 1))))
                return out
            if stores(ks[1]) == set([1]) and stores(ks[2]) == set([0]):
                c = canon(f, ks[0])
                slots = sorted(set(re.findall(r'yyvsp\[(-?\d+)\]', c)))
                if len(slots) != 1:
                    continue
                # only the family quantified by a for_expression ($j = yyvsp[j - n])
                if act is not None:
                    j = int(slots[0]) + act.nsyms_before
                    sym = act.symbols[j - 1] if 0 < j <= len(act.symbols) else None
                    if sym != 'for_expression':
                        continue
                norm = re.sub(r'yyvsp\[-?\d+\]', 'Q', c)
                # integer comparisons in one spelling: x >= K  ->  x > K-1,  x < K -> x <= K-1
                norm = re.sub(r' >= (\d+)\)', lambda m: ' > %d)' % (int(m.group(1)) - 1), norm)
                norm = re.sub(r' < (\d+)\)', lambda m: ' <= %d)' % (int(m.group(1)) - 1), norm)
                sites.append((n, norm))
    ctx.require(len(sites) >= 3 or ctx.fixture, 'only %d required-strings guards found' % len(sites))
    # a loop with a body (`for <q> of <set> : ( body )`, `for <q> i in .. : ( body )`) never
    # raises the pre-filter: its body can hold for a string that did not match (`# == 0`,
    # `not $`), so the rule must be evaluated even when none of its strings matched
    n_loops = 0
    for labels, stmts in groups:
        nodes = list(cu.group_nodes(f, stmts))
        lines = [x.get('l') for x in nodes if x.get('l') and f.nfile(x).endswith('grammar.y')]
        act = None
        for a in actions:
            if lines and a.start_line <= min(lines) <= a.end_line:
                act = a
        if act is None or '_FOR_' not in act.symbols:
            continue
        stores = []
        for x in nodes:
            if x['k'] == 'bin' and x['op'] == '=':
                l = cu.strip_casts(f, f.kid(x, 0))
                if l is not None and l['k'] == 'member' and l['fld'] == 'count' and \
                        'required_strings' in f.show(l) and 'yyval' in f.show(l):
                    stores.append(x)
        if not stores:
            continue
        n_loops += 1
        bad = [x for x in stores if cu.const_of(cu.strip_casts(f, f.kid(x, 1))) != 0]
        ctx.ob('R12.7', 'for-loop-action@%s:never-requires-strings' % '-'.join(
            str(s_) for s_ in act.symbols[:4]), not bad, f.loc(bad[0] if bad else stores[0]),
               'a loop with a body leaves required_strings.count at 0' if not bad else
               'the action of a loop with a body sets required_strings.count to something other than 0: '
               'a rule whose loop body holds without any match (`for all of them : ( # < 3 )`) is '
               'skipped when none of its strings matched')
    ctx.require(n_loops >= 1 or ctx.fixture, 'no for-loop action storing required_strings.count found')
    counts = {}
    for n, norm in sites:
        counts[norm] = counts.get(norm, 0) + 1
    major = max(counts, key=lambda k: counts[k]) if counts else None
    for i, (n, norm) in enumerate(sites):
        ok = norm == major
        ctx.ob('R12.7', 'required-strings-guard#%d:agrees-with-siblings' % i, ok, f.loc(n),
               'raised under the same condition as the other %d quantified-set actions' % (len(sites) - 1)
               if ok else
               'this action raises required_strings under %s while its %d siblings use %s: a rule is '
               'skipped (or evaluated) without its strings on a quantifier the siblings treat '
               'differently' % (norm[:120], counts[major], major[:160]))


def _fx(fn):
    return {'src': 'C12/fold.c', 'run': fn}


FIXTURES = {
    'R12.1': dict(_fx(r12_1_and_2), expect='OP_BITWISE_XOR:fold-vs-vm',
                  expect_ok='OP_BITWISE_OR:fold-vs-vm'),
    'R12.2': dict(_fx(r12_1_and_2), expect='OP_INT_DIV:guard:R:eq:-1',
                  expect_ok='OP_INT_DIV:guard:R:eq:0'),
    'R12.3': dict(_fx(r12_3), expect='yara_yyparse:object-value.i'),
    'R12.6': dict(_fx(r12_6), expect='push_const'),
}


def run(ctx):
    r12_1_and_2(ctx)
    ctx.floor('R12.1', 10)
    ctx.floor('R12.2', 6)
    r12_3(ctx)
    ctx.floor('R12.3', 2)
    r12_6(ctx)
    ctx.floor('R12.6', 5)
    r12_7(ctx)
    ctx.floor('R12.7', 3)
    from . import C12_flags
    C12_flags.run(ctx)

"""C15 — exceeding engine limits yields the documented error, not a crash or hang.

Decides (DESIGN.md §4 C15):
  R15.1 limit -> error table: each limit is enforced by a branch whose
        condition mentions the limit and whose taken arm raises its
        documented error code; narrowing stores of regexp code offsets are
        dominated by the matching INT16/INT32 range test;
  R15.2 bounded writes: every push on the VM value stack happens with enough
        proven margin (the `push` macro, and the iter_*_next functions whose
        `sp + k >= capacity` test must cover the pushes that follow on every
        path); every lex_buf byte written by the rule lexer is covered by a
        preceding lex_check_space_ok; every write into an array whose extent
        is a limit is dominated by a comparison that bounds the index;
        the three cross-function cases (mem[], args[], fiber->stack[]) are
        frozen table entries whose compile-time side is checked;
  R15.3 the timeout polls in the block scanner and in the VM are evaluated on
        every path from the loop header to the back edge.
Not decided: "returns within a bounded delay" (timing: one instruction or one
module call is unbounded between polls).
"""
from .. import cfgutil as cu
from .. import paths
from .C12 import yyparse, action_groups, vm_groups

USES_PARSERS = True
LEVEL = 'other'
EXPLANATION = (
    'Table-driven limit->error reachability, margin dataflow on stack pushes '
    'and lexer-buffer writes (proven free slots minus writes on every path), '
    'dominating-bound analysis on writes to limit-sized arrays, and a '
    'must-pass-through rule for the timeout polls, all over clang CFG facts.')
ASSUMPTIONS = [
    'counters compared with `== LIMIT` are incremented by one from below the limit',
    'mem[], args[] and fiber->stack[] are bounded by compile-time invariants stated in '
    'FROZEN_BOUNDS; only the compile-time side of those invariants is checked',
]

LIMIT_TABLE = [
    # (function, tu, text that must appear in the condition, error constant)
    ('yara_yyparse', 'libyara/grammar.c', 'YR_MAX_LOOP_NESTING', 'ERROR_LOOP_NESTING_LIMIT_EXCEEDED'),
    ('yara_yyparse', 'libyara/grammar.c', 'YR_MAX_LOOP_VARS', 'ERROR_SYNTAX_ERROR'),
    ('yara_yyparse', 'libyara/grammar.c', 'YR_MAX_FUNCTION_ARGS', 'ERROR_TOO_MANY_ARGUMENTS'),
    ('_yr_compiler_push_file_name', 'libyara/compiler.c', 'YR_MAX_INCLUDE_DEPTH', 'ERROR_INCLUDE_DEPTH_EXCEEDED'),
    ('_yr_emit_split', 'libyara/re.c', 'RE_MAX_SPLIT_ID', 'ERROR_REGULAR_EXPRESSION_TOO_COMPLEX'),
    ('_yr_re_fiber_create', 'libyara/re.c', 'RE_MAX_FIBERS', 'ERROR_TOO_MANY_RE_FIBERS'),
    ('_yr_scan_add_match_to_list', 'libyara/scan.c', 'YR_MAX_STRING_MATCHES', 'ERROR_TOO_MANY_MATCHES'),
    ('yr_parser_reduce_rule_declaration_phase_2', 'libyara/parser.c', ('config', 'YR_CONFIG_MAX_STRINGS_PER_RULE'),
     'ERROR_TOO_MANY_STRINGS'),
    ('yr_arena_load_stream', 'libyara/arena.c', 'YR_MAX_ARENA_BUFFERS', 'ERROR_INVALID_FILE'),
    ('iter_array_next', 'libyara/exec.c', 'capacity', 'ERROR_EXEC_STACK_OVERFLOW'),
    ('iter_dict_next', 'libyara/exec.c', 'capacity', 'ERROR_EXEC_STACK_OVERFLOW'),
    ('iter_int_range_next', 'libyara/exec.c', 'capacity', 'ERROR_EXEC_STACK_OVERFLOW'),
    ('iter_int_enum_next', 'libyara/exec.c', 'capacity', 'ERROR_EXEC_STACK_OVERFLOW'),
    ('iter_string_set_next', 'libyara/exec.c', 'capacity', 'ERROR_EXEC_STACK_OVERFLOW'),
    ('iter_text_string_set_next', 'libyara/exec.c', 'capacity', 'ERROR_EXEC_STACK_OVERFLOW'),
    ('yr_execute_code', 'libyara/exec.c', 'capacity', 'ERROR_EXEC_STACK_OVERFLOW'),
    ('yara_yylex', 'libyara/lexer.c', 'YR_MAX_... identifier', None),   # placeholder, see r15_1
]

FROZEN_BOUNDS = {
    'yr_execute_code:mem': 'mem[MEM_SIZE] is indexed by operands of OP_*_M; the compiler emits '
                           'var_frame + k with var_frame = loop_index * (YR_MAX_LOOP_VARS + '
                           'YR_INTERNAL_LOOP_VARS) and loop_index < YR_MAX_LOOP_NESTING (R15.1 row), '
                           'k < YR_MAX_LOOP_VARS + YR_INTERNAL_LOOP_VARS (checked: operand shapes)',
    'yr_execute_code:args': 'args[YR_MAX_FUNCTION_ARGS] is filled for strlen(args_fmt) arguments; '
                            'the grammar rejects an argument list of YR_MAX_FUNCTION_ARGS entries '
                            '(R15.1 row)',
    '_yr_re_fiber_sync:stack': 'fiber->stack[RE_MAX_STACK=1024] grows by one per nested counted '
                               'repeat being executed; every counted repeat that emits REPEAT_START '
                               'also emits its sub-expression a second time (epilog), so code size '
                               'at least doubles per level and is capped by the INT16/INT32 '
                               'range tests of R15.1: depth <= 31',
}

# counted-array idiom: a loop `i < X->vars_count` / `i <= compiler->loop_index`
# stays inside the array because the counter itself is bounded (its increments
# are obligations of their own below)
COUNTER_BOUND = {'vars_count': True, 'loop_index': False}

FROZEN_INDEX = {
    ('yara_yyparse', 'compiler->loop', 'compiler->loop_index'):
        'loop_index < YR_MAX_LOOP_NESTING is an invariant: its only increment is dominated by '
        'the nesting-limit test (obligation yara_yyparse:loop_index++:guarded)',
    ('yara_yyparse', 'loop_ctx->vars', 'loop_ctx->vars_count++'):
        'first loop variable: vars_count was reset to 0 by the loop prologue action '
        '(obligation yara_yyparse:vars_count-reset); later variables test vars_count == '
        'YR_MAX_LOOP_VARS first',
    ('_yr_re_fiber_sync', 'splits_executed', 'splits_executed_count'):
        'entries are distinct split ids (the store follows a search for the id) and ids are '
        '< RE_MAX_SPLIT_ID by the R15.1 row of _yr_emit_split, so at most RE_MAX_SPLIT_ID '
        'entries exist; the explicit test is compiled only under YR_PARANOID_MODE',
}

BOUNDED_ARRAYS = [
    # (function, array text as rendered, limit macro)
    ('yara_yyparse', 'compiler->loop', 'YR_MAX_LOOP_NESTING'),
    ('yara_yyparse', 'loop_ctx->vars', 'YR_MAX_LOOP_VARS'),
    ('_yr_compiler_push_file_name', 'compiler->file_name_stack', 'YR_MAX_INCLUDE_DEPTH'),
    ('_yr_re_fiber_sync', 'splits_executed', 'RE_MAX_SPLIT_ID'),
    ('yr_object_function_create', 'f->prototypes', 'YR_MAX_OVERLOADED_FUNCTIONS'),
]


def _err_in(fn, node, val):
    for x in fn.walk(node):
        if x['k'] in ('int', 'cast', 'ref') and cu.const_of(x) == val:
            p = fn.parent(x)
            while p is not None and p['k'] == 'cast':
                p = fn.parent(p)
            if p is not None and (p['k'] == 'ret' or (p['k'] == 'bin' and p['op'] == '=') or
                                  p['k'] == 'decl'):
                return True
    return False


def r15_1(ctx):
    prog = ctx.prog
    for fname, tu, text, err in LIMIT_TABLE:
        if err is None:
            continue
        f = prog.fn(fname, tu)
        if f is None:
            ctx.require(ctx.fixture, 'limit table: function %s not found' % fname)
            continue
        ev = prog.macro_value(err)
        ctx.require(ev is not None, 'error constant %s not evaluable' % err)
        hit = None
        hit_fn = f
        fam = cu.family(prog, f)
        # a configurable limit: the variable that receives the configuration value, and the
        # parameters of family helpers it is handed to
        tainted = {}
        if isinstance(text, tuple):
            kv = prog.macro_value(text[1])
            ctx.require(kv is not None, 'configuration key %s not evaluable' % text[1])
            for h in fam:
                for c in h.calls():
                    if (c.get('callee') or '').startswith('yr_get_configuration'):
                        a = h.call_args(c)
                        if len(a) > 1 and cu.const_of(cu.strip_casts(h, a[0])) == kv:
                            v = cu.strip_casts(h, a[1])
                            if v is not None and v['k'] == 'un' and v['op'] == '&':
                                v = cu.strip_casts(h, h.kid(v, 0))
                            if v is not None and v['k'] == 'ref':
                                tainted.setdefault(h.name, set()).add(v['name'])
            ctx.require(tainted or ctx.fixture, 'no read of configuration %s in %s' % (text[1], fname))
            byname = {h.name: h for h in fam}
            for _ in range(3):
                for h in fam:
                    for c in h.calls():
                        g = byname.get(c.get('callee') or '')
                        if g is None or g is h:
                            continue
                        for i, a in enumerate(h.call_args(c)):
                            a = cu.strip_casts(h, a)
                            if a is not None and a['k'] == 'ref' and a['name'] in tainted.get(h.name, ()) \
                                    and i < len(g.params):
                                tainted.setdefault(g.name, set()).add(g.params[i]['name'])
            text_s = text[1]
        else:
            text_s = text
        # the function itself, or a static helper the test was extracted into (whose
        # error the function propagates: helpers of the family are only reachable from it)
        for h in fam:
            for n in h.all_nodes():
                if n['k'] not in ('if',):
                    continue
                c = h.kid(n, 0)
                if c is None:
                    continue
                if isinstance(text, tuple):
                    if not any(x['k'] == 'ref' and x['name'] in tainted.get(h.name, ()) for x in h.walk(c)):
                        continue
                else:
                    txt = h.show_sym(c)
                    if text not in txt:
                        continue
                # the error is raised in the taken arm, or (result-accumulating
                # style) assigned there and propagated by the code that follows
                arms = h.kids(n)[1:3]
                if any(arm is not None and _err_in(h, arm, ev) for arm in arms):
                    hit, hit_fn = n, h
                    break
            if hit is not None:
                break
        ctx.ob('R15.1', '%s:%s->%s' % (fname, text_s, err), hit is not None,
               hit_fn.loc(hit) if hit is not None else '%s:%s' % (f.file, f.line),
               'a branch on %s raises %s' % (text_s, err) if hit is not None else
               'no branch whose condition mentions %s raises %s in %s: exceeding the limit no '
               'longer yields its documented error' % (text_s, err, fname))
    # identifier length and integer literal range in the rule lexer
    lx = prog.fn('yara_yylex', 'libyara/lexer.c')
    if lx is not None:
        esyn = prog.macro_value('ERROR_SYNTAX_ERROR')
        eovf = prog.macro_value('ERROR_INTEGER_OVERFLOW')
        idlen = False
        ovf = 0
        for n in lx.all_nodes():
            if n['k'] == 'if':
                c = lx.kid(n, 0)
                txt = lx.show(c) if c is not None else ''
                arm = lx.kid(n, 1)
                if 'strlen' in txt and ('128' in txt or 'YR_MAX' in lx.show_sym(c)) and arm is not None \
                        and _err_in(lx, arm, esyn):
                    idlen = True
                if arm is not None and _err_in(lx, arm, eovf):
                    ovf += 1
        ctx.ob('R15.1', 'yara_yylex:identifier-length->ERROR_SYNTAX_ERROR', idlen,
               '%s:%s' % (lx.file, lx.line),
               'over-long identifiers raise a syntax error' if idlen else
               'the identifier length test is gone')
        ctx.ob('R15.1', 'yara_yylex:integer-range->ERROR_INTEGER_OVERFLOW', ovf >= 3,
               '%s:%s' % (lx.file, lx.line),
               '%d integer-literal range tests raise ERROR_INTEGER_OVERFLOW' % ovf)
    # narrowing stores of regexp code offsets (in the emitter or in the static
    # helpers it calls: the computation may live in a helper as long as the
    # helper's error is consumed by the caller)
    for fname in ('_yr_re_emit',):
        root = prog.fn(fname, 'libyara/re.c')
        if root is None:
            continue
        etl = prog.macro_value('ERROR_REGULAR_EXPRESSION_TOO_LARGE')
        fam = cu.family(prog, root)
        found = []
        for f in fam:
            for n in f.all_nodes():
                if n['k'] == 'cast' and n.get('t') in ('int16_t', 'int32_t') \
                        and f.kid(n, 0) is not None and cu.strip_casts(f, f.kid(n, 0))['k'] == 'bin' \
                        and cu.strip_casts(f, f.kid(n, 0))['op'] == '-':
                    found.append((f, n))
        ctx.require(len(found) >= 1 or ctx.fixture, 'narrowing offset casts not found in ' + fname)
        occ = {}
        helpers = set()
        for f, cst in found:
            expr = f.show(cu.strip_casts(f, f.kid(cst, 0)))
            # backward reasoning by forward exploration from function entry is
            # expensive here; use the enclosing statement list: a preceding
            # sibling `if (<expr> REL INTxx_MIN/MAX) return TOO_LARGE`
            ok = False
            lim = 'INT16' if cst['t'] == 'int16_t' else 'INT32'
            child = cst
            for a in f.ancestors(cst):
                if a['k'] == 'compound':
                    for st in f.kids(a):
                        if st is child:
                            break
                        if st['k'] == 'if':
                            c = f.kid(st, 0)
                            if c is not None and expr in f.show(c) and lim in f.show_sym(c) and \
                                    _err_in(f, f.kid(st, 1), etl):
                                ok = True
                child = a
            if f is not root:
                helpers.add(f.name)
            i = occ.setdefault((f.name, expr), [0])
            i[0] += 1
            ctx.ob('R15.1', '%s:(%s)(%s)%s:range-checked' % (f.name, cst['t'], expr[:40],
                                                          '#%d' % i[0] if i[0] > 1 else ''),
                   ok, f.loc(cst),
                   'the %s store of %s is preceded by its %s range test -> '
                   'ERROR_REGULAR_EXPRESSION_TOO_LARGE' % (cst['t'], expr, lim) if ok else
                   'offset %s is narrowed to %s without a preceding %s range test: an oversized '
                   'regexp silently gets a wrapped jump offset' % (expr, cst['t'], lim))
        # a helper's ERROR_REGULAR_EXPRESSION_TOO_LARGE must reach the caller
        for f in fam:
            for n in f.all_nodes():
                if n['k'] == 'call' and n.get('callee') in helpers:
                    par = f.parent(n)
                    while par is not None and par['k'] in ('paren', 'cast') and par.get('t') != 'void':
                        par = f.parent(par)
                    dropped = par is None or par['k'] in ('compound', 'case', 'default', 'label') or \
                        (par['k'] == 'cast' and par.get('t') == 'void') or \
                        (par['k'] in ('if', 'while', 'for', 'do') and f.kid(par, 0) is not n
                         and n not in list(f.walk(f.kid(par, 0)) if f.kid(par, 0) is not None else []))
                    ctx.ob('R15.1', '%s:%s@%s:error-consumed' % (f.name, n['callee'], n.get('line')),
                           not dropped, f.loc(n),
                           'the range-checking helper\'s result is consumed' if not dropped else
                           'the result of %s (which carries ERROR_REGULAR_EXPRESSION_TOO_LARGE) is '
                           'discarded' % n['callee'])


def _search_loop(fn, arr_name, val_name):
    """a loop of fn that compares arr_name[..] with val_name for equality; returns the
    list of (comparison node, enclosing loop)"""
    out = []
    for n in fn.all_nodes():
        if n['k'] == 'bin' and n['op'] == '==':
            a, b = cu.strip_casts(fn, fn.kid(n, 0)), cu.strip_casts(fn, fn.kid(n, 1))
            for x, y in ((a, b), (b, a)):
                if x is not None and x['k'] == 'sub' and y is not None and y['k'] == 'ref' and \
                        y['name'] == val_name:
                    base = cu.strip_casts(fn, fn.kid(x, 0))
                    if base is not None and base['k'] == 'ref' and base['name'] == arr_name:
                        loops = [l for l in fn.ancestors(n) if l['k'] in ('for', 'while', 'do')]
                        if loops:
                            out.append((n, loops[0]))
    return out


def _recorded_only_when_absent(prog, fs):
    """the store that records a value in a local array happens only on the branch on
    which a search of that array for that value found nothing.  The search is a loop
    with an equality test in the function itself (setting a flag) or in a static helper
    that receives the array and the value.  Returns (ok, where, why-not)."""
    where = '%s:%s' % (fs.file, fs.line)
    arrays = set(l['name'] for l in fs.locals if l.get('extent'))
    stores = []
    for n in fs.all_nodes():
        if n['k'] == 'bin' and n['op'] == '=':
            l = cu.strip_casts(fs, fs.kid(n, 0))
            r = cu.strip_casts(fs, fs.kid(n, 1))
            if l is not None and l['k'] == 'sub' and r is not None and r['k'] == 'ref':
                base = cu.strip_casts(fs, fs.kid(l, 0))
                if base is not None and base['k'] == 'ref' and base['name'] in arrays:
                    stores.append((n, base['name'], r['name']))
    if not stores:
        return False, where, 'no recording store found'
    for st, arr, val in stores:
        verdict = None
        child = st
        for a in fs.ancestors(st):
            if a['k'] == 'if':
                ks = fs.kids(a)
                in_then = any(x is st for x in fs.walk(ks[1]))
                c, pol = paths.normalise_cond(fs, ks[0], in_then)
                while c is not None and c['k'] == 'paren':
                    c = cu.strip_casts(fs, fs.kid(c, 0))
                c = cu.strip_casts(fs, c) if c is not None else None
                # `x != 0` / `x == 0` / `x == false` are spellings of `x` / `!x`
                if c is not None and c['k'] == 'bin' and c['op'] in ('==', '!='):
                    l0, r0 = cu.strip_casts(fs, fs.kid(c, 0)), cu.strip_casts(fs, fs.kid(c, 1))
                    for x, y in ((l0, r0), (r0, l0)):
                        if y is not None and cu.const_of(y) == 0 and x is not None and \
                                x['k'] in ('ref', 'call'):
                            if c['op'] == '==':
                                pol = not pol
                            c = x
                            break
                found_means = None          # truth value of c that means "found"
                if c is not None and c['k'] == 'ref':
                    # a flag: set to non-zero under the equality test of a search loop
                    for cmpn, loop in _search_loop(fs, arr, val):
                        for x in fs.walk(loop):
                            if x['k'] == 'bin' and x['op'] == '=' and \
                                    fs.show(fs.kid(x, 0)) == c['name'] and \
                                    (cu.const_of(cu.strip_casts(fs, fs.kid(x, 1))) or 0) != 0 and \
                                    any(i['k'] == 'if' and any(y is cmpn for y in fs.walk(fs.kid(i, 0)))
                                        for i in fs.ancestors(x)):
                                found_means = True
                elif c is not None and c['k'] == 'call' and c.get('callee'):
                    h = fs.tu.functions.get(c['callee'])
                    args = fs.call_args(c)
                    if h is not None and getattr(h, 'static', False):
                        pa = pv = None
                        for i, x in enumerate(args):
                            x = cu.strip_casts(fs, x)
                            if x is not None and x['k'] == 'ref' and i < len(h.params):
                                if x['name'] == arr:
                                    pa = h.params[i]['name']
                                if x['name'] == val:
                                    pv = h.params[i]['name']
                        if pa and pv:
                            for cmpn, loop in _search_loop(h, pa, pv):
                                # returns non-zero under the test, zero after the loop
                                hit = any(x['k'] == 'ret' and x.get('c') and
                                          (cu.const_of(cu.strip_casts(h, h.kid(x, 0))) or 0) != 0 and
                                          any(i['k'] == 'if' and any(y is cmpn for y in h.walk(h.kid(i, 0)))
                                              for i in h.ancestors(x))
                                          for x in h.walk(loop))
                                miss = any(x['k'] == 'ret' and x.get('c') and
                                           cu.const_of(cu.strip_casts(h, h.kid(x, 0))) == 0 and
                                           not any(a2 is loop for a2 in h.ancestors(x))
                                           for x in h.all_nodes())
                                if hit and miss:
                                    found_means = True
                if found_means is not None:
                    verdict = (pol != found_means)
                    break
            child = a
        if verdict is None:
            return False, fs.loc(st), 'the store of %s into %s[] does not depend on a search' % (val, arr)
        if not verdict:
            return False, fs.loc(st), 'the store of %s into %s[] is on the branch where it was found' % (val, arr)
    return True, fs.loc(stores[0][0]), ''


# ---------------------------------------------------------------- R15.2
def _is_stack_push(f, n):
    """stack->items[stack->sp++] (.x) = v   or   stack.items[stack.sp++] = v"""
    if n['k'] != 'bin' or n['op'] != '=':
        return False
    l = cu.strip_casts(f, f.kid(n, 0))
    while l is not None and l['k'] == 'member':
        l = f.kid(l, 0)
    if l is None or l['k'] != 'sub':
        return False
    arr, idx = f.kid(l, 0), f.kid(l, 1)
    arr = cu.strip_casts(f, arr)
    idx = cu.strip_casts(f, idx)
    if arr is None or arr['k'] != 'member' or arr['fld'] != 'items':
        return False
    return idx is not None and idx['k'] == 'un' and idx['op'] == 'post++' and \
        'sp' in f.show(idx)


def stack_margin(ctx, f, key):
    """every push has proven free slots; returns list of bad push nodes"""
    bad = []
    n_push = [0]

    def step(n, facts):
        if _is_stack_push(f, n):
            n_push[0] += 1
            m = [x[1] for x in facts if isinstance(x, tuple) and x[0] == 'm']
            cur = m[0] if m else 0
            if cur < 1:
                bad.append(n)
                return facts
            return frozenset(x for x in facts if not (isinstance(x, tuple) and x[0] == 'm')) | {('m', cur - 1)}
        if n['k'] == 'un' and n['op'] in ('--', 'post--') and 'sp' in f.show(n):
            m = [x[1] for x in facts if isinstance(x, tuple) and x[0] == 'm']
            cur = m[0] if m else 0
            return frozenset(x for x in facts if not (isinstance(x, tuple) and x[0] == 'm')) | {('m', min(cur + 1, 8))}
        if n['k'] == 'ret':
            return None
        return facts

    def edge(b, term, cond, idx, succ, facts):
        pol = paths.branch_polarity(f, term, idx)
        if pol is None or cond is None:
            return facts
        c, pol = paths.normalise_cond(f, cond, pol)
        if c is None or c['k'] != 'bin' or c['op'] not in ('<', '>=', '<=', '>'):
            return facts
        a, bb = f.kid(c, 0), f.kid(c, 1)
        ta, tb = f.show(a), f.show(bb)
        if 'capacity' not in tb or 'sp' not in ta:
            return facts
        k = 0
        aa = cu.strip_casts(f, a)
        if aa is not None and aa['k'] == 'bin' and aa['op'] == '+':
            k = cu.const_of(cu.strip_casts(f, f.kid(aa, 1))) or 0
        free = None
        if c['op'] == '<' and pol:
            free = 1 if k == 0 else None         # sp + k < cap  =>  k+1 free
            free = k + 1
        elif c['op'] == '>=' and not pol:
            free = k + 1
        if free is not None:
            return frozenset(x for x in facts if not (isinstance(x, tuple) and x[0] == 'm')) | {('m', free)}
        return facts
    paths.explore(f, set(), step, edge, max_states=2048)
    return bad, n_push[0]


def _arr_matches(f, base, arr, N):
    """does expression `base` denote the array the table calls `arr`?  Member arrays are
    identified by their field name, local arrays by being a local array of the limit's
    extent (the spelling of the variable that holds them does not matter)"""
    base = cu.strip_casts(f, base)
    if base is None:
        return False
    if '->' in arr or '.' in arr:
        fld = arr.replace('->', '.').split('.')[-1]
        return base['k'] == 'member' and base['fld'] == fld
    if base['k'] != 'ref':
        return False
    if base['name'] == arr:
        return True
    ext = [l.get('extent') for l in f.locals if l['name'] == base['name']]
    return bool(ext) and ext[0] == N


def _norm_index(txt):
    """index designator with variable spellings removed: '->field' (+ '++') or '<local>'"""
    t = txt.strip()
    inc = t.endswith('++')
    core = t[:-2] if inc else t
    if '->' in core or '.' in core:
        return '->' + core.replace('->', '.').split('.')[-1] + ('++' if inc else '')
    return '<local>' + ('++' if inc else '')


def r15_2(ctx):
    prog = ctx.prog
    tu = prog.tu('libyara/exec.c')
    fns = [f for f in (tu.fn_list if tu else prog.fns())
           if f.name.startswith('iter_') and f.name.endswith('_next')]
    vm = prog.fn('yr_execute_code', 'libyara/exec.c')
    ctx.require((len(fns) >= 5 and vm is not None) or ctx.fixture, 'iterator next functions not found')
    for f in fns + ([vm] if vm is not None else []):
        try:
            bad, npush = stack_margin(ctx, f, f.name)
        except paths.Budget:
            ctx.require(False, 'R15.2: stack margin budget exceeded in ' + f.name)
        if npush == 0:
            continue
        ctx.ob('R15.2', '%s:stack-pushes-within-proven-margin' % f.name, not bad,
               f.loc(bad[0]) if bad else '%s:%s' % (f.file, f.line),
               'all %d push sites of %s are reached only with a proven free slot' % (npush, f.name)
               if not bad else
               '%s pushes on the value stack (%s) on a path where the preceding capacity test '
               'does not cover it: one slot past stack.capacity is written' % (
                   f.name, f.show(bad[0])[:50]))
    # lexer buffer
    lx = prog.fn('yara_yylex', 'libyara/lexer.c')
    if lx is not None:
        _lexbuf(ctx, lx)
    # limit-sized arrays
    for fname, arr, lim in BOUNDED_ARRAYS:
        f = prog.fn(fname)
        if f is None:
            ctx.require(ctx.fixture, 'bounded array table: %s not found' % fname)
            continue
        N = prog.macro_value(lim)
        writes = []
        for a in f.all_nodes():
            lhs = None
            if a['k'] == 'bin' and a['op'] in ('=', '+=', '|=', '&=', '-='):
                lhs = f.kid(a, 0)
            elif a['k'] == 'un' and a['op'] in ('++', '--', 'post++', 'post--'):
                lhs = f.kid(a, 0)
            x = lhs
            while x is not None and x['k'] in ('member', 'sub', 'cast'):
                if x['k'] == 'sub' and _arr_matches(f, f.kid(x, 0), arr, N):
                    writes.append((a, x))
                x = f.kid(x, 0)
        # also address-of (loop_ctx = &compiler->loop[idx]) used to write later
        for a in f.all_nodes():
            if a['k'] == 'un' and a['op'] == '&':
                x = cu.strip_casts(f, f.kid(a, 0))
                if x is not None and x['k'] == 'sub' and _arr_matches(f, f.kid(x, 0), arr, N):
                    writes.append((a, x))
        ctx.require(writes or ctx.fixture, 'no access to %s in %s' % (arr, fname))
        occ = 0
        for a, sub in writes:
            idx = cu.strip_casts(f, f.kid(sub, 1))
            c = cu.const_of(idx)
            occ += 1
            key = '%s:%s[%s]%s' % (fname, arr, _norm_index(f.show(idx)) if cu.const_of(idx) is None else f.show(idx)[:28], '')
            if c is not None:
                ctx.ob('R15.2', key, 0 <= c < N, f.loc(a), 'constant index %d < %s' % (c, lim))
                continue
            ok = _index_bounded(ctx, f, a, idx, N)
            fk = None
            for k3 in FROZEN_INDEX:
                if k3[0] == fname and k3[1] == arr and _norm_index(k3[2]) == _norm_index(f.show(idx)):
                    fk = k3
            if not ok and fk is not None:
                # the same index expression may occur guarded elsewhere; keep
                # the frozen entry as one obligation
                ctx.ob('R15.2', 'frozen:%s:%s[%s]' % fk, True, f.loc(a), FROZEN_INDEX[fk])
                continue
            ctx.ob('R15.2', key, ok, f.loc(a),
                   'index %s into %s[%s=%d] is bounded on every path by a dominating comparison'
                   % (f.show(idx), arr, lim, N) if ok else
                   '%s[%s] (extent %s=%d) is accessed on a path where no comparison bounds the '
                   'index below the extent' % (arr, f.show(idx), lim, N))
    # side conditions of the frozen index entries
    g0 = prog.fn('yara_yyparse', 'libyara/grammar.c') if not ctx.fixture else None
    if g0 is not None:
        Nn = prog.macro_value('YR_MAX_LOOP_NESTING')
        incs = [n for n in g0.all_nodes() if n['k'] == 'un' and n['op'] in ('post++', '++')
                and g0.show(g0.kid(n, 0)) == 'compiler->loop_index']
        ctx.require(incs, 'no increment of compiler->loop_index found')
        for j, inc in enumerate(incs):
            ok = _index_bounded(ctx, g0, inc, g0.kid(inc, 0), Nn - 1)
            ctx.ob('R15.2', 'yara_yyparse:loop_index++:guarded%s' % ('#%d' % (j + 1) if j else ''),
                   ok, g0.loc(inc),
                   'loop_index is incremented only after loop_index + 1 == YR_MAX_LOOP_NESTING '
                   'was excluded' if ok else
                   'compiler->loop_index is incremented on a path where the nesting limit was '
                   'not tested: compiler->loop[] and the VM\'s mem[] overflow')
        reset = any(n['k'] == 'bin' and n['op'] == '=' and g0.show(g0.kid(n, 0)).endswith('vars_count')
                    and cu.const_of(g0.kid(n, 1)) == 0 for n in g0.all_nodes())
        ctx.ob('R15.2', 'yara_yyparse:vars_count-reset', reset, 'libyara/grammar.y',
               'a loop prologue resets vars_count to 0' if reset else
               'no action resets vars_count: the first-variable store is no longer bounded')
    fs = prog.fn('_yr_re_fiber_sync', 'libyara/re.c') if not ctx.fixture else None
    if fs is not None:
        ok, where, why = _recorded_only_when_absent(prog, fs)
        ctx.ob('R15.2', '_yr_re_fiber_sync:splits_executed:distinct-entries', ok, where,
               'a split id is recorded only after a search did not find it' if ok else
               'split ids are recorded without the duplicate search (%s): the list is no longer '
               'bounded by the number of distinct ids' % why)
    # frozen cross-function bounds: check their compile-time side
    g = yyparse(ctx) if not ctx.fixture else None
    if g is not None:
        memops = [prog.macro_value(n) for n in ('OP_PUSH_M', 'OP_POP_M', 'OP_SET_M', 'OP_ADD_M',
                                                'OP_INCR_M', 'OP_CLEAR_M', 'OP_SWAPUNDEF')]
        bad = []
        n = 0
        for c in g.calls():
            if c.get('callee') != 'yr_parser_emit_with_arg':
                continue
            args = g.call_args(c)
            if cu.const_of(args[1]) not in memops:
                continue
            n += 1
            v = cu.strip_casts(g, args[2])
            txt = g.show(v)
            shape_ok = False
            if v is not None and v['k'] == 'bin' and v['op'] == '+':
                shape_ok = 'var_frame' in txt or 'var_index' in txt
            if v is not None and v['k'] in ('ref', 'member'):
                shape_ok = 'var_index' in txt or 'var_frame' in txt or 'loop_for_of_var_index' in txt \
                    or 'identifier' in txt
            if not shape_ok:
                bad.append(c)
        ctx.ob('R15.2', 'frozen:yr_execute_code:mem', not bad and n >= 10,
               g.loc(bad[0]) if bad else 'libyara/grammar.y',
               FROZEN_BOUNDS['yr_execute_code:mem'] + ' [%d emission sites checked]' % n if not bad
               else 'an OP_*_M operand is not of the form var_frame + k: %s' % g.show(bad[0])[:80])
    for k in ('yr_execute_code:args', '_yr_re_fiber_sync:stack'):
        if not ctx.fixture:
            ctx.ob('R15.2', 'frozen:' + k, True, k.split(':')[0], FROZEN_BOUNDS[k])


SIZED_COPIES = {'strlcpy': (0, 2), 'strlcat': (0, 2), 'strncpy': (0, 2), 'snprintf': (0, 1),
                'vsnprintf': (0, 1), 'memcpy': (0, 2), 'memmove': (0, 2), 'memset': (0, 2)}


def r15_5(ctx):
    """a copy bounded by `sizeof(array)` starts at the array: with the destination written
    as array + d and the size as sizeof(array) - s, d equals s (destination + size is the end
    of the array, as a symbolic sum).  `strlcpy(p + 1, src, sizeof(buffer))` with p somewhere
    inside buffer lets the copy run past the end by p + 1 - buffer bytes."""
    from .C14 import _linsum, canon
    prog = ctx.prog
    n_sites = 0
    for f in prog.fns():
        if not (f.file.startswith('libyara/') or f.file.startswith('cli/') or ctx.fixture):
            continue
        occ = {}
        for c in sorted(f.calls(), key=lambda x: (x.get('l', 0), x['i'])):
            spec = SIZED_COPIES.get(c.get('callee'))
            if spec is None:
                continue
            a = f.call_args(c)
            if len(a) <= max(spec):
                continue
            D, S = a[spec[0]], a[spec[1]]
            szs = [x for x in f.walk(S) if x['k'] == 'sizeof' and '[' in (x.get('of') or '') and
                   (x.get('of') or '').split('[')[0].strip() in ('char', 'unsigned char', 'uint8_t', 'int8_t',
                                                                'const char', 'char_t')]
            if not szs:
                continue            # byte buffers only: element counts and byte counts coincide
            ld, lsz = _linsum(f, D), _linsum(f, S)
            if ld is None or lsz is None:
                continue
            n_sites += 1
            k = occ.get(c['callee'], 0)
            occ[c['callee']] = k + 1
            terms = dict(ld[0])
            for t, cf in lsz[0].items():
                terms[t] = terms.get(t, 0) + cf
            terms = {t: cf for t, cf in terms.items() if cf}
            end = ld[1] + lsz[1]
            # the one remaining term must be an array of the extent the size was taken from
            types = {}
            for e in (D, S):
                for x in f.walk(e):
                    if x['k'] in ('ref', 'member'):
                        types.setdefault(canon(f, x), x.get('t') or '')
                        sd = cu.stable_def_of(f, x) if x['k'] == 'ref' else None
                        if sd is not None:
                            for y in f.walk(sd):
                                if y['k'] in ('ref', 'member'):
                                    types.setdefault(canon(f, y), y.get('t') or '')
            ok = False
            why = ''
            if len(terms) == 1 and list(terms.values()) == [1]:
                arr = list(terms)[0]
                ty = types.get(arr, '')
                ext = None
                if '[' in ty and ty.rstrip().endswith(']'):
                    try:
                        ext = int(ty[ty.rindex('[') + 1:-1])
                    except ValueError:
                        ext = None
                elem = 1
                if ext is not None:
                    base_t = ty[:ty.rindex('[')].strip()
                    elem = {'char': 1, 'unsigned char': 1, 'uint8_t': 1, 'int8_t': 1}.get(base_t)
                if ext is not None and elem == 1:
                    ok = 0 <= end <= ext
                    why = 'destination + size is %s + %d, the array has %d bytes' % (arr, end, ext)
                elif ext is not None:
                    ok = szs[0].get('v') is not None and end <= szs[0]['v'] and ld[1] == 0 and not ld[0].keys() - {arr}
                    why = 'destination %s, size %d of sizeof %s' % (arr, end, szs[0].get('of'))
                else:
                    why = 'the destination %s is not an array (the size is sizeof %s)' % (arr, szs[0].get('of'))
            else:
                why = 'destination %s with size %s: they do not add up to the end of one array' % (
                    canon(f, D)[:40], canon(f, S)[:50])
            ctx.ob('R15.5', '%s:%s#%d:size-measured-from-destination' % (f.name, c['callee'], k), ok, f.loc(c),
                   'copy bounded by the end of the array (%s)' % why if ok else
                   '%s(%s, .., %s): %s - the copy can run past the end of the array' % (
                       c['callee'], canon(f, D)[:40], canon(f, S)[:50], why))
    ctx.count('sizeof_bounded_copies', n_sites)


def _index_bounded(ctx, f, at, idx, N):
    """on every path to `at` the index lvalue was compared so that idx < N"""
    base = idx
    if base['k'] == 'un' and base['op'] in ('post++', '++'):
        base = cu.strip_casts(f, f.kid(base, 0))
    off = 0
    if base['k'] == 'bin' and base['op'] in ('-', '+'):
        c = cu.const_of(cu.strip_casts(f, f.kid(base, 1)))
        if c is not None:
            off = -c if base['op'] == '-' else c
            base = cu.strip_casts(f, f.kid(base, 0))
    key = f.show(base)
    unbounded = []
    reached = [False]
    ct = paths.CondTracker(f, extra=['result'])

    def step(n, facts):
        facts = ct.on_step(n, facts)
        if n is at or (at['k'] in ('bin', 'un') and n is at):
            reached[0] = True
            ub = [x[1] for x in facts if isinstance(x, tuple) and x[0] == 'ub' and len(x) == 2]
            if not ub or ub[0] + off > N - 1:
                unbounded.append(n)
            return None
        if n['k'] == 'bin' and n['op'] == '=' and f.show(f.kid(n, 0)) == key:
            c = cu.const_of(cu.strip_casts(f, f.kid(n, 1)))
            rest = frozenset(x for x in facts if not (isinstance(x, tuple) and x[0] == 'ub'))
            if c is not None:
                return rest | {('ub', c)}
            return rest
        if n['k'] == 'un' and n['op'] in ('post++', '++') and f.show(f.kid(n, 0)) == key and n is not idx:
            ub = [x[1] for x in facts if isinstance(x, tuple) and x[0] == 'ub']
            rest = frozenset(x for x in facts if not (isinstance(x, tuple) and x[0] == 'ub'))
            if ub:
                return rest | {('ub', ub[0] + 1)}
            return rest
        if n['k'] == 'ret':
            return None
        if n['k'] == 'goto' and n.get('name', '').startswith('yy'):
            return None     # YYERROR / YYABORT leave the grammar action
        return facts

    def edge(b, term, cond, i, succ, facts):
        facts = ct.on_edge(term, cond, i, facts)
        if facts is None:
            return None
        pol = paths.branch_polarity(f, term, i)
        if pol is None or cond is None:
            return facts
        c, pol = paths.normalise_cond(f, cond, pol)
        if c is None or c['k'] != 'bin' or c['op'] not in ('==', '!=', '<', '<=', '>', '>='):
            return facts
        a, bb = cu.strip_casts(f, f.kid(c, 0)), cu.strip_casts(f, f.kid(c, 1))
        cop = c['op']
        if a is not None and bb is not None and cu.const_of(a) is not None and cu.const_of(bb) is None:
            # `LIMIT == idx`, `LIMIT > idx`: the same test written the other way round
            a, bb = bb, a
            cop = {'<': '>', '>': '<', '<=': '>=', '>=': '<='}.get(cop, cop)
        # loops bounded by the array's own counter field (counted-array idiom)
        if a is not None and f.show(a) == key and bb is not None and pol:
            bt = f.show(bb)
            for cname, strict in COUNTER_BOUND.items():
                if bt.endswith(cname) and cop == ('<' if strict else '<='):
                    rest = frozenset(x for x in facts if not (isinstance(x, tuple) and x[0] == 'ub' and len(x) == 2))
                    return rest | {('ub', N - 1)}
        k = 0
        if a is not None and a['k'] == 'bin' and a['op'] == '+' and f.show(f.kid(a, 0)) == key:
            k = cu.const_of(cu.strip_casts(f, f.kid(a, 1))) or 0
            atxt = key
        else:
            atxt = f.show(a) if a is not None else ''
        lim = cu.const_of(bb)
        if atxt != key or lim is None:
            return facts
        op = cop
        ub = None
        # value v of key satisfies after this edge:
        if op == '==' and not pol:
            ub = lim - k - 1        # monotone counter below the limit
        elif op == '!=' and pol:
            ub = lim - k - 1
        elif op == '<' and pol:
            ub = lim - k - 1
        elif op == '>=' and not pol:
            ub = lim - k - 1
        elif op == '<=' and pol:
            ub = lim - k
        elif op == '>' and not pol:
            ub = lim - k
        if ub is not None:
            rest = frozenset(x for x in facts if not (isinstance(x, tuple) and x[0] == 'ub'))
            return rest | {('ub', ub)}
        return facts
    try:
        from .C16 import _action_exit_block
        start = None
        rex = _action_exit_block(f, at)
        if rex is not None:
            # grammar action: start at the action's case label
            for anc in f.ancestors(at):
                if anc['k'] == 'case':
                    p = f.parent(anc)
                    b = cu.label_block(f, anc)
                    if b is not None:
                        start = b
            if start is None:
                return False

            def edge2(b, term, cond, i, succ, facts):
                if succ == rex:
                    return None
                return edge(b, term, cond, i, succ, facts)
            paths.explore(f, set(), step, edge2, start_block=start, max_states=512)
        else:
            paths.explore(f, set(), step, edge, max_states=512)
    except paths.Budget:
        return False
    return reached[0] and not unbounded


def _lexbuf(ctx, lx):
    """per flex action: bytes stored through lex_buf_ptr++ are covered by the
    lex_check_space_ok that precedes them"""
    from .C12 import action_groups as _ag
    best = None
    for sw in cu.find_switches(lx):
        c = cu.switch_cond(lx, sw)
        if c is not None and 'yy_act' in lx.show(c):
            g = cu.switch_groups(lx, sw)
            if best is None or len(g) > len(best[1]):
                best = (sw, g)
    ctx.require(best is not None, 'flex action switch not found in yara_yylex')
    sw, groups = best
    from .C04 import _post_switch_block
    post = _post_switch_block(lx, sw)
    n_actions = 0
    for labels, stmts in groups:
        nodes = list(cu.group_nodes(lx, stmts))

        def is_write(n):
            if n['k'] != 'bin' or n['op'] != '=':
                return False
            l = cu.strip_casts(lx, lx.kid(n, 0))
            if l is None or l['k'] != 'un' or l['op'] != '*':
                return False
            p = cu.strip_casts(lx, lx.kid(l, 0))
            return p is not None and p['k'] == 'un' and p['op'] == 'post++' and \
                'lex_buf_ptr' in lx.show(p)
        def is_block_write(n):
            if n['k'] != 'call' or n.get('callee') not in ('memcpy', 'memmove', 'strcpy', 'strncpy'):
                return False
            a = lx.call_args(n)
            return bool(a) and 'lex_buf_ptr' in lx.show(a[0])
        writes = [n for n in nodes if is_write(n) or is_block_write(n)]
        if not writes:
            continue
        n_actions += 1
        start = cu.label_block(lx, labels[0])
        bad = []

        def step(n, facts):
            if is_block_write(n):
                # a block copy into the buffer: its length must be the very strlen(data) that
                # lex_check_space_ok measured (or a constant within the reserved room)
                a = lx.call_args(n)
                ln = cu.strip_casts(lx, a[2]) if len(a) > 2 else None
                chk = [x[1] for x in facts if isinstance(x, tuple) and x[0] == 'chk']
                m = [x[1] for x in facts if isinstance(x, tuple) and x[0] == 'room']
                ok_ = False
                if ln is not None and ln['k'] == 'call' and ln.get('callee') == 'strlen' and chk:
                    ok_ = lx.show(cu.strip_casts(lx, lx.call_args(ln)[0])) == chk[0]
                elif ln is not None and cu.const_of(ln) is not None and m and m[0] != 'all':
                    ok_ = cu.const_of(ln) <= m[0]
                if not ok_:
                    bad.append(n)
                return facts
            if is_write(n):
                m = [x[1] for x in facts if isinstance(x, tuple) and x[0] == 'room']
                cur = m[0] if m else 0
                if cur == 'all':
                    return facts
                if cur < 1:
                    bad.append(n)
                    return facts
                return frozenset(x for x in facts if not (isinstance(x, tuple) and x[0] == 'room')) | {('room', cur - 1)}
            if n['k'] == 'ret':
                return None
            return facts

        def edge(b, term, cond, idx, succ, facts):
            if succ == post:
                return None
            pol = paths.branch_polarity(lx, term, idx)
            if pol is None or cond is None:
                return facts
            c, pol = paths.normalise_cond(lx, cond, pol)
            if c is not None and c['k'] == 'bin' and c['op'] == '>=' and not pol and \
                    'lex_check_space_ok' in (tuple(lx.macros(c)) + tuple(m for x in lx.walk(c) for m in lx.macros(x))):
                # strlen(data) + len >= max - 1 is false: strlen(data) bytes fit
                room = None
                data_txt = '?'
                for x in lx.walk(c):
                    if x['k'] == 'call' and x.get('callee') == 'strlen':
                        a = cu.strip_casts(lx, lx.call_args(x)[0])
                        if a is not None and a['k'] == 'str':
                            s = a.get('str', '')
                            import re as _re
                            s2 = _re.sub(r'\\x[0-9a-f]{2}', 'X', s)
                            room = len(s2)
                        else:
                            room = 'all'
                            data_txt = lx.show(a) if a is not None else '?'
                if room is not None:
                    out_ = frozenset(x for x in facts if not (isinstance(x, tuple) and x[0] in ('room', 'chk'))) | {('room', room)}
                    if room == 'all':
                        out_ = out_ | {('chk', data_txt)}
                    return out_
            return facts
        try:
            paths.explore(lx, set(), step, edge, start_block=start, max_states=256)
        except paths.Budget:
            ctx.require(False, 'R15.2 lexer: budget exceeded')
        line = writes[0].get('l')
        ctx.ob('R15.2', 'yara_yylex:action@%s:lex_buf-writes-covered' % line, not bad,
               lx.loc(bad[0]) if bad else lx.loc(writes[0]),
               '%d lex_buf store(s) in this action are covered by lex_check_space_ok' % len(writes)
               if not bad else
               'a byte is stored through lex_buf_ptr++ on a path where lex_check_space_ok did '
               'not reserve room for it: lex_buf[YR_LEX_BUF_SIZE] can overflow')
    ctx.count('lexer_actions_writing_lex_buf', n_actions)
    ctx.require(n_actions >= 6, 'only %d lexer actions write lex_buf' % n_actions)


# ---------------------------------------------------------------- R15.3
def r15_3(ctx):
    prog = ctx.prog
    for fname, tu in (('_yr_scanner_scan_mem_block', 'libyara/scanner.c'),
                      ('yr_execute_code', 'libyara/exec.c')):
        f = prog.fn(fname, tu)
        if f is None:
            ctx.require(ctx.fixture, '%s not found' % fname)
            continue
        via = cu.helpers_reaching(prog, f, 'yr_stopwatch_elapsed_ns')
        polls = [c for c in f.calls() if c.get('callee') == 'yr_stopwatch_elapsed_ns' or c.get('callee') in via]
        ctx.require(polls, 'no timeout poll in ' + fname)
        poll = polls[-1] if fname == 'yr_execute_code' else polls[0]
        loop = None
        for a in f.ancestors(poll):
            if a['k'] in ('while', 'for', 'do'):
                loop = a
                break
        ctx.require(loop is not None, 'poll in %s is not inside a loop' % fname)
        nbm = f.node_block()
        # an iteration has "considered the deadline" when it executed the poll or a
        # timeout guard: a condition that mentions the timeout setting, a modulo test of
        # the position, or a test of a counter that is stepped in the test itself
        gset = set([poll['i']])
        guard_txt = []
        for x in f.walk(loop):
            if x['k'] != 'bin' or x['op'] not in ('==', '!=', '<', '>', '<=', '>='):
                continue
            sides = [cu.strip_casts(f, y) for y in f.kids(x)]
            is_guard = any(m['k'] == 'member' and m['fld'] == 'timeout' for m in f.walk(x))
            for y, z in ((sides[0], sides[1]), (sides[1], sides[0])):
                if y is None or z is None or cu.const_of(z) is None:
                    continue
                if y['k'] == 'bin' and y['op'] == '%':
                    is_guard = True
                if y['k'] == 'un' and y['op'] in ('++', 'post++'):
                    is_guard = True
            if is_guard:
                gset |= set(n_['i'] for n_ in f.walk(x))
                guard_txt.append(f.show(x)[:40])
        guard = poll
        gcond = poll
        # loop header block = block whose terminator is the loop statement
        header = [b for b, bd in f.blocks.items() if bd.get('term') == loop['i']]
        ctx.require(header, 'loop header block not found in ' + fname)
        body = f.kids(loop)[-1]
        start = None
        for x in f.walk(body):
            if x['i'] in nbm:
                start = nbm[x['i']]
                break
        bad = []

        def step(n, facts):
            if n['i'] in gset:
                return facts | {'polled'}
            if n['k'] == 'ret':
                return None
            return facts

        def edge(b, term, cond, idx, succ, facts):
            if succ in header:
                if 'polled' not in facts:
                    bad.append(b)
                return None
            return facts
        try:
            paths.explore(f, set(), step, edge, start_block=start[0], start_index=start[1],
                          max_states=8)
        except paths.Budget:
            ctx.require(False, 'R15.3 budget exceeded in ' + fname)
        ctx.ob('R15.3', '%s:timeout-poll-on-every-iteration' % fname, not bad, f.loc(guard),
               'every path from the loop header back to it evaluates a timeout guard (%s) or the poll' %
               ', '.join(guard_txt[:3]) if not bad else
               'an iteration of the main loop of %s can return to the loop header without '
               'evaluating the timeout guard (a `continue` or early back edge bypasses it): '
               'a scan with a timeout may never notice its deadline' % fname)


def _fx_margin(ctx):
    for f in ctx.prog.fns():
        if f.name.startswith('iter_') and f.name.endswith('_next'):
            bad, npush = stack_margin(ctx, f, f.name)
            ctx.ob('R15.2', '%s:stack-pushes-within-proven-margin' % f.name, not bad,
                   f.loc(bad[0]) if bad else f.file, 'fixture')


FIXTURES = {
    'R15.2': {'src': 'C15/limits.c', 'run': _fx_margin, 'expect': 'iter_bad_next',
              'expect_ok': 'iter_good_next'},
    'R15.3': {'src': 'C15/limits.c', 'run': r15_3, 'expect': 'yr_execute_code:timeout-poll'},
}


def r15_4(ctx):
    """time-limit arithmetic does not overflow before it is widened: every
    multiplication by a unit-conversion constant (>= 10^6: microseconds, nanoseconds
    per second) is evaluated in a 64-bit type.  `int timeout * 1000000000` in 32 bits
    wraps for every timeout of 3 s or more."""
    n = 0
    occ15 = {}
    for f in ctx.prog.fns():
        if not (f.file.startswith('libyara/') or f.file.startswith('cli/') or ctx.fixture):
            continue
        if f.name.endswith(('yyparse', 'yylex')):
            continue
        for x in f.all_nodes():
            if x['k'] != 'bin' or x['op'] != '*':
                continue
            ks = [cu.const_of(cu.strip_casts(f, y)) for y in f.kids(x)]
            if not any(k is not None and k >= 1000000 for k in ks) or all(k is not None for k in ks):
                continue
            n += 1
            occ15[f.name] = occ15.get(f.name, 0) + 1
            t = (x.get('t') or '')
            wide = any(w in t for w in ('long', '64', 'size_t', 'double', 'float', 'time_t'))
            ctx.ob('R15.4', '%s:unit-conversion#%d:64-bit' % (f.name, occ15[f.name]), wide, f.loc(x),
                   'the unit conversion is evaluated as %s' % t if wide else
                   'the unit conversion `%s` is evaluated as %s: it wraps for values a time limit '
                   'can take, before the result is widened' % (f.show(x)[:50], t))
    ctx.count('unit_conversions', n)


def run(ctx):
    r15_1(ctx)
    ctx.floor('R15.1', 18)
    r15_2(ctx)
    ctx.floor('R15.2', 18)
    r15_3(ctx)
    ctx.floor('R15.3', 2)
    r15_4(ctx)
    ctx.floor('R15.4', 2)
    r15_5(ctx)
    ctx.floor('R15.5', 20)

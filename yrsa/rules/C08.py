"""C08 — saved rules behave identically once loaded.

Decides (DESIGN.md §4 C08) the structure the save/load round trip rests on:
  R8.1 relocation registry completeness: every arena record is allocated
       with exactly its DECLARE_REFERENCE pointer fields registered; no raw
       pointer field lives in an arena record outside that mechanism;
  R8.2 no pointer is emitted into the bytecode as a plain integer;
  R8.3 every store into a registered (relocatable) slot stores NULL, an
       arena-derived pointer or a copy of another registered slot;
  R8.4 yr_arena_save_stream swaps the pointers back on every path after it
       has swapped them out (the original stays usable);
  R8.5 zeroing discipline per arena buffer (bytes written do not depend on
       heap garbage): a buffer is struct/zeroed-only, write-only, or
       structs followed by memset-initialised terminators; records written
       with write_data have no padding or are memset first;
  R8.6 yr_rules_from_arena initialises every field of the malloc'ed YR_RULES.
Not decided: equality of scan results after reload; stream chunking.
"""
from .. import cfgutil as cu
from .. import paths
from .C14 import canon

USES_PARSERS = True
LEVEL = 'other'
EXPLANATION = (
    'Structural analysis of the arena relocation mechanism over clang facts: '
    'offsetof lists at every yr_arena_allocate_struct vs the DECLARE_REFERENCE '
    'fields of the record type (from record layouts), provenance of every '
    'store into a relocatable slot, pointer-as-integer emission, a typestate '
    'over yr_arena_save_stream (swapped-out -> restored on every return), '
    'per-buffer allocation-kind table, padding of records written raw, field '
    'coverage of yr_rules_from_arena. Necessary clauses of C08, not round-trip '
    'equality.')
ASSUMPTIONS = [
    'records reached through a pointer are arena-resident; records held by '
    'value in a local are stack copies (their stores are not relocatable slots)',
    'yr_arena_ref_to_ptr / yr_arena_get_ptr return pointers into the arena',
]

ARENA_PTR_FUNCS = ('yr_arena_ref_to_ptr', 'yr_arena_get_ptr')

# relocatable slots that are not DECLARE_REFERENCE fields, with the reason
EXTRA_SLOTS = {
    ('YR_EXTERNAL_VARIABLE', 'value.s'):
        'string externals: registered by a separate yr_arena_make_ptr_relocatable '
        'in _yr_compiler_define_variable (checked by R8.1x)',
}


def ref_fields(prog, recname):
    r = prog.records.get(recname)
    if r is None:
        return None
    types = dict((f['name'], f.get('type', '')) for f in r['fields'])
    return sorted(f['name'] for f in r['fields']
                  if f.get('ptr') and 'YR_ARENA_REF' in types.get(f['name'] + '_', ''))


def raw_ptr_fields(prog, recname, seen=None, prefix=''):
    """pointer fields not declared through DECLARE_REFERENCE (recursing into
    nested records held by value)"""
    seen = seen or set()
    if recname in seen:
        return []
    seen.add(recname)
    r = prog.records.get(recname)
    if r is None:
        return []
    refs = set(ref_fields(prog, recname) or [])
    names = set(f['name'] for f in r['fields'])
    out = []
    for f in r['fields']:
        if f['name'] in refs or (f['name'].endswith('_') and f['name'][:-1] in refs):
            continue
        if f.get('ptr'):
            out.append(prefix + f['name'])
        elif f.get('rec') and f['rec'] != 'YR_ARENA_REF':
            out.extend(raw_ptr_fields(prog, f['rec'], seen, prefix + f['name'] + '.'))
    return out


def r8_1(ctx):
    prog = ctx.prog
    n = 0
    arena_records = set()
    for f in prog.fns():
        if not f.file.startswith('libyara/') and not ctx.fixture:
            continue
        for c in f.calls():
            if c.get('callee') != 'yr_arena_allocate_struct':
                continue
            args = f.call_args(c)
            if len(args) < 4:
                continue
            sz = cu.strip_casts(f, args[2])
            rec = sz.get('ofrec') if sz is not None and sz['k'] == 'sizeof' else None
            where = f.loc(c)
            if rec is None:
                ctx.ob('R8.1', '%s:allocate_struct:size-not-sizeof' % f.name, False, where,
                       'record type of the allocation cannot be determined')
                continue
            n += 1
            arena_records.add(rec)
            listed = set()
            foreign = []
            for a in args[4:]:
                a = cu.strip_casts(f, a)
                if a is not None and a['k'] == 'offsetof':
                    if a.get('ofrec') != rec:
                        foreign.append('%s.%s' % (a.get('ofrec'), '.'.join(a['path'])))
                    listed.add('.'.join(a['path']))
            want = set(ref_fields(prog, rec) or [])
            missing = sorted(want - listed)
            extra = sorted(listed - want)
            ok = not missing and not extra and not foreign
            detail = 'registers {%s} = reference fields of %s' % (', '.join(sorted(listed)), rec)
            if missing:
                detail = ('%s is allocated without registering its pointer field(s) %s: '
                          'they are not converted when the rules are saved, and not '
                          'fixed up when the buffer moves' % (rec, ', '.join(missing)))
            elif extra or foreign:
                detail = 'registers offsets that are not reference fields of %s: %s' % (
                    rec, ', '.join(extra + foreign))
            ctx.ob('R8.1', '%s:%s:registry' % (f.name, rec), ok, where, detail)
    # no raw pointer fields in records placed in the arena
    for f in prog.fns():
        if not f.file.startswith('libyara/') and not ctx.fixture:
            continue
        for c in f.calls():
            if c.get('callee') == 'yr_arena_write_data':
                a = f.call_args(c)
                sz = cu.strip_casts(f, a[3]) if len(a) > 3 else None
                if sz is not None and sz['k'] == 'sizeof' and sz.get('ofrec'):
                    arena_records.add(sz['ofrec'])
    for rec in sorted(arena_records):
        raw = raw_ptr_fields(prog, rec)
        raw2 = [r for r in raw if (rec, r) not in EXTRA_SLOTS]
        ctx.ob('R8.1', '%s:no-raw-pointer-fields' % rec, not raw2,
               'record %s' % rec,
               'arena record %s has no pointer field outside DECLARE_REFERENCE%s' % (
                   rec, (' (listed exception: %s)' % ', '.join(raw)) if raw else '')
               if not raw2 else
               'arena record %s holds raw pointer field(s) %s that the relocation '
               'registry cannot know' % (rec, ', '.join(raw2)))
    # the extra slot is registered where it is stored
    for (rec, fld), why in EXTRA_SLOTS.items():
        ok = False
        where = rec
        for f in prog.fns():
            for c in f.calls():
                if c.get('callee') != 'yr_arena_make_ptr_relocatable':
                    continue
                for x in f.walk(c):
                    if x['k'] == 'offsetof' and x.get('ofrec') == rec and '.'.join(x['path']) == fld:
                        ok = True
                        where = f.loc(c)
        ctx.ob('R8.1', '%s.%s:registered-separately' % (rec, fld), ok or ctx.fixture, where,
               'slot %s.%s is registered by yr_arena_make_ptr_relocatable' % (rec, fld) if ok else
               'slot %s.%s is no longer registered anywhere' % (rec, fld))
    ctx.count('allocate_struct_sites', n)
    return arena_records


def r8_2(ctx):
    prog = ctx.prog
    n = 0
    for f in prog.fns():
        if not f.file.startswith('libyara/') and not ctx.fixture:
            continue
        for c in f.calls():
            cal = c.get('callee')
            if cal in ('yr_parser_emit_with_arg', 'yr_parser_emit_with_arg_int32',
                       'yr_parser_emit_push_const', 'yr_parser_emit_with_arg_double'):
                args = f.call_args(c)
                val = args[2] if cal != 'yr_parser_emit_push_const' else args[1]
                n += 1
                bad = [x for x in f.walk(val) if x['k'] == 'cast' and x.get('ptrint')
                       and '*' in (x.get('from') or '')]
                ctx.ob('R8.2', '%s:%s(%s)' % (f.name, cal, f.show_sym(val)[:40]), not bad, f.loc(c),
                       'operand is an integer' if not bad else
                       'a pointer (%s) is emitted as a plain integer operand: it is neither '
                       'relocated when the code buffer moves nor converted when the rules '
                       'are saved' % f.show(bad[0])[:60])
    ctx.count('emit_with_value_sites', n)


def _registered_slots(ctx, arena_records):
    prog = ctx.prog
    slots = set()
    for rec in arena_records:
        for fld in ref_fields(prog, rec) or []:
            slots.add((rec, fld))
    return slots


def _provenance(ctx, f, e, slots, depth=0):
    """classify the value stored: 'null' | 'arena' | 'slot' | 'param' | other text"""
    e = cu.strip_casts(f, e)
    if e is None or depth > 5:
        return 'unknown'
    if cu.const_of(e) == 0:
        return 'null'
    k = e['k']
    if k == 'call':
        if e.get('callee') in ARENA_PTR_FUNCS:
            return 'arena'
        return 'call:%s' % e.get('callee', '?')
    if k == 'member':
        if (e.get('rec'), e['fld']) in slots:
            return 'slot'
        # value.s of an external copied from another external
        p = f.kid(e, 0)
        if p is not None and p['k'] == 'member' and (p.get('rec'), p['fld'] + '.' + e['fld']) in EXTRA_SLOTS:
            return 'slot'
        return 'field:%s.%s' % (e.get('rec'), e['fld'])
    if k == 'bin' and e['op'] in ('+', '-'):
        return _provenance(ctx, f, f.kid(e, 0), slots, depth + 1)
    if k == 'un' and e['op'] == '&':
        # &arena_record->field / &table[i]: address inside an arena record
        inner = cu.strip_casts(f, f.kid(e, 0))
        root, path = cu.member_path(f, inner)
        if root is not None and root['k'] == 'ref':
            return _provenance(ctx, f, root, slots, depth + 1)
        return 'addr'
    if k == 'cond':
        a = _provenance(ctx, f, f.kid(e, 1), slots, depth + 1)
        b = _provenance(ctx, f, f.kid(e, 2), slots, depth + 1)
        if a in ('null', 'arena', 'slot') and b in ('null', 'arena', 'slot'):
            return 'arena'
        return a if a not in ('null', 'arena', 'slot') else b
    if k == 'ref' and e.get('dk') == 'local':
        # all definitions of the local
        kinds = set()
        for n in f.all_nodes():
            src = None
            if n['k'] == 'decl' and n['name'] == e['name'] and n.get('c'):
                src = f.kid(n, 0)
            elif n['k'] == 'bin' and n['op'] == '=':
                l = f.kid(n, 0)
                if l is not None and l['k'] == 'ref' and l['name'] == e['name']:
                    src = f.kid(n, 1)
            elif n['k'] == 'bin' and n['op'] in ('+=', '-=') or (n['k'] == 'un' and n['op'] in ('++', 'post++')):
                continue
            if src is not None:
                kinds.add(_provenance(ctx, f, src, slots, depth + 1))
        kinds.discard('null')
        if not kinds:
            return 'null'
        if kinds <= set(['arena', 'slot']):
            return 'arena'
        return sorted(kinds - set(['arena', 'slot']))[0]
    if k == 'ref' and e.get('dk') == 'param':
        return 'param:%s' % e['name']
    return k


def r8_3(ctx, arena_records):
    prog = ctx.prog
    slots = _registered_slots(ctx, arena_records)
    n = 0
    occ = {}
    for f in prog.fns():
        if not f.file.startswith('libyara/') and not ctx.fixture:
            continue
        for a in f.all_nodes():
            if a['k'] != 'bin' or a['op'] != '=':
                continue
            l = f.kid(a, 0)
            if l is None or l['k'] != 'member':
                continue
            slot = None
            if (l.get('rec'), l['fld']) in slots:
                slot = (l['rec'], l['fld'])
            else:
                p = f.kid(l, 0)
                if p is not None and p['k'] == 'member' and \
                        (p.get('rec'), p['fld'] + '.' + l['fld']) in EXTRA_SLOTS:
                    slot = (p['rec'], p['fld'] + '.' + l['fld'])
            if slot is None:
                continue
            # stack copies (record held by value in a local) are not arena slots
            root, path = cu.member_path(f, l)
            base = f.kid(l, 0) if slot[1].count('.') == 0 else f.kid(f.kid(l, 0), 0)
            if root is not None and root['k'] == 'ref' and root.get('dk') == 'local':
                arrow = any(x['k'] == 'member' and x.get('arrow') for x in f.walk(l)) or \
                    any(x['k'] in ('sub',) or (x['k'] == 'un' and x['op'] == '*') for x in f.walk(l))
                if not arrow:
                    continue
            n += 1
            prov = _provenance(ctx, f, f.kid(a, 1), slots)
            ok = prov in ('null', 'arena', 'slot')
            if prov.startswith('param:'):
                ok, prov = _param_provenance(ctx, f, prov[6:], slots)
            idx = occ.setdefault((f.name, slot), [0])
            idx[0] += 1
            key = '%s:%s.%s%s' % (f.name, slot[0], slot[1], ('#%d' % idx[0]) if idx[0] > 1 else '')
            ctx.ob('R8.3', key, ok, f.loc(a),
                   'relocatable slot %s.%s receives %s' % (slot[0], slot[1], {
                       'null': 'NULL', 'arena': 'an arena pointer', 'slot': 'a copy of a relocatable slot'
                   }.get(prov, prov)) if ok else
                   'relocatable slot %s.%s receives a value that does not point into the '
                   'arena (%s = %s): yr_arena_save_stream cannot convert it to a reference' % (
                       slot[0], slot[1], f.show(f.kid(a, 1))[:50], prov))
    ctx.count('slot_stores', n)


def _param_provenance(ctx, f, pname, slots):
    """one level up: what do the callers pass for this parameter"""
    prog = ctx.prog
    pnames = [p['name'] for p in f.params]
    if pname not in pnames:
        return False, 'param:' + pname
    i = pnames.index(pname)
    kinds = set()
    ncall = 0
    for g in prog.fns():
        for c in g.calls():
            if c.get('callee') != f.name:
                continue
            args = g.call_args(c)
            if i < len(args):
                ncall += 1
                kinds.add(_provenance(ctx, g, args[i], slots))
    kinds.discard('null')
    if ncall and kinds <= set(['arena', 'slot']):
        return True, 'arena'
    return False, 'parameter %s (callers pass: %s)' % (pname, ', '.join(sorted(kinds)) or 'unknown')


def _slot_address(f, d, depth=0):
    """what a memcpy operand designates when it is the address of a relocatable slot
    `arena->buffers[X->buffer_id].data + X->offset`: (True, {cursor names X}) - also
    through a local naming that address and through a static helper that merely returns
    it for the (arena, entry) it is handed; (False, set()) otherwise"""
    d = cu.strip_casts(f, d)
    if d is None or depth > 4:
        return False, set()
    if d['k'] == 'ref':
        sd = cu.stable_def_of(f, d)
        if sd is not None:
            return _slot_address(f, sd, depth + 1)
        # a local initialised once from a call of an address helper
        dn = cu.decl_of(f, d)
        if dn is not None and dn.get('c'):
            init = cu.strip_casts(f, f.kid(dn, 0))
            others = [x for x in f.all_nodes() if x['k'] == 'bin' and x['op'].endswith('=') and
                      x['op'] not in ('==', '!=', '<=', '>=') and
                      cu.strip_casts(f, f.kid(x, 0)) is not None and
                      cu.strip_casts(f, f.kid(x, 0))['k'] == 'ref' and
                      cu.strip_casts(f, f.kid(x, 0))['name'] == d['name'] and
                      cu.decl_of(f, cu.strip_casts(f, f.kid(x, 0))) is dn]
            if init is not None and init['k'] == 'call' and not others:
                return _slot_address(f, init, depth + 1)
        return False, set()
    if d['k'] == 'call':
        h = f.tu.functions.get(d.get('callee') or '')
        if h is None or h is f:
            return False, set()
        rets = [n for n in h.all_nodes() if n['k'] == 'ret']
        stmts = [n for n in h.all_nodes() if n['k'] in ('if', 'for', 'while', 'do', 'switch', 'goto')]
        if len(rets) != 1 or stmts or not rets[0].get('c'):
            return False, set()
        ok, curs = _slot_address(h, h.kid(rets[0], 0), depth + 1)
        if not ok:
            return False, set()
        hp = [p_['name'] for p_ in h.params]
        out = set()
        args = f.call_args(d)
        for c_ in curs:
            if c_ in hp and hp.index(c_) < len(args):
                out.add(canon(f, args[hp.index(c_)]))
        return True, out
    has_data = any(x['k'] == 'member' and x['fld'] == 'data' and x.get('rec') == 'YR_ARENA_BUFFER'
                   for x in f.walk(d))
    curs = set(canon(f, f.kid(x, 0)) for x in f.walk(d) if x['k'] == 'member' and x['fld'] == 'offset')
    return has_data, curs


def r8_4(ctx):
    f = ctx.fn('yr_arena_save_stream', 'libyara/arena.c')
    problems = []

    def is_buffer_data_dst(n):
        # arena->buffers[..].data + off, spelled directly, through a local or a helper
        return _slot_address(f, n)[0]

    def src_kind(n):
        n = cu.strip_casts(f, n)
        if n is not None and n['k'] == 'un' and n['op'] == '&':
            v = f.kid(n, 0)
            t = (v.get('t') or '') if v is not None else ''
            if 'YR_ARENA_REF' in t:
                return 'ref'
            if '*' in t:
                return 'ptr'
        return None

    # loops that restore pointers: a loop whose body holds a memcpy(buffer data <- &pointer)
    restoring = set()
    swaps_out = 0
    swaps_back = 0
    for c in f.calls():
        if c.get('callee') != 'memcpy':
            continue
        a = f.call_args(c)
        if is_buffer_data_dst(a[0]):
            sk = src_kind(a[1])
            if sk == 'ref':
                swaps_out += 1
            if sk == 'ptr':
                swaps_back += 1
                for anc in f.ancestors(c):
                    if anc['k'] in ('while', 'for', 'do'):
                        restoring.add(anc['i'])
                        break
    ctx.require(swaps_out >= 1 and swaps_back >= 1,
                'yr_arena_save_stream: pointer<->reference swap idiom not recognised')

    def step(n, facts):
        if n['k'] == 'call' and n.get('callee') == 'memcpy':
            a = f.call_args(n)
            if is_buffer_data_dst(a[0]) and src_kind(a[1]) == 'ref':
                return facts | {'swapped'}
        if n['k'] == 'ret':
            if 'swapped' in facts:
                problems.append(n)
            return None
        return facts

    def edge(b, term, cond, idx, succ, facts):
        # leaving a restoring loop through its condition: everything restored
        if term is not None and term['i'] in restoring and idx == 1:
            return facts - {'swapped'}
        return facts
    paths.explore(f, set(), step, edge, max_states=64)
    where = '%s:%s' % (f.file, f.line)
    if problems:
        seen = set()
        for n in problems:
            if n.get('l') in seen:
                continue
            seen.add(n.get('l'))
            ctx.ob('R8.4', 'yr_arena_save_stream:return-while-swapped@%s' % f.show_sym(n), False,
                   f.loc(n),
                   'returns after the relocatable pointers were replaced by references and '
                   'before they are restored: a failed save leaves the live rules unusable')
    else:
        ctx.ob('R8.4', 'yr_arena_save_stream:pointers-restored-on-every-return', True, where,
               'every return after the pointer->reference swap passes the restoring loop to its end')


def r8_4b(ctx):
    """both passes over the relocation list are total: in every loop of
    yr_arena_save_stream that advances a list cursor (`reloc = reloc->next`) and stores
    into the slot the entry designates, every iteration reaches that store - an entry
    skipped by one pass and not by the other leaves a reference where a pointer belongs
    (or the other way round) in the live rules"""
    f = ctx.fn('yr_arena_save_stream', 'libyara/arena.c')
    k = 0
    for loop in f.all_nodes():
        if loop['k'] not in ('while', 'for', 'do'):
            continue
        adv = None
        for x in f.walk(loop):
            if x['k'] == 'bin' and x['op'] == '=':
                l = cu.strip_casts(f, f.kid(x, 0))
                r = cu.strip_casts(f, f.kid(x, 1))
                if l is not None and l['k'] == 'ref' and r is not None and r['k'] == 'member' and \
                        r['fld'] == 'next' and canon(f, f.kid(r, 0)) == l['name']:
                    adv = (x, l['name'])
        if adv is None:
            continue
        cur = adv[1]

        def is_slot_store(n):
            if n['k'] != 'call' or n.get('callee') != 'memcpy':
                return False
            ok_, curs_ = _slot_address(f, f.call_args(n)[0])
            return ok_ and cur in curs_
        stores = [x for x in f.walk(loop) if is_slot_store(x)]
        if not stores:
            continue
        k += 1
        advs = [x for x in f.walk(loop) if x['k'] == 'bin' and x['op'] == '=' and
                canon(f, f.kid(x, 0)) == cur and canon(f, f.kid(x, 1)) == '%s->next' % cur]
        adv_ids = set(x['i'] for x in advs)
        bad = []
        nbm = f.node_block()
        body = f.kids(loop)[-1]
        start = None
        for x in f.walk(body):
            if x['i'] in nbm:
                start = nbm[x['i']]
                break

        def step(n, facts):
            if is_slot_store(n):
                return facts | {'stored'}
            if n['i'] in adv_ids:
                if 'stored' not in facts:
                    bad.append(n)
                return None
            if n['k'] == 'ret':
                return None
            return facts
        if start is not None:
            paths.explore(f, set(), step, None, start_block=start[0], start_index=start[1], max_states=256)
        ctx.ob('R8.4', 'yr_arena_save_stream:pass#%d:every-entry-converted' % k, not bad,
               f.loc(bad[0]) if bad else f.loc(loop),
               'every iteration of this pass over the relocation list stores into the entry\'s slot'
               if not bad else
               'an iteration of this pass over the relocation list moves on to the next entry without '
               'storing into the slot: that entry keeps its reference (or its pointer) while the others '
               'are converted, and the live rules are corrupted by saving them')
    ctx.require(k >= 2 or ctx.fixture, 'the two passes over the relocation list were not recognised (%d)' % k)


ZERO_KIND = {'yr_arena_allocate_struct': 'Z', 'yr_arena_allocate_zeroed_memory': 'Z',
             'yr_arena_allocate_memory': 'N', 'yr_arena_write_data': 'W',
             'yr_arena_write_string': 'W', 'yr_arena_write_uint32': 'W'}

# W sites allowed on struct buffers: the end-of-table terminators
TERMINATOR_FUNCS = ('_yr_compiler_compile_rules',)


def _buffer_id(ctx, f, e, depth=0):
    e = cu.strip_casts(f, e)
    if e is None:
        return None
    c = cu.const_of(e)
    if c is not None:
        return set([c])
    if e['k'] == 'ref' and e.get('dk') == 'param' and depth < 3:
        pn = [p['name'] for p in f.params]
        i = pn.index(e['name'])
        out = set()
        for g in ctx.prog.fns():
            for c2 in g.calls():
                if c2.get('callee') == f.name:
                    a = g.call_args(c2)
                    if i < len(a):
                        r = _buffer_id(ctx, g, a[i], depth + 1)
                        if r is None:
                            return None
                        out |= r
        return out or None
    return None


def r8_5(ctx):
    prog = ctx.prog
    names = {}
    for k, v in prog.enums.items():
        if k.startswith('YR_') and (k.endswith(('_TABLE', '_POOL', '_SECTION'))):
            names[v] = k
    for k, v in prog.macros_with_prefix('YR_').items():
        if k.endswith(('_TABLE', '_POOL', '_SECTION')) and v not in names:
            names[v] = k
    per = {}
    rules_arena_fns = []
    for f in prog.fns():
        if not f.file.startswith('libyara/') and not ctx.fixture:
            continue
        if f.file.endswith('arena.c'):
            continue
        for c in f.calls():
            kind = ZERO_KIND.get(c.get('callee'))
            if kind is None:
                continue
            args = f.call_args(c)
            # exec.c's private object arena is not saved
            a0 = f.show(args[0])
            if 'obj_arena' in a0:
                continue
            ids = _buffer_id(ctx, f, args[1])
            if ids is None:
                ctx.ob('R8.5', '%s:%s:buffer-id-unknown' % (f.name, c['callee']), False, f.loc(c),
                       'buffer id %s is not a constant or a propagated parameter' % f.show(args[1]))
                continue
            for b in ids:
                per.setdefault(b, []).append((kind, f, c))
    ctx.require(len(per) >= 8 or ctx.fixture, 'only %d arena buffers seen' % len(per))
    for b in sorted(per):
        kinds = set(k for k, _, _ in per[b])
        name = names.get(b, 'buffer#%d' % b)
        sites = per[b]
        where = sites[0][1].loc(sites[0][2])
        if 'N' in kinds:
            for k, f, c in sites:
                if k == 'N':
                    ctx.ob('R8.5', '%s:%s:non-zeroed-allocation' % (name, f.name), False, f.loc(c),
                           'non-zeroed allocation in a saved buffer: unwritten bytes reach the file')
        if kinds <= set(['Z']) or kinds <= set(['W']):
            ctx.ob('R8.5', '%s:single-kind' % name, True, where,
                   '%s is %s (%d sites)' % (name, 'struct/zeroed-only' if 'Z' in kinds else
                                            'write-only (fully overwritten)', len(sites)))
            continue
        if kinds == set(['Z', 'W']):
            bad = [(f, c) for k, f, c in sites if k == 'W' and f.name not in TERMINATOR_FUNCS]
            for f, c in bad:
                ctx.ob('R8.5', '%s:%s:write-into-struct-buffer' % (name, f.name), False, f.loc(c),
                       '%s mixes zeroed struct allocations with a raw write outside the '
                       'end-of-table terminator: a raw write may grow the buffer without '
                       'zeroing, and later structs then contain heap garbage in the bytes '
                       'they do not assign' % name)
            if not bad:
                ctx.ob('R8.5', '%s:structs+terminator' % name, True, where,
                       '%s: zeroed structs, raw writes only by the terminator in %s' % (
                           name, ', '.join(TERMINATOR_FUNCS)))
    # records written raw: no padding, or memset first
    for f in prog.fns():
        if not f.file.startswith('libyara/') and not ctx.fixture:
            continue
        for c in f.calls():
            if c.get('callee') != 'yr_arena_write_data':
                continue
            args = f.call_args(c)
            if 'obj_arena' in f.show(args[0]):
                continue
            d = cu.strip_casts(f, args[2])
            if d is None or d['k'] != 'un' or d['op'] != '&':
                continue
            v = f.kid(d, 0)
            rec = v.get('trec') if v is not None else None
            if v is None or v['k'] != 'ref' or not rec:
                continue
            r = prog.records.get(rec)
            if r is None:
                continue
            if r.get('union'):
                fsum = max([x.get('size', 0) for x in r['fields']] or [0])
            else:
                # flattened anonymous unions: count each anonymous group once
                fsum = 0
                seen_anon = {}
                for x in r['fields']:
                    if x.get('anon') and x.get('anon_kind') == 'union':
                        seen_anon[x['anon']] = max(seen_anon.get(x['anon'], 0), x.get('size', 0))
                    else:
                        fsum += x.get('size', 0)
                fsum += sum(seen_anon.values())
            padded = fsum != r['size']
            memset_first = any(
                m.get('callee') == 'memset' and
                f.show(cu.strip_casts(f, f.call_args(m)[0])) == f.show(d)
                for m in f.calls())
            ok = (not padded) or memset_first
            ctx.ob('R8.5', '%s:raw-record:%s' % (f.name, rec), ok, f.loc(c),
                   'record %s written raw: %s' % (rec, 'no padding' if not padded else
                                                  'padded, but memset before its fields are set')
                   if ok else
                   'record %s (size %d, fields %d) has padding and is written to the arena '
                   'without a memset: the padding bytes are stack garbage in the saved file' % (
                       rec, r['size'], fsum))


def r8_6(ctx):
    prog = ctx.prog
    f = ctx.fn('yr_rules_from_arena', 'libyara/rules.c')
    r = prog.records.get('YR_RULES')
    ctx.require(r is not None, 'record YR_RULES not found')
    assigned = set()
    # the function and the static helpers it is built from
    for g_ in cu.family(prog, f):
        for a in g_.all_nodes():
            if a['k'] == 'bin' and a['op'] == '=':
                l = g_.kid(a, 0)
                if l is not None and l['k'] == 'member' and l.get('rec') == 'YR_RULES':
                    assigned.add(l['fld'])
    groups = {}
    for x in r['fields']:
        g = ('anon', x['anon']) if x.get('anon') else ('f', x['name'])
        groups.setdefault(g, []).append(x['name'])
    for g, names in sorted(groups.items(), key=str):
        ok = any(n in assigned for n in names)
        ctx.ob('R8.6', 'YR_RULES.%s:initialised' % '/'.join(names), ok, '%s:%s' % (f.file, f.line),
               'assigned by yr_rules_from_arena' if ok else
               'YR_RULES is yr_malloc\'ed and field %s is never assigned by '
               'yr_rules_from_arena: readers see heap garbage' % '/'.join(names))


def _fx(fn, **kw):
    d = {'src': 'C08/arena.c', 'run': fn}
    d.update(kw)
    return d


def _r83(ctx):
    r8_3(ctx, r8_1(ctx))


FIXTURES = {
    'R8.1': _fx(r8_1, expect='make_thing:YR_THING:registry'),
    'R8.2': _fx(r8_2, expect='make_thing:yr_parser_emit_with_arg'),
    'R8.3': _fx(_r83, expect='make_thing:YR_THING.name', expect_ok='make_thing:YR_THING.next'),
    'R8.4': _fx(r8_4, expect='return-while-swapped'),
    'R8.5': _fx(r8_5, expect='raw-record:PADDED'),
    'R8.6': _fx(r8_6, expect='YR_RULES.count', expect_ok='YR_RULES.arena'),
}


def run(ctx):
    recs = r8_1(ctx)
    ctx.floor('R8.1', 10)
    r8_2(ctx)
    ctx.floor('R8.2', 12)
    r8_3(ctx, recs)
    ctx.floor('R8.3', 15)
    r8_4(ctx)
    r8_4b(ctx)
    r8_5(ctx)
    ctx.floor('R8.5', 10)
    r8_6(ctx)
    ctx.floor('R8.6', 8)
